"""X15 (extension of C15) -- counted objects that own other counted objects (spec/Owned.tla).

run_part(ck, tier) adds to the vlib.Check of C15:
  * TLC: exhaustive check of Owned (loader proxies, output chains, mpt++ metatypes behind new/delete),
  * binding A: every transition of the model replayed into drv/owned.c + owned_cxx.cpp (allocation seam under
    mptcore/mptio/mptplot/mptloader and, through redirected symbols, under the mpt++ objects),
  * binding B: seeded histories recorded from the real code and validated by TLC against Trace_Owned.
"""
import glob
import hashlib
import json
import os
import subprocess
import threading
import vlib
import vseam

TAG = "x15"
CFG = {
    "quick":    dict(mc=["MC_Owned.cfg"], gen=["Gen_Owned.cfg"], nhist=60, steps=40),
    # thorough: 3 handles x 3 objects for the C scenarios (t) and for the mpt++ classes (c), two proxies with their
    # libraries and instances (3 handles x 5 objects, counters written only while the first proxy is alone) for the
    # loader (l); run side by side
    "thorough": dict(mc=["MC_Owned_t.cfg", "MC_Owned_c.cfg", "MC_Owned_l.cfg"], gen=["Gen_Owned_t.cfg"], nhist=600, steps=60),
}
SCENS = ["loader", "outchain", "cxxmeta"]
T_NH, T_NOBJ, T_MAX, T_EXTRA = 4, 9, 1000, 3      # constants of Trace_Owned.cfg
VLOCK = threading.Lock()
REDEF = {"malloc": "vf_malloc", "free": "vf_cxx_free", "realloc": "vf_realloc", "calloc": "vf_calloc",
         "_Znwm": "vf_opnew", "_Znam": "vf_opnew_arr", "_ZdlPv": "vf_opdelete", "_ZdaPv": "vf_opdelete_arr",
         "_ZdlPvm": "vf_opdelete_sized", "_ZdaPvm": "vf_opdelete_arr_sized"}


def enabled():
    """Switched on by the marker file checks/x15_owned.accepted (created when the fix commits of docs/X15_owned.md are
    integrated in the tree under test) or by VERIF_X15=1, off by VERIF_X15=0."""
    env = os.environ.get("VERIF_X15")
    if env is not None:
        return env not in ("0", "")
    return os.path.exists(os.path.join(vlib.ROOT, "checks", "x15_owned.accepted"))


# ---------------------------------------------------------------------------
# build: C++ objects with their allocation symbols redirected to the seam
# ---------------------------------------------------------------------------
def cxx_seam_objects(files, extra_flags=()):
    """Compile C++ files (absolute, or relative to the repository) with the sanitizer flags; in the symbol table of each
    object malloc/free/operator new/delete are renamed to the seam functions (the source is not touched, <cstdlib> is not
    confused by macros).  Cached by content like vseam.cached_objects."""
    from concurrent.futures import ThreadPoolExecutor
    cdir = vlib.ensure(os.path.join(vlib.WORK, "seamobj"))
    flags = ["clang++"] + vlib.SAN_FLAGS.split() + ["-std=c++11", "-Wno-unused-function", "-Wno-deprecated", "-w", "-c"] + list(extra_flags)
    base = hashlib.sha1((" ".join(flags) + vseam._headers_digest() + json.dumps(REDEF, sort_keys=True)).encode()).hexdigest()
    objs, todo = [], []
    for f in files:
        path = f if os.path.isabs(f) else os.path.join(vlib.REPO, f)
        key = hashlib.sha1(base.encode() + os.path.basename(path).encode() + open(path, "rb").read()).hexdigest()
        o = os.path.join(cdir, key[:2], key + ".o")
        objs.append(o)
        if not os.path.exists(o):
            todo.append((path, o))

    def cc(job):
        path, o = job
        vlib.ensure(os.path.dirname(o))
        tmp = o + ".tmp%d.o" % os.getpid()
        cmd = flags + ["-I" + vlib.DRV] + ["-I" + os.path.join(vlib.REPO, i) for i in vlib.INCLUDES + ["mptloader"]]
        cmd += ["-I" + os.path.dirname(path), path, "-o", tmp]
        r = subprocess.run(cmd, stdout=subprocess.PIPE, stderr=subprocess.STDOUT, text=True)
        if r.returncode:
            return "C++ seam compile failed (%s):\n%s" % (path, r.stdout[-3000:])
        cmd = ["objcopy"]
        for k, v in REDEF.items():
            cmd += ["--redefine-sym", "%s=%s" % (k, v)]
        r = subprocess.run(cmd + [tmp], stdout=subprocess.PIPE, stderr=subprocess.STDOUT, text=True)
        if r.returncode:
            return "objcopy failed (%s): %s" % (path, r.stdout[-1000:])
        os.replace(tmp, o)
        return None
    if todo:
        with ThreadPoolExecutor(max_workers=vlib.NCPU) as ex:
            for err in ex.map(cc, todo):
                if err:
                    raise vlib.MachineryError(err)
        vlib.log("x15 seam: compiled %d of %d C++ objects" % (len(todo), len(files)))
    return objs


def archive(name, objs):
    key = hashlib.sha1("\n".join(objs).encode()).hexdigest()[:16]
    adir = vlib.ensure(os.path.join(vlib.WORK, "seamobj", "ar"))
    path = os.path.join(adir, "lib%s-%s.a" % (name, key))
    if not os.path.exists(path):
        tmp = path + ".tmp%d" % os.getpid()
        if os.path.exists(tmp):
            os.unlink(tmp)
        r = subprocess.run(["ar", "rcs", tmp] + objs, stdout=subprocess.PIPE, stderr=subprocess.STDOUT, text=True)
        if r.returncode:
            raise vlib.MachineryError("ar failed: " + r.stdout[-2000:])
        os.replace(tmp, path)
    return path


def build():
    """Returns (driver executable, plugin shared object)."""
    core = vseam.seam_archive("core", vseam.repo_c_files("mptcore", exclude=("libinfo.c",)))
    plot = vseam.seam_archive("plot", vseam.repo_c_files("mptplot", exclude=("libinfo.c",)))
    io = vseam.seam_archive("io", vseam.repo_c_files("mptio", exclude=("libinfo.c",)))
    ldr = vseam.cached_objects(vseam.repo_c_files("mptloader", exclude=("libinfo.c", "readline.c")))
    inc = ("-I" + os.path.join(vlib.REPO, "mptloader"),)
    drv = vseam.cached_objects([os.path.join(vlib.DRV, "owned.c")], extra_flags=inc)
    cxx = sorted(glob.glob(os.path.join(vlib.REPO, "mpt++", "*.cpp")))
    pp = archive("mptpp", cxx_seam_objects([f[len(vlib.REPO) + 1:] for f in cxx]))
    dcx = cxx_seam_objects([os.path.join(vlib.DRV, "owned_cxx.cpp")])
    odir = vlib.ensure(os.path.join(vlib.WORK, "drv-" + vlib.repo_key()))
    exe = os.path.join(odir, "owned")
    so = os.path.join(odir, "libx15plugin.so")
    with vlib.Lock("x15-link-" + vlib.repo_key()):
        cmd = ["clang++"] + vlib.SAN_FLAGS.split() + drv + dcx + ldr + [pp, "-Wl,--whole-archive", plot, io, core, "-Wl,--no-whole-archive", pp]
        cmd += ["-lm", "-ldl", "-o", exe + ".tmp%d" % os.getpid()]
        r = subprocess.run(cmd, stdout=subprocess.PIPE, stderr=subprocess.STDOUT, text=True)
        if r.returncode:
            raise vlib.MachineryError("x15 driver link failed:\n" + r.stdout[-4000:])
        os.replace(exe + ".tmp%d" % os.getpid(), exe)
        cmd = ["clang", "-shared", "-fPIC", "-O1", "-g", "-Wno-deprecated"] + ["-I" + os.path.join(vlib.REPO, i) for i in vlib.INCLUDES]
        cmd += [os.path.join(vlib.DRV, "owned_plugin.c"), "-o", so + ".tmp%d" % os.getpid()]
        r = subprocess.run(cmd, stdout=subprocess.PIPE, stderr=subprocess.STDOUT, text=True)
        if r.returncode:
            raise vlib.MachineryError("x15 plugin build failed:\n" + r.stdout[-4000:])
        os.replace(so + ".tmp%d" % os.getpid(), so)
    return exe, so


DRV_ENV = {}


def match(exp, obs, step, rec, prev):
    """Verdict projection: answer class, what every handle and every member slot refers to, which objects live, which were
    destroyed by this call (order free), counters where they are visible, nothing left when nothing is referred to."""
    if obs.get("ret") == "baddrv":
        return "driver: step not executable"
    if exp["ret"] != "any" and obs.get("ret") != exp["ret"]:
        return "ret: expected %s, observed %s" % (exp["ret"], obs.get("ret"))
    if obs.get("alive") != exp["alive"]:
        return "alive: expected %s, observed %s" % (exp["alive"], obs.get("alive"))
    if sorted(obs.get("gone") or []) != sorted(exp["gone"]):
        return "gone: expected destroyed %s, observed %s" % (exp["gone"], obs.get("gone"))
    for k in ("href", "mem", "cnt", "badfree"):
        if obs.get(k) != exp[k]:
            return "%s: expected %s, observed %s" % (k, exp[k], obs.get(k))
    if exp.get("dblk") == 0 and obs.get("dblk") != 0:
        return "dblk: the refused call left %s allocation(s) behind" % obs.get("dblk")
    if exp["quiet"] == 0 and obs.get("quiet") != 0:
        return "quiet: nothing is referred to any more but %s allocation(s) remain" % obs.get("quiet")
    return None


def kind_of(beh):
    return (beh[0].get("arg") or {}).get("kind", "?")


def sig_of(beh, i, why):
    """x15:<scenario>:<action>:<via or class>:<differing observation> -- computed from the failing step."""
    st = beh[i]
    arg = st.get("arg") or {}
    cls = arg.get("via") or arg.get("c") or "-"
    if arg.get("how") not in (None, "ok"):
        cls += "," + arg["how"]
    if arg.get("fail"):
        cls += ",nofactory"
    key = why.lower() if why in ("Crash", "Hang", "Garbled") else why.split(":")[0].split(" ")[0].lower()
    return "x15:%s:%s:%s:%s" % (kind_of(beh), st["a"], cls, key)


def run_behaviours(exe, so, behs, nproc=6):
    return vseam.run_parallel(exe, behs, nproc=nproc, env={"X15_PLUGIN": so})


# ---------------------------------------------------------------------------
# binding B: seeded call sequences (inputs only).  The generator follows the reference structure an ideal
# implementation would have, only to emit calls whose preconditions hold; every expected value is computed by TLC.
# ---------------------------------------------------------------------------
TOP = {"loader": ["lib", "proxy"], "outchain": ["outlocal", "outremote"], "cxxmeta": ["generic", "bufmeta", "basic", "sinput"]}
SHARE = lambda c: c not in ("valmeta", "basic")
CLONABLE = ("proxy", "generic", "valmeta", "bufmeta", "basic")
GETSLOT = {"proxy": 2, "outlocal": 1, "generic": 1, "valmeta": 1}
CNTSEEN = ("lib", "proxy", "inst", "outlocal", "outremote")


class Ideal:
    def __init__(self, scen):
        self.k = scen
        self.h = [0] * T_NH
        self.cls = [None] * (T_NOBJ + 1)
        self.cnt = [0] * (T_NOBJ + 1)
        self.x = [0] * (T_NOBJ + 1)
        self.mem = [[0, 0] for _ in range(T_NOBJ + 1)]
        self.made = 0

    def new(self, c):
        self.made += 1
        self.cls[self.made] = c
        self.cnt[self.made] = 1
        return self.made

    def can(self, o):
        return o and SHARE(self.cls[o]) and self.cnt[o] not in (0, T_MAX)

    def lower(self, o):
        if not o:
            return
        if self.cnt[o] <= 1 or not SHARE(self.cls[o]):
            self.cnt[o] = 0
            m, self.mem[o] = self.mem[o], [0, 0]
            for t in m:
                self.lower(t)
        else:
            self.cnt[o] -= 1

    def reaches(self, a, b):
        if not a:
            return False
        todo, seen = [a], set()
        while todo:
            p = todo.pop()
            if p == b:
                return True
            if p in seen:
                continue
            seen.add(p)
            todo += [t for t in self.mem[p] if t]
        return False

    def base(self, o):
        n = self.h.count(o)
        for p in range(1, self.made + 1):
            if self.cnt[p] > 0:
                n += self.mem[p].count(o)
        return n


def gen_histories(rng, n, steps):
    behs = []
    for b in range(n):
        k = SCENS[b % len(SCENS)]
        m = Ideal(k)
        beh = [{"a": "init", "arg": {"kind": k, "nh": T_NH, "nobj": T_NOBJ, "max": T_MAX}}]
        for _ in range(steps):
            op = rng.choice(["create"] * 4 + ["copy"] * 7 + ["drop"] * 4 + ["take"] * 3 + ["setmember"] * 5 + ["clone"] * 2
                            + ["wrap"] * 2 + ["rawref", "rawunref", "rawunref", "poke", "unpoke", "unpoke"])
            alive = [o for o in range(1, m.made + 1) if m.cnt[o] > 0]
            meta = lambda o: not o or m.cls[o] != "lib"
            if op == "create":
                c = rng.choice(TOP[k])
                via = rng.choice(["open", "bind"]) if c == "lib" else "new"
                hows = {("lib", "open"): ["nolib"], ("lib", "bind"): ["nolib", "nosym", "emptysym", "longsym"],
                        ("proxy", "new"): ["nolib", "nosym", "emptysym", "longsym", "nofactory", "nofactory"]}.get((c, via), [])
                how = rng.choice(hows) if hows and rng.random() < 0.3 else "ok"
                hs = [i for i in range(T_NH) if not m.h[i] or (via == "bind" and m.cls[m.h[i]] == "lib")]
                need = 3 if c == "proxy" else 1
                if not hs or m.made + need > T_NOBJ:
                    continue
                i = rng.choice(hs)
                beh.append({"a": "create", "arg": {"h": i + 1, "c": c, "via": via, "how": how}})
                if how != "ok":
                    continue
                old = m.h[i]
                o = m.new(c)
                if c == "proxy":
                    m.mem[o] = [m.new("lib"), m.new("inst")]
                m.h[i] = o
                m.lower(old)
            elif op == "wrap":
                src = [i for i in range(T_NH) if m.h[i]]
                dst = [i for i in range(T_NH) if not m.h[i]]
                if k != "cxxmeta" or not src or not dst or m.made >= T_NOBJ:
                    continue
                g, i, c = rng.choice(src), rng.choice(dst), rng.choice(["generic", "valmeta"])
                beh.append({"a": "wrap", "arg": {"h": i + 1, "c": c, "g": g + 1}})
                t = m.h[g]
                if m.can(t) or c == "valmeta":
                    ok = m.can(t)
                    o = m.new(c)
                    if ok:
                        m.cnt[t] += 1
                        m.mem[o][0] = t
                    m.h[i] = o
            elif op == "copy":
                i, g = rng.randrange(T_NH), rng.randrange(T_NH)
                t, o = m.h[g], m.h[i]
                if t and m.cls[t] == "lib":
                    via = "attach"
                    if o:
                        continue
                else:
                    via = rng.choice(["raw", "cxx", "conv", "cxx", "conv"])
                    if via == "raw" and (o or not t):
                        continue
                    if not meta(o):
                        continue
                beh.append({"a": "copy", "arg": {"h": i + 1, "g": g + 1, "via": via}})
                if t == o:
                    continue
                if t and not m.can(t):
                    if via == "cxx":
                        m.h[i] = 0
                        m.lower(o)
                    continue
                if t:
                    m.cnt[t] += 1
                m.h[i] = t
                m.lower(o)
            elif op == "take":
                src = [i for i in range(T_NH) if m.h[i] and m.cls[m.h[i]] in GETSLOT]
                dst = [i for i in range(T_NH) if not m.h[i]]
                if not src or not dst:
                    continue
                g, i = rng.choice(src), rng.choice(dst)
                s = GETSLOT[m.cls[m.h[g]]]
                beh.append({"a": "take", "arg": {"h": i + 1, "g": g + 1, "s": s}})
                t = m.mem[m.h[g]][s - 1]
                if t and m.can(t):
                    m.cnt[t] += 1
                    m.h[i] = t
            elif op == "setmember":
                hs = [i for i in range(T_NH) if m.h[i] and m.cls[m.h[i]] in ("outlocal", "generic")]
                if not hs:
                    continue
                i, g = rng.choice(hs), rng.randrange(T_NH)
                a, t0 = m.h[i], m.h[g]
                loc = m.cls[a] == "outlocal"
                t = m.mem[t0][0] if (t0 and loc and m.cls[t0] == "outlocal") else t0
                if t and m.reaches(t, a):
                    continue
                via = rng.choice(["prop", "value"]) if loc else "ref"
                beh.append({"a": "setmember", "arg": {"h": i + 1, "g": g + 1, "s": 1, "via": via}})
                old = m.mem[a][0]
                if (not t and loc) or t == old:
                    continue
                if t and not m.can(t):
                    if via == "ref":
                        m.mem[a][0] = 0
                        m.lower(old)
                    continue
                if t:
                    m.cnt[t] += 1
                m.mem[a][0] = t
                m.lower(old)
            elif op == "drop":
                i = rng.randrange(T_NH)
                o = m.h[i]
                via = "detach" if (o and m.cls[o] == "lib") else rng.choice(["raw", "cxx", "conv"])
                beh.append({"a": "drop", "arg": {"h": i + 1, "via": via}})
                m.h[i] = 0
                m.lower(o)
            elif op == "clone":
                src = [i for i in range(T_NH) if m.h[i] and m.cls[m.h[i]] != "lib"]
                dst = [i for i in range(T_NH) if not m.h[i]]
                if not src or not dst:
                    continue
                i, g = rng.choice(src), rng.choice(dst)
                a = m.h[i]
                c = m.cls[a]
                fail = 1 if (c == "proxy" and rng.random() < 0.35) else 0
                if not fail and m.made + (2 if c == "proxy" else 1) > T_NOBJ:
                    continue
                beh.append({"a": "clone", "arg": {"h": i + 1, "g": g + 1, "fail": fail}})
                if fail:
                    continue
                t = m.mem[a][0]
                can = not t or m.can(t)
                if c not in CLONABLE or (not can and c != "valmeta"):
                    continue
                n_ = m.new(c)
                if t and can:
                    m.cnt[t] += 1
                    m.mem[n_][0] = t
                if c == "proxy":
                    m.mem[n_][1] = m.new("inst")
                m.h[g] = n_
            elif op == "rawref":
                os_ = [o for o in alive if m.x[o] < T_EXTRA]
                if not os_:
                    continue
                o = rng.choice(os_)
                beh.append({"a": "rawref", "arg": {"o": o}})
                if m.can(o):
                    m.cnt[o] += 1
                    m.x[o] += 1
            elif op == "rawunref":
                os_ = [o for o in alive if m.x[o] > 0 and m.cnt[o] <= T_MAX // 2]
                if not os_:
                    continue
                o = rng.choice(os_)
                beh.append({"a": "rawunref", "arg": {"o": o}})
                m.x[o] -= 1
                m.lower(o)
            elif op in ("poke", "unpoke"):
                os_ = [o for o in alive if m.cls[o] in CNTSEEN]
                if not os_:
                    continue
                o = rng.choice(os_)
                base = m.base(o)
                v = rng.choice([T_MAX, T_MAX - 1, T_MAX - 1]) if op == "poke" else base
                if v < 1 or v < base:
                    continue
                beh.append({"a": "poke", "arg": {"o": o, "v": v}})
                m.x[o] = v - base
                m.cnt[o] = v
        for o in range(1, m.made + 1):             # no teardown while a counter is written up to MAX-k
            if m.cnt[o] > T_MAX // 2:
                beh.append({"a": "poke", "arg": {"o": o, "v": max(m.base(o), 1)}})
        beh.append({"a": "teardown", "arg": {"x": 0}})
        behs.append(beh)
    return behs


def nontrivial(recs):
    """the history contains an object owned by another object (a member), a shared object (two holders) and a destruction."""
    nested = shared = gone = False
    for r in recs:
        o = r.get("obs") or {}
        if o.get("gone"):
            gone = True
        refs = [x for x in (o.get("href") or []) if x] + [x for mm in (o.get("mem") or []) for x in mm if x]
        if any(x for mm in (o.get("mem") or []) for x in mm):
            nested = True
        if len(refs) != len(set(refs)) or r.get("a") in ("rawref", "poke"):
            shared = True
    return nested and shared and gone


def callseq(beh):
    return json.dumps([(s["a"], s.get("arg")) for s in beh], sort_keys=True)


def validate(hist, recs, max_rejects=8):
    events = vlib.merge_trace(hist, recs)
    nev = len(events)
    found, trans, dropped = [], 0, set()
    while True:
        evs = [e for e in events if e["b"] not in dropped]
        if not evs:
            break
        ok, matched, tres = vlib.validate_trace("Trace_Owned", evs, tag="Trace_Owned_x15")
        trans += tres.generated
        if ok:
            break
        ok2, matched2, _ = vlib.validate_trace("Trace_Owned", evs, tag="Trace_Owned_x15")
        if ok2:
            break
        matched = min(matched, matched2)
        ev = evs[matched] if matched < len(evs) else None
        if ev is None:
            found.append(("x15:trace:short", {"x15": True, "binding": "B(trace validation)", "matched_prefix": matched}))
            break
        beh = hist[ev["b"]]
        why = ev["a"] if ev["a"] in ("Crash", "Hang", "Missing", "Garbled") else "rejected"
        found.append((sig_of(beh, ev["i"], why),
                      {"x15": True, "binding": "B(trace validation)", "matched_prefix": matched, "rejected_event": ev,
                       "previous_event": evs[matched - 1] if matched and evs[matched - 1]["b"] == ev["b"] else None,
                       "behaviour": beh[:ev["i"] + 1]}))
        dropped.add(ev["b"])
        if len(dropped) >= max_rejects:
            break
    tdir = os.path.join(vlib.WORK, "traces")
    for f in os.listdir(tdir) if os.path.isdir(tdir) else []:
        if f.startswith("Trace_Owned_x15-%d." % os.getpid()):
            os.unlink(os.path.join(tdir, f))
    return (len(hist) - len(dropped)) if len(dropped) < max_rejects else 0, found, trans, nev


def run_part(ck, tier):
    import random
    import time
    from concurrent.futures import ThreadPoolExecutor
    cfg = CFG[tier]
    t0 = time.time()
    exe, so = build()
    pool = ThreadPoolExecutor(max_workers=3)

    mcpool = ThreadPoolExecutor(max_workers=3)

    def mc_one(c):
        nw = max(4, vlib.NCPU // 2) if len(cfg["mc"]) == 1 else max(3, vlib.NCPU // 3)
        return c, vlib.tlc("MC_Owned", c, tag="MC_Owned_" + c[:-4], workers=nw, timeout=2400)
    mc = [mcpool.submit(mc_one, c) for c in cfg["mc"]]

    rng = random.Random(ck.seed * 7919 + 15)          # a stream of its own: the base part's draws stay what they were
    hist = gen_histories(rng, cfg["nhist"], cfg["steps"])

    def trace_job():
        recs2 = vseam.rerun_hung(exe, hist, run_behaviours(exe, so, hist, nproc=3))
        acc, found, trans, nev = validate(hist, recs2)
        by2 = vlib.group_records(recs2)
        keys = set(callseq(beh) for b, beh in enumerate(hist) if nontrivial(by2.get(b, [])))
        return acc, found, trans, nev, keys
    tjob = pool.submit(trace_job)

    nt = set()
    seen = {}
    perscen = {}
    nbeh = nmm = 0
    samples = []
    for g in cfg["gen"]:
        path = os.path.join(vlib.ensure(os.path.join(vlib.WORK, "x15")), "%s-%d.out" % (g[:-4], os.getpid()))
        try:
            gen = vlib.tlc_to_file("Gen_Owned", g, path, workers=4 if tier == "quick" else 8, timeout=2400)
            if gen.error:
                raise vlib.MachineryError("x15 behaviour export failed (%s): %s" % (g, gen.error))
            if tier == "quick":
                behs = vlib.parse_behaviours(open(path, errors="replace").read())
                vlib.log("x15 %s: %d behaviours exported in %.1fs" % (g, len(behs), gen.wall))
                recs = run_behaviours(exe, so, behs, nproc=6)
                by = vlib.group_records(recs)
                mms = []
                for mm in vlib.compare(behs, recs, match):
                    if mm["why"] != "Hang":         # a hang may be the machine: once more on its own
                        mms.append(mm)
                        continue
                    r2 = run_behaviours(exe, so, [behs[mm["b"]]], nproc=1)
                    for a in vlib.compare([behs[mm["b"]]], r2, match):
                        a["b"] = mm["b"]
                        mms.append(a)
                dets = [{"behaviour": behs[mm["b"]], "step": mm["i"], "why": mm["why"], "record": mm["rec"]} for mm in mms]
                nt |= set(callseq(beh) for b, beh in enumerate(behs) if nontrivial(by.get(b, [])))
                for beh in behs:
                    perscen[kind_of(beh)] = perscen.get(kind_of(beh), 0) + 1
                nbeh += len(behs)
                nmm += len(mms)
                if behs:
                    samples.append(vlib.sample_repr(behs[len(behs) // 3][:6]))
            else:
                os.environ["X15_PLUGIN"] = so         # the replay workers start the driver with the environment they inherit
                tot = vlib.replay_file(path, exe, match=match, nontrivial=nontrivial, chunk=12000, procs=6)
                vlib.log("x15 %s: %d behaviours exported in %.1fs and replayed" % (g, tot["n"], gen.wall))
                dets = tot["details"]
                nt |= tot["nontrivial"]
                nbeh += tot["n"]
                nmm += tot["mismatches"]
                samples += [sm[:6] for sm in tot["samples"][:1]]
        finally:
            if os.path.exists(path):
                os.unlink(path)
        for det in dets:
            beh = det["behaviour"]
            sig = sig_of(beh, det["step"], det["why"])
            seen[sig] = seen.get(sig, 0) + 1
            if seen[sig] > 2:
                continue
            with VLOCK:
                ck.violation(sig, {"x15": True, "binding": "A(replay)", "behaviour": beh[:det["step"] + 1], "step": det["step"],
                                   "why": det["why"], "record": det["record"]})
    ck.cov["evaluations"] += nbeh
    ck.notes["x15_replayed_behaviours"] = nbeh
    if perscen:
        ck.notes["x15_replayed_per_scenario"] = perscen
    ck.notes["x15_replay_mismatches"] = nmm
    ck.notes["x15_replay_mismatch_signatures"] = seen
    vlib.log("x15 replay: %d behaviours, %d mismatches (t=%.0fs)" % (nbeh, nmm, time.time() - t0))

    acc, found, trans, nev, keys = tjob.result()
    for sig, det in found:
        with VLOCK:
            ck.violation(sig, det)
    nt |= keys
    ck.cov["transitions"] += trans
    ck.cov["evaluations"] += len(hist)
    ck.cov["traces_validated_against_impl"] += acc
    ck.notes["x15_trace_events"] = nev
    ck.notes["x15_traces_accepted"] = acc
    vlib.log("x15 traces: %d histories, %d accepted (t=%.0fs)" % (len(hist), acc, time.time() - t0))

    for c, res in [j.result() for j in mc]:
        ck.add_tlc(res, "x15 exhaustive " + c)
        vlib.log("x15 model checked (%s): %d states, %d transitions, %.1fs" % (c, res.distinct, res.generated, res.wall))
    pool.shutdown()
    mcpool.shutdown()
    ck.cov["distinct_nontrivial"] += len(nt)
    ck.notes["x15_distinct_nontrivial"] = len(nt)
    ck.notes["x15_wall_s"] = round(time.time() - t0, 1)
    ck.cov["rule"] += ("  X15 (Owned): A: one behaviour per transition of the TLC state graph of Owned (loader proxies / library handles, "
                       "output chains, mpt++ metatypes behind new/delete) replayed into the real code; B: seeded histories (4 handles, "
                       "9 objects) validated by TLC; non-trivial = the history has a member reference, a shared object and a destruction.")
    ck.cov["samples"] += samples[:1]
    ck.assumptions += ["x15: drv/owned.c, owned_cxx.cpp, owned_plugin.c project the state without judgement; the layouts of the loader proxy "
                       "and of the local/remote output (position of the counter) are copied from mptloader/library_meta.c, "
                       "mptplot/history/output_local.c and mptio/output_remote.c",
                       "x15: allocation calls of the mpt++ objects (malloc/free/operator new/delete) are redirected to the seam in the "
                       "objects' symbol tables (objcopy --redefine-sym); a release through operator delete of a block obtained with "
                       "malloc is therefore not distinguished from a matching release"]


def replay(det, path):
    beh = det.get("behaviour")
    if not beh:
        print(json.dumps(det, indent=1)[:4000])
        return 2
    exe, so = build()
    recs = run_behaviours(exe, so, [beh], nproc=1)
    if all("exp" in s for s in beh):
        rc = 0
        for mm in vlib.compare([beh], recs, match):
            print("VIOLATION property=C15 replay=%s  (%s: %s)" % (path, sig_of(beh, mm["i"], mm["why"]), mm["why"]))
            rc = 1
        return rc
    events = vlib.merge_trace([beh], recs)
    ok, matched, _ = vlib.validate_trace("Trace_Owned", events, tag="Trace_Owned_replay")
    if not ok:
        print("VIOLATION property=C15 replay=%s  (trace rejected at event %d: %s)" % (
            path, matched, json.dumps(events[matched])[:400] if matched < len(events) else "-"))
    return 0 if ok else 1
