"""C07 -- scalar conversion is exact or refused (spec/Convert.tla, spec/BigNat.tla)."""
import json
import struct
import time
from concurrent.futures import ThreadPoolExecutor

import vlib

PID = "C07"
MANIFEST = dict(
    spec="Convert.tla + BigNat.tla (+MC_BigNat, MC_Convert, Gen_Convert, Trace_Convert)",
    text="Numbers are exact limb sequences (integers, dyadic and decimal rationals). TLC checks exhaustively on scaled types "
         "(3..6 bit integers, 4..6 bit mantissas, every value x every target x every call family; every string over a 10-letter "
         "alphabet up to length 3/4 x bases x targets) that the design of the converters (range-test table + C store modulo 2^bits, "
         "round-to-nearest cast, strtoimax/strtoumax scan with saturation + width check) only produces results the meaning accepts "
         "(equal integer / neighbour in the floating format, never inf from finite; numeral = blank* sign prefix digits), and that "
         "the constructive result sets coincide with the declarative neighbour relation. TLC then enumerates at the real widths all "
         "8-bit sources, +-(2^k+d) boundary values of the wide types, format-boundary floating values and all short strings with "
         "their admissible result sets; each case is executed in the real code (with destination twice over different fill patterns, "
         "and without destination) through mpt_value_convert, mpt_data_convert_*, mpt_iterator_consume, mpt_c[u]int*, "
         "mpt_convert_number, mpt_convert_string, mpt_cfloat/cdouble/cldouble. Finally seeded inputs at full width (all 2^8 / "
         "2^16 narrow sources, every target limit +-2, powers of two, random 32/64-bit and floating bit patterns, numerals with "
         "sign/prefix/blank/magnitude classes up to 4950 digits) are executed and every recorded event is judged by TLC.",
    note="Trusted: TLC, drv/convert.c (transliterates bytes to limbs with frexp/ldexp, maps return codes to ok/refused). Floating "
         "targets: neighbour rule only, rounding direction is not decided. Exhaustive only at scaled widths and for 8/16-bit "
         "sources; 32/64-bit and floating sources by boundary enumeration and seeded sampling. A fault is observed per call "
         "(forked child, ASan), not proved absent.",
    technique="TLA+ spec + TLC exhaustive check on scaled types; TLC-generated cases with admissible result sets replayed into the C "
              "code; TLC validation of recorded conversion events at full width",
    design="5/C07")

CFG = {
    "quick": dict(mc="MC_Convert.cfg", gen="Gen_Convert.cfg", full16=False, nrand=24, ks=(0, 7, 8, 15, 16, 31, 32, 63, 64),
                  text_frac=0.08, long_digits=(40, 310), chunks=8, api_stride={"data": 3, "iter": 4},
                  bn=("MC_BigNat.cfg", "MC_BigNat_16.cfg")),
    "thorough": dict(mc="MC_Convert_t.cfg", gen="Gen_Convert_t.cfg", full16=True, nrand=400, ks=tuple(range(0, 65)),
                     text_frac=1.0, long_digits=(40, 310, 4950), chunks=16, api_stride={"data": 1, "iter": 1},
                     bn=("MC_BigNat_t.cfg", "MC_BigNat_16.cfg")),
}

TYPES = "cbynqiuxtlfde"
INTS = {"c": (1, 8), "b": (1, 8), "y": (0, 8), "n": (1, 16), "q": (0, 16), "i": (1, 32), "u": (0, 32),
        "x": (1, 64), "t": (0, 64), "l": (1, 64)}
FLOATS = "fde"
CINT_FN = {"b": ["int8", "char"], "n": ["int16"], "i": ["int32", "int"], "x": ["int64", "long"], "l": ["long"],
           "y": ["uint8", "uchar"], "q": ["uint16"], "u": ["uint32", "uint"], "t": ["uint64", "ulong"]}
DRV_TIMEOUT = 900
# several JVMs run side by side: keep their collector/compiler thread pools small
JVM_SMALL = {"JAVA_TOOL_OPTIONS": "-XX:ParallelGCThreads=2 -XX:CICompilerCount=2"}
JVM_MID = {"JAVA_TOOL_OPTIONS": "-XX:ParallelGCThreads=4 -XX:CICompilerCount=3"}


# --------------------------------------------------------------------------
# script lines (inputs only)
# --------------------------------------------------------------------------
def num_arg(v):
    if v["k"] == "nan":
        return "nan"
    if v["k"] == "inf":
        return "inf:%d" % v["neg"]
    return "fin:%d:%d:%s" % (v["neg"], v["e"], ",".join(str(x) for x in v["m"]) or "-")


def chars_arg(chars):
    return ",".join(str(c) for c in chars) or "-"


def step_line(st, mode=None):
    a, arg = st["a"], st["arg"]
    if a == "conv":
        src = ("num=" + num_arg(arg["v"])) if "v" in arg else ("bytes=hex:" + arg["bytes"])
        ln = "conv api=%s src=%s dst=%s %s" % (arg["api"], arg["src"], arg["dst"], src)
    else:
        ln = "text api=%s fn=%s dst=%s base=%d chars=%s" % (arg["api"], arg.get("fn", "-"), arg["dst"], arg["base"],
                                                          chars_arg(arg["chars"]))
    if mode:
        ln += " mode=" + mode
    return ln


def script(cases, mode=None):
    out = []
    for i, st in enumerate(cases):
        out.append("B %d" % i)
        out.append(step_line(st, mode))
    return "\n".join(out) + "\n"


def run_cases(exe, cases, parts=8):
    """Run one-step behaviours, split over several driver processes; returns records aligned with cases."""
    if not cases:
        return []
    parts = max(1, min(parts, len(cases) // 2000 + 1))
    size = (len(cases) + parts - 1) // parts
    chunks = [cases[i:i + size] for i in range(0, len(cases), size)]

    def one(ch):
        recs, _ = vlib.run_driver(exe, script(ch), timeout=DRV_TIMEOUT)
        by = {}
        for r in recs:
            by.setdefault(r.get("b"), r)
        return [by.get(i) for i in range(len(ch))]
    with ThreadPoolExecutor(max_workers=parts) as ex:
        res = list(ex.map(one, chunks))
    return [r for ch in res for r in ch]


# --------------------------------------------------------------------------
# binding A: equality of the observed result with TLC's admissible set
# --------------------------------------------------------------------------
def numkey(n):
    return (n["k"], n["neg"], tuple(n["m"]), n["e"])


def match(exp, obs, step):
    """None when the observation is one the specification admits (membership/equality only)."""
    if obs.get("q") != obs.get("r"):
        return "query: with destination %s, without destination %s" % (obs.get("r"), obs.get("q"))
    if obs.get("ov"):
        return "over: bytes behind the target were written"
    if obs.get("r") == "refused":
        return None
    if obs.get("r") != "ok":
        raise vlib.MachineryError("driver answered %r for %r" % (obs, step))
    if step["a"] == "conv":
        allowed, cls = exp["allowed"], "num"
    else:
        if obs["used"] >= len(exp["byused"]):
            return "used: %d characters reported as consumed of %d" % (obs["used"], len(exp["byused"]) - 1)
        e = exp["byused"][obs["used"]]
        allowed, cls = e["allowed"], e["cls"]
    if cls == "skip":
        return None
    if cls == "blank":
        return "blank: a value was stored for consumed blanks" if obs["st"] else None
    if cls == "bad":
        return "numeral: the %d consumed characters do not denote a number" % obs["used"]
    if not obs["st"] or not obs["sb"]:
        return "store: accepted but the target was not written (consistently)"
    if numkey(obs["w"]) not in [numkey(a) for a in allowed]:
        return "value: stored %s, admissible %s" % (json.dumps(obs["w"]), json.dumps([{k: a[k] for k in ("k", "neg", "m", "e")}
                                                                                     for a in allowed]) if allowed else "none (must refuse)")
    return None


def text_class(chars):
    s = bytes(chars).decode("latin-1").strip()
    cls = []
    if s.startswith("-"):
        cls.append("neg")
    if len(s) > 18:
        cls.append("long")
    return "+".join(cls) or "plain"


def signature(step, why):
    arg = step["arg"]
    kind = why.split(":")[0].lower()
    if kind in ("crash", "hang"):
        kind += "-" + why.split(":")[1].strip().split(" ")[0] if ":" in why else ""
    if step["a"] == "conv":
        return "conv:%s:%s>%s:%s" % (arg["api"], arg["src"], arg["dst"], kind)
    return "text:%s:%s:%s:%s" % (arg["api"], arg["dst"], text_class(arg["chars"]), kind)


_PHASE = {}


def crash_phase(exe, step):
    """Diagnostic re-run of a faulting call: with destination only / without destination only
    (once per call family, source and target type)."""
    arg = step["arg"]
    key = (step["a"], arg["api"], arg.get("src"), arg["dst"], arg.get("fn"))
    if key not in _PHASE:
        _PHASE[key] = _crash_phase(exe, step)
    return _PHASE[key]


def _crash_phase(exe, step):
    ph = []
    for mode in ("store", "query"):
        recs, _ = vlib.run_driver(exe, "B 0\n" + step_line(step, mode) + "\n")
        if recs and recs[0].get("a") in ("Crash", "Hang"):
            ph.append(mode)
    return "+".join(ph) or "both-only"


def expand_gen(behs):
    """One TLC case -> the driver cases exercising it (several C entry points share an expectation)."""
    cases = []
    for beh in behs:
        st = beh[0]
        arg = st["arg"]
        if st["a"] == "conv":
            cases.append(st)
            continue
        dst = arg["dst"]
        if dst in FLOATS and arg["api"] == "cint":
            cases.append({"a": "text", "arg": dict(arg, api="cflt", fn="-"), "exp": st["exp"]})
        elif arg["api"] == "cint":
            for fn in CINT_FN[dst]:
                cases.append({"a": "text", "arg": dict(arg, fn=fn), "exp": st["exp"]})
        else:
            cases.append({"a": "text", "arg": dict(arg, fn="-"), "exp": st["exp"]})
    return cases


# --------------------------------------------------------------------------
# binding B: inputs at full width (no expected values here)
# --------------------------------------------------------------------------
def int_bytes(v, bits):
    return (v & ((1 << bits) - 1)).to_bytes(bits // 8, "little").hex()


def ext_bytes(sign, exp, mant):
    """x87 extended: 64-bit significand (explicit integer bit), 15-bit exponent, sign."""
    return (mant.to_bytes(8, "little") + ((sign << 15) | exp).to_bytes(2, "little")).hex()


def int_values(ck, t, cfg):
    sg, bits = INTS[t]
    lo, hi = (-(1 << (bits - 1)), (1 << (bits - 1)) - 1) if sg else (0, (1 << bits) - 1)
    if bits == 8 or (bits == 16 and cfg["full16"]):
        return list(range(lo, hi + 1))
    vals = set()
    for k in cfg["ks"]:
        for d in (-2, -1, 0, 1, 2):
            vals.add((1 << k) + d)
            vals.add(-((1 << k) + d))
    for (s2, b2) in set(INTS.values()):
        l2, h2 = (-(1 << (b2 - 1)), (1 << (b2 - 1)) - 1) if s2 else (0, (1 << b2) - 1)
        for d in (-2, -1, 0, 1, 2):
            vals.add(l2 + d)
            vals.add(h2 + d)
    vals.update([0, 31, 32, 33, 126, 127, 128, 255, 256, 0x141, 0x100 + 65, 0x10000 + 65, 0x100000041, (1 << 32) + 126,
                 -191, 0x7fffffff, lo, hi, lo + 1, hi - 1])
    for _ in range(cfg["nrand"]):
        vals.add(ck.rng.randrange(lo, hi + 1))
        vals.add(ck.rng.randrange(lo, hi + 1) >> ck.rng.randrange(bits))
    return sorted(v for v in vals if lo <= v <= hi)


def float_patterns(ck, t, cfg):
    """raw encodings (hex, little endian) of floating sources"""
    rng = ck.rng
    out = set()
    if t == "f":
        pats = [0, 1, 0x007fffff, 0x00800000, 0x3f800000, 0x7f7fffff, 0x7f800000, 0x7fc00000, 0x7f800001, 0x4b800000, 0x4b7fffff,
                0x5f000000, 0x5effffff, 0x4f000000]
        for p in pats:
            out.add(struct.pack("<I", p).hex())
            out.add(struct.pack("<I", p | 0x80000000).hex())
        for _ in range(cfg["nrand"] * 2):
            out.add(struct.pack("<I", rng.getrandbits(32)).hex())
    elif t == "d":
        fmax = 0x47efffffe0000000          # FLT_MAX as double
        pats = [0, 1, 0x000fffffffffffff, 0x0010000000000000, 0x3ff0000000000000, 0x7fefffffffffffff, 0x7ff0000000000000,
                0x7ff8000000000000, fmax, fmax + 1, fmax - 1, fmax + 0x10000000, fmax + 0x0fffffff, fmax + 0x10000001,
                0x47f0000000000000, 0x36a0000000000000, 0x369fffffffffffff, 0x36a0000000000001, 0x3690000000000000,
                0x3680000000000000, 0x380fffffffffffff, 0x3810000000000000, 0x43e0000000000000, 0x43dfffffffffffff,
                0x43f0000000000000, 0x41e0000000000000, 0x3ff0000010000000, 0x3ff0000030000000, 0x3ff0000010000001]
        for p in pats:
            out.add(struct.pack("<Q", p).hex())
            out.add(struct.pack("<Q", p | (1 << 63)).hex())
        for _ in range(cfg["nrand"] * 2):
            out.add(struct.pack("<Q", rng.getrandbits(64)).hex())
            # around the float range limits
            out.add(struct.pack("<Q", (rng.choice([0x47e, 0x47f, 0x36a, 0x369, 0x380, 0x381]) << 52) | rng.getrandbits(52)
                                | (rng.getrandbits(1) << 63)).hex())
    else:
        top = 1 << 63
        pats = [(0, 0), (0, 1), (0, top - 1), (1, top), (16383, top), (32766, (1 << 64) - 1), (32767, top), (32767, top | (1 << 62)),
                (16383 + 1023, top | (((1 << 53) - 1) << 10)), (16383 + 1023, top | (((1 << 53) - 1) << 10) | 0x200),
                (16383 + 1023, top | (((1 << 53) - 1) << 10) | 0x3ff), (16383 + 1023, top | (((1 << 53) - 1) << 10) | 0x400),
                (16383 + 1024, top), (16383 + 127, top | (((1 << 24) - 1) << 39)), (16383 + 127, (1 << 64) - 1), (16383 + 128, top),
                (16383 - 1074, top), (16383 - 1075, top), (16383 - 1075, top | 1), (16383 - 1076, top), (16383 - 149, top),
                (16383 - 150, top), (16383 - 150, top | 1), (16383 + 63, (1 << 64) - 1), (16383 + 64, top), (16383, top | 1)]
        for e, m in pats:
            out.add(ext_bytes(0, e, m))
            out.add(ext_bytes(1, e, m))
        for _ in range(cfg["nrand"] * 2):
            e = rng.choice([rng.randrange(0, 32767), 16383 + rng.randrange(-1100, 1100), 16383 + rng.randrange(-160, 140)])
            m = rng.getrandbits(63) | (top if e else 0)
            out.add(ext_bytes(rng.getrandbits(1), e, m))
    return sorted(out)


def gen_conv_cases(ck, cfg):
    cases = []
    for src in TYPES:
        if src in INTS:
            bits = INTS[src][1]
            vals = [int_bytes(v, bits) for v in int_values(ck, src, cfg)]
        else:
            vals = float_patterns(ck, src, cfg)
        big = len(vals) > 5000
        if big:
            # all 2^16 values through mpt_value_convert for the targets whose limits lie inside
            # the source range (plus one wide and one floating target); the other call families
            # and targets get the boundary set
            for dst in "cbynqiuxf":
                for hx in vals:
                    cases.append({"a": "conv", "arg": {"api": "value", "src": src, "dst": dst, "bytes": hx}})
            vals = [int_bytes(v, INTS[src][1]) for v in int_values(ck, src, dict(cfg, full16=False))]
        for dst in TYPES:
            for api in ("value", "data", "iter"):
                if big and api == "value" and dst in "cbynqiuxf":
                    continue
                for hx in (vals if api == "value" else vals[::cfg["api_stride"][api]]):
                    cases.append({"a": "conv", "arg": {"api": api, "src": src, "dst": dst, "bytes": hx}})
    return cases


def to_base(n, base):
    digs = "0123456789abcdefghijklmnopqrstuvwxyz"
    if n == 0:
        return "0"
    out = ""
    while n:
        out = digs[n % base] + out
        n //= base
    return out


def gen_text_cases(ck, cfg):
    rng = ck.rng
    mags = {0, 1, 7, 8, 9, 10, 10 ** 19, 10 ** 20, (1 << 64) * 10 + 5, (1 << 65) - 1, (1 << 128) + 1}
    for k in (7, 8, 15, 16, 31, 32, 63, 64):
        for d in (-2, -1, 0, 1):
            mags.add((1 << k) + d)
    for nd in cfg["long_digits"]:
        mags.add(10 ** nd - 1)
        mags.add(10 ** (nd - 1))
    mags.update([(1 << 64) + (1 << 63), (1 << 64) + 1, 2 * (1 << 64) - 1, 340282346638528859811704183484516925440,
                 340282356779733661637539395458142568448, 340282356779733661637539395458142568447, 1 << 128])
    forms = [(10, 0, ""), (10, 10, ""), (16, 0, "0x"), (16, 16, "0x"), (16, 16, ""), (16, 0, "0X"), (8, 0, "0"), (8, 8, ""),
             (36, 36, ""), (2, 2, "")]
    signs = ["", "-", "+"]
    leads = ["", " ", "\t \n"]
    tails = ["", "", "", " ", "z", "x", ".5", "e2", "\n"]
    texts = set()   # (text, base)
    must = set()    # kept in the quick tier's sample
    for m in sorted(mags):
        for radix, base, pfx in forms:
            if m.bit_length() > 300 and radix not in (10, 16):
                continue
            body = pfx + to_base(m, radix)
            long = m.bit_length() > 300      # TLC folds every digit: keep the long numerals few
            for s in (signs[:2] if long else signs):
                for ld in (leads[:1] if long else leads):
                    texts.add((ld + s + body + rng.choice(tails), base))
                    if ld == "" and s != "+" and (radix, base, pfx) in forms[:3]:
                        must.add((s + body, base))       # every magnitude class, plain and negative, in every tier
    for t in ["", " ", "  \t", "-", "+", "0x", "0xg", "0x ", "08", "09", "- 1", "+-1", "--1", "1 2", "0b101", "1e5", "१", "\xb2",
              "0x-1", "-0x1", "-0", "+0", "00", "0000000000000000000000000000000000000001", "-00000000000000000000000000000009",
              "18446744073709551615", "-18446744073709551615", "-18446744073709551616", "-9223372036854775808",
              "-9223372036854775809", "9223372036854775807", "9223372036854775808", "0x7fffffffffffffff", "0x8000000000000000",
              "0xffffffffffffffff", "0x10000000000000000", "-0x8000000000000000", "-0x8000000000000001", "01777777777777777777777",
              "02000000000000000000000", "zzzzzzzzzzzzz", "1y2p0ij32e8e7", "1y2p0ij32e8e8", "3w5e11264sgsf", "3w5e11264sgsg"]:
        for base in (0, 10, 16, 36):
            texts.add((t, base))
            if base in (0, 16):
                must.add((t, base))
    texts |= must
    ftexts = ["1e38", "3.4028235e38", "3.4028236e38", "3.40282357e38", "340282356779733661637539395458142568447",
              "340282356779733661637539395458142568448", "1e39", "-1e39", "1e-45", "1.4e-45", "7e-46", "1e-46", "1e-60", "1e308",
              "1.7976931348623157e308", "1.7976931348623158e308", "1.7976931348623159e308", "1.8e308", "1e309", "-1e309", "5e-324",
              "4.9e-324", "2.4e-324", "2.5e-324", "1e-330", "1e4932", "1.18973149535723176502e4932", "1.19e4932", "1e4933", "-1e4933",
              "3.6451995318824746025e-4951", "1e-4951", "1e-4960", "1e-5000", "0x1p-1074", "0x1p-1075", "0x1.8p-1075", "0x1p1023",
              "0x1p1024", "0x1.fffffep127", "0x1.ffffffp127", "0x1.fffffefp127", "0x1p128", "0x1p-149", "0x1p-150", "0x1.8p-150",
              "0x1p16383", "0x1p16384", "0x1p-16445", "0x1p-16446", "0x.8p1", "0x1.p0", "0x.p1", "0xp1", "inf", "-inf", "+INF",
              "infinity", "Infinityx", "nan", "-nan", "NAN(123)", "nan(", "in", "i", "1e", "1e+", "1.5e+x", ".", "-.", ".e1", "-.5e1",
              "5.e-1", "1.0000000000000000000000000000000000000000000001", "0.1", "0.5", "-0.25", "16777217", "16777216.5",
              "9007199254740993", "9007199254740992.5", "18446744073709551617", "1_0", "1 e5", " \t1e2", "0e99999", "-0e-99999",
              "1e99999", "1e-99999", "1" + "0" * 40, "1" + "0" * 310, "0." + "0" * 60 + "1", "9" * 40, "9" * 310,
              "0x" + "f" * 40, "0x" + "f" * 260, "123456789.123456789e-5", "1e0", "1E+2", "0X1P+4"]
    for nd in cfg["long_digits"]:
        ftexts.append("9" * nd)
    for _ in range(cfg["nrand"] * 3):
        mant = str(rng.randrange(10 ** rng.randrange(1, 20)))
        if rng.random() < 0.6:
            p = rng.randrange(len(mant) + 1)
            mant = mant[:p] + "." + mant[p:]
        ex = rng.choice([0, rng.randrange(-60, 60), rng.randrange(-340, 330), rng.randrange(-5000, 5000)])
        ftexts.append(rng.choice(["", "-", " "]) + mant + ("e%d" % ex if ex else ""))
        hm = "%x" % rng.getrandbits(rng.randrange(1, 80))
        ftexts.append("0x" + hm[:1] + "." + hm[1:] + "p%d" % rng.choice([0, rng.randrange(-1100, 1100), rng.randrange(-16500, 16500)]))
    cases = []
    tl = sorted(texts)
    for (t, base) in tl:
        if cfg["text_frac"] < 1.0 and (t, base) not in must and rng.random() > cfg["text_frac"] and len(t) < 60:
            continue
        chars = list(t.encode("latin-1", "replace"))
        if 0 in chars:
            continue
        for dst, fns in CINT_FN.items():
            for fn in fns:
                cases.append({"a": "text", "arg": {"api": "cint", "fn": fn, "dst": dst, "base": base, "chars": chars}})
        if base == 0:
            for dst in "bynqiuxtl":
                cases.append({"a": "text", "arg": {"api": "number", "fn": "-", "dst": dst, "base": 0, "chars": chars}})
                cases.append({"a": "text", "arg": {"api": "string", "fn": "-", "dst": dst, "base": 0, "chars": chars}})
    inttexts = [t for (t, b) in tl if b in (0, 10) and len(t) < 60]
    for t in ftexts + rng.sample(inttexts, min(len(inttexts), 40 + cfg["nrand"])):
        chars = list(t.encode("latin-1", "replace"))
        for dst in FLOATS:
            for api in ("cflt", "number", "string"):
                cases.append({"a": "text", "arg": {"api": api, "fn": "-", "dst": dst, "base": 0, "chars": chars}})
    return cases


def validate_events(events, nchunks, tag):
    """TLC judges every event; returns (rejected event indices, matched count, transitions)."""
    if not events:
        return [], 0, 0
    nchunks = max(1, min(nchunks, len(events) // 500 + 1))
    size = min((len(events) + nchunks - 1) // nchunks, 40000)      # bounded memory per TLC process
    spans = [(i, events[i:i + size]) for i in range(0, len(events), size)]

    def one(sp):
        off, evs = sp
        import re
        ok, matched, res = vlib.validate_trace("Trace_Convert", evs, tag="%s-%d" % (tag, off), xss="1g", timeout=1400,
                                               extra_env=JVM_SMALL)
        rej = [int(x) - 1 + off for x in re.findall(r'<<"REJECT", (\d+)>>', res.out)]
        if matched != len(evs):
            raise vlib.MachineryError("trace validation stopped at event %d of %d:\n%s" % (matched, len(evs), res.out[-2000:]))
        return rej, matched, res.generated
    with ThreadPoolExecutor(max_workers=nchunks) as ex:
        out = list(ex.map(one, spans))
    return sorted(r for o in out for r in o[0]), sum(o[1] for o in out), sum(o[2] for o in out)


def to_events(cases, recs):
    ev = []
    for i, (st, r) in enumerate(zip(cases, recs)):
        e = {"a": st["a"], "arg": st["arg"], "b": i, "i": 0}
        if r is None:
            e["a"] = "Missing"
        elif r.get("a") in ("Crash", "Hang", "Garbled"):
            e["a"] = r["a"]
        else:
            e["obs"] = r.get("obs") or {}
            if e["obs"].get("r") not in ("ok", "refused"):
                raise vlib.MachineryError("driver answered %r for %r" % (r, st))
        ev.append(e)
    return ev


class Check(vlib.Check):
    """at most three replay files per signature (a broken range test fails for thousands of values)"""

    def violation(self, sig, detail):
        n = sum(1 for s, _ in self.violations if s == sig)
        if n >= 3:
            self.notes["violations_not_written"] = self.notes.get("violations_not_written", 0) + 1
            return True
        return vlib.Check.violation(self, sig, detail)


def run(tier):
    cfg = CFG[tier]
    ck = Check(PID, tier)
    exe = vlib.build_driver("convert", ["convert.c"])
    pool = ThreadPoolExecutor(max_workers=6)

    # 1. model level: limb arithmetic against TLC integers; design => meaning on scaled types
    f_bn4 = pool.submit(vlib.tlc, "MC_BigNat", cfg["bn"][0], 2, tag="MC_BigNat4", env=JVM_SMALL)
    f_bn16 = pool.submit(vlib.tlc, "MC_BigNat", cfg["bn"][1], 2, tag="MC_BigNat16", env=JVM_SMALL)
    f_mc = pool.submit(vlib.tlc, "MC_Convert", cfg["mc"], 8, xss="256m", tag="MC_Convert", env=JVM_MID)
    # 2. binding A: cases + admissible result sets enumerated by TLC at the real widths
    f_gen = pool.submit(vlib.tlc, "Gen_Convert", cfg["gen"], 8, xss="256m", tag="Gen_Convert", env=JVM_MID)

    # 3. binding B inputs (generated while TLC runs)
    convs = gen_conv_cases(ck, cfg)
    texts = gen_text_cases(ck, cfg)
    bcases = convs + texts
    brecs = run_cases(exe, bcases, parts=8)
    events = to_events(bcases, brecs)
    vlib.log("B: %d conversions executed (%.1fs)" % (len(bcases), time.time() - ck.t0))
    f_val = pool.submit(validate_events, events, cfg["chunks"], "Trace_Convert")     # 3b. TLC judges the recorded events

    gen = f_gen.result()
    if gen.error:
        raise vlib.MachineryError("case export failed: %s" % gen.error)
    ck.add_tlc(gen, "real-width cases + invariants " + cfg["gen"])
    behs = vlib.parse_behaviours(gen.out)
    if not behs:
        raise vlib.MachineryError("case export produced nothing")
    acases = expand_gen(behs)
    vlib.log("A: %d cases exported by TLC (%.1fs)" % (len(acases), time.time() - ck.t0))
    arecs = run_cases(exe, acases, parts=8)
    n_acc = n_must = n_des = n_des_eq = 0
    nontriv = set()
    for st, rec in zip(acases, arecs):
        why = None
        if rec is None:
            why = "Missing"
        elif rec.get("a") in ("Crash", "Hang", "Garbled"):
            why = rec["a"] + ":" + crash_phase(exe, st)
        else:
            obs = rec.get("obs") or {}
            if st["a"] == "conv" and "v" in obs and numkey(obs["v"]) != numkey(st["arg"]["v"]):
                raise vlib.MachineryError("source value did not reach the driver unchanged: %r / %r" % (st["arg"], obs["v"]))
            why = match(st["exp"], obs, st)
            des = st["exp"].get("design") or {}
            if st["a"] == "conv" or st["arg"]["dst"] not in FLOATS:      # Tier 2 has no model of strtod
                n_des += 1
                if des.get("r") == obs.get("r") and (obs.get("r") != "ok" or obs.get("st") == 0 or (
                        numkey(des["w"]) == numkey(obs["w"]) and des.get("used") == obs.get("used"))):
                    n_des_eq += 1
            if obs.get("r") == "ok":
                n_acc += 1
                nontriv.add(step_line(st))
            elif st["a"] == "conv" and not st["exp"]["allowed"]:
                n_must += 1
                nontriv.add(step_line(st))
        if why:
            ck.violation(signature(st, why), {"binding": "A(replay)", "behaviour": [st], "why": why, "record": rec})
    ck.cov["evaluations"] += len(acases)
    ck.notes["replayed_cases"] = len(acases)
    ck.notes["replayed_accepted_and_equal"] = n_acc
    ck.notes["replayed_refusal_obliged"] = n_must
    ck.notes["design_prediction_equal_to_code"] = "%d of %d (diagnostic: how closely Tier 2 mirrors the code; not a verdict)" % (n_des_eq, n_des)

    vlib.log("A: compared (%.1fs)" % (time.time() - ck.t0))
    # 3b. TLC judges the recorded events
    rejected, matched, trans = f_val.result()
    vlib.log("B: %d events judged by TLC, %d rejected (%.1fs)" % (matched, len(rejected), time.time() - ck.t0))
    ck.cov["transitions"] += trans
    confirmed = []
    if rejected:
        sub = [events[i] for i in rejected]
        rej2, _, _ = validate_events(sub, 4, "Trace_Convert_re")     # re-run before reporting
        confirmed = [rejected[j] for j in rej2]
    for i in confirmed:
        ev = events[i]
        st = bcases[i]
        if ev["a"] in ("Crash", "Hang"):
            why = ev["a"] + ":" + crash_phase(exe, st)
        elif ev["a"] == "Missing":
            why = "Missing"
        else:
            o = ev["obs"]
            why = ("query" if o.get("q") != o.get("r") else "over" if o.get("ov") else "rejected") + ": event not admitted by Convert"
        ck.violation("trace:" + signature(st, why), {"binding": "B(trace validation)", "behaviour": [st], "why": why, "event": ev})
    n_okb = 0
    for st, ev in zip(bcases, events):
        if ev.get("obs", {}).get("r") == "ok":
            n_okb += 1
            nontriv.add(step_line(st))
    ck.cov["traces_validated_against_impl"] = len(events) - len(confirmed)
    ck.cov["evaluations"] += len(events)
    ck.notes["trace_events"] = len(events)
    ck.notes["trace_events_conv"] = len(convs)
    ck.notes["trace_events_text"] = len(texts)
    ck.notes["trace_events_accepted_by_code"] = n_okb
    ck.notes["trace_events_rejected_by_tlc"] = len(confirmed)

    for f, what in ((f_bn4, "limb arithmetic LBits=4"), (f_bn16, "limb arithmetic LBits=16"), (f_mc, "scaled types " + cfg["mc"])):
        ck.add_tlc(f.result(), what)
    pool.shutdown()

    ck.cov["distinct_nontrivial"] = len(nontriv)
    ck.cov["exhaustive"] = True
    ck.cov["rule"] = ("Model: every (call family, source, target, value) of the scaled type table and every string over the alphabet "
                      "up to TextLen (exhaustive). A: every TLC-enumerated real-width case (all values of c/b/y, +-(2^k+d) of the "
                      "wide integer types, format-boundary floating values, all strings up to length 3/4 over the alphabet; each "
                      "through every C entry point sharing the expectation). B: seeded full-width inputs (all 8-bit and, thorough, "
                      "all 16-bit sources; each target limit +-2; 2^k+d; random; floating bit patterns; numerals by sign x blank x "
                      "prefix/base x magnitude class) judged event by event by TLC. Non-trivial = the real code accepted and the "
                      "stored value was judged, or TLC's admissible set was empty (refusal obliged); distinct by call line.")
    mid = len(acases) // 2
    ck.cov["samples"] = [vlib.sample_repr([acases[mid]]), vlib.sample_repr([acases[-1]]),
                         [{"a": e["a"], "arg": e["arg"], "obs": e.get("obs")} for e in (events[len(convs) // 2], events[-1])]]
    ck.assumptions = ["TLC/SANY and the CommunityModules Json/IOUtils are correct",
                      "drv/convert.c transliterates bytes to limbs (frexp/ldexp, two's complement) and maps return codes to "
                      "ok/refused without judgement; x86-64 (char signed, long 64 bit, long double = x87 extended)",
                      "floating targets: neighbour rule and finite-stays-finite only; rounding direction is not decided",
                      "exhaustive at scaled widths and for 8/16-bit sources; otherwise boundary enumeration and seeded sampling",
                      "absence of faults is observed per executed call (forked child, ASan), not proved"]
    # extension X07: scalar TO text, formats / destinations parsed from text, ranges, vectors (checks/x07_print.py, docs/X07_print.md)
    import x07_print
    if x07_print.enabled():
        x07_print.run_part(ck, tier)
    return ck.finish()


def replay(path):
    d = json.load(open(path))
    det = d["detail"]
    if det.get("part") == "x07_print":
        import x07_print
        return x07_print.replay(det, path)
    beh = det.get("behaviour")
    if not beh:
        print(json.dumps(det, indent=1)[:4000])
        return 2
    exe = vlib.build_driver("convert", ["convert.c"])
    st = beh[0]
    recs = run_cases(exe, [st], parts=1)
    rec = recs[0]
    if rec is None or rec.get("a") in ("Crash", "Hang", "Garbled"):
        print("VIOLATION property=%s replay=%s  (%s: %s)" % (PID, path, signature(st, "crash"), rec))
        return 1
    if "exp" in st:
        why = match(st["exp"], rec.get("obs") or {}, st)
        if why:
            print("VIOLATION property=%s replay=%s  (%s: %s)" % (PID, path, signature(st, why), why))
        return 1 if why else 0
    events = to_events([st], recs)
    rej, _, _ = validate_events(events, 1, "Trace_Convert_replay")
    if rej:
        print("VIOLATION property=%s replay=%s  (event not admitted by Convert: %s)" % (PID, path, json.dumps(events[0])[:600]))
    return 1 if rej else 0
