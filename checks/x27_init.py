"""X27 -- extension of C10 (spec/CfgInit.tla): the process start-up door of the process-wide configuration:
mpt_init(argc, argv) (options in every order, repeated, clustered, "--", missing values, configuration file present /
missing / refused, $MPT_FLAGS, environment import by pattern, remaining arguments stored at mpt.args) and
mpt_client_config reading the stored arguments.

run_part(ck, tier) adds its TLC results, replay counts, violations and notes to the given vlib.Check of C10.  All
judgement is TLC's (CfgInit: InitRun = the start-up as the sequence of its single assignments; InitProp = LastWins of
X10): Python transports arguments and expected answers and compares for equality under the projection of
docs/X27_init.md ([-2] = "empty text or absent"; a refused start-up: only the refusal)."""
import json
import os
import shutil
import threading
import vlib
import c14 as common       # chunks(), callkey()

TAG = "X27"
FAST_ENV = {"ASAN_OPTIONS": vlib.ASAN_ENV + ":symbolize=0"}
CFG = {
    "quick": dict(gen=["Gen_CfgInit_a.cfg", "Gen_CfgInit_two.cfg"]),
    "thorough": dict(gen=["Gen_CfgInit_a_t.cfg", "Gen_CfgInit_two_t.cfg"]),
}
LISTKEYS = ("uni", "rel", "argv", "env")
VAGUE, ABSENT = [-2], [-1]
NPAR = 4


def enabled():
    """The part needs its fix commits (docs/X27_init.md) in the tree under test: switched on by the marker file
    checks/x27_init.accepted or by VERIF_X27=1, off by VERIF_X27=0."""
    env = os.environ.get("VERIF_X27")
    if env is not None:
        return env not in ("0", "")
    return os.path.exists(os.path.join(vlib.ROOT, "checks", "x27_init.accepted"))


def tmpdir():
    base = os.environ.get("TMPDIR") or os.path.join(vlib.WORK, TAG, "tmp")
    return vlib.ensure(os.path.join(base, "x27-%d" % os.getpid()))


def build():
    return vlib.build_driver("cfginit", ["cfginit.c"])


def hexs(b):
    if b == [0]:
        return "00"
    return "".join("%02x" % x for x in b) or "-"


def fmt_step(st, quiet):
    toks = [st["a"]]
    for k, v in (st.get("arg") or {}).items():
        if k in LISTKEYS:
            toks.append("%s=%s" % (k, ";".join(hexs(x) for x in v) or "none"))
        else:
            toks.append("%s=%s" % (k, vlib.fmt_val(v)))
    if quiet:
        toks.append("q=1")
    return " ".join(toks)


def script(behs, quiet_prefix=True):
    lines = []
    for i, beh in enumerate(behs):
        lines.append("B %d" % i)
        for j, st in enumerate(beh):
            lines.append(fmt_step(st, quiet_prefix and j < len(beh) - 1))
    return "\n".join(lines) + "\n"


def sim(e, o):
    return e == o or (e == VAGUE and o in ([], ABSENT))


def match(exp, obs, step, rec, prev):
    """Verdict projection: accepted / refused; unless refused the answers of every path of the universe (from the
    root and through the view) and the stored remaining arguments."""
    if not exp:
        return None
    if not exp.get("anyret") and obs.get("ret") != exp.get("ret"):
        return "ret: expected %s, observed %s" % (json.dumps(exp.get("ret")), json.dumps(obs.get("ret")))
    if exp.get("allany"):
        return None
    for k in ("all", "rel"):
        if k not in obs:
            return "%s: missing" % k
        if len(exp[k]) != len(obs[k]):
            return "%s: %d answers for %d paths" % (k, len(obs[k]), len(exp[k]))
        diff = [i for i, (x, y) in enumerate(zip(exp[k], obs[k])) if not sim(x, y)]
        if diff:
            return "%s: paths %s: expected %s, observed %s" % (k, diff[:6], json.dumps([exp[k][i] for i in diff[:6]]),
                                                               json.dumps([obs[k][i] for i in diff[:6]]))
    if "args" in exp and obs.get("args") != exp["args"]:
        return "args: expected %s, observed %s" % (json.dumps(exp["args"]), json.dumps(obs.get("args")))
    return None


def arg_class(st):
    """discriminating condition of a failing step, computed from its arguments"""
    arg = st.get("arg") or {}
    if st["a"] != "startup":
        return str(arg.get("via", "-"))
    av = arg.get("argv") or []
    words = []
    for s in av[1:]:
        t = "".join(chr(x) for x in s)
        if t == "--":
            words.append("--")
        elif t.startswith("-") and len(t) > 1:
            words.append(t[:2] + ("+" if len(t) > 2 else ""))
        else:
            words.append("w")
    return "argv=" + ("".join(words)[:24] if words else "none")


def signature(mm, label):
    st = mm["step"]
    why = mm["why"]
    if why in ("Crash", "Hang"):
        return "x27:%s:%s:%s" % (st["a"], why.lower(), arg_class(st))
    return "x27:%s:%s:%s" % (st["a"], why.split(":")[0], arg_class(st))


def nontrivial(beh):
    """a start-up that assigns through at least two different doors (file, option value, environment, remaining
    arguments), or a call after / before another one"""
    if len(beh) >= 3:
        return True
    arg = beh[-1].get("arg") or {}
    doors = 0
    av = ["".join(chr(x) for x in s) for s in (arg.get("argv") or [])[1:]]
    doors += any(s.startswith("-f") for s in av) or arg.get("etc") == "doc"
    doors += any(s.startswith(("-c", "-l")) for s in av)
    doors += bool(arg.get("env")) and (any(s.startswith(("-E", "-e")) for s in av) or arg.get("flags") != [0])
    doors += len((beh[-1].get("exp") or {}).get("args") or [[-9]]) > 0 and (beh[-1].get("exp") or {}).get("args") != [[-9]]
    return doors >= 2


def export(gencfg, out):
    wdir = vlib.ensure(os.path.join(vlib.WORK, TAG))
    tag = gencfg.replace(".cfg", "")
    path = os.path.join(wdir, "behav-%s-%d.txt" % (tag, os.getpid()))
    if os.path.exists(path):
        os.unlink(path)
    try:
        out[gencfg] = (path, vlib.tlc("Gen_CfgInit", gencfg, workers=4, extra=("-userFile", path), tag="Gen_CfgInit-" + tag,
                                      xss="64m"))
    except Exception as e:
        out[gencfg] = (path, e)


def binding_a(ck, exe, gencfg, nt, samples, path, gen, env):
    if isinstance(gen, Exception):
        raise vlib.MachineryError("X27 behaviour export failed: %s" % gen)
    if gen.error:
        raise vlib.MachineryError("X27 behaviour export failed: %s" % gen.error)
    ck.add_tlc(gen, "x27 exhaustive+export " + gencfg)
    label = gencfg.replace(".cfg", "").replace("Gen_CfgInit_", "")
    total = nmm = 0
    failed = {}
    for ch in common.chunks(path, 6000):
        behs = list(vlib.parse_behaviours("".join(ch)))
        if not behs:
            continue
        # (every behaviour is its own process: the batch is run in parallel parts)
        parts = [behs[i::NPAR] for i in range(NPAR)]
        out = [None] * NPAR

        def run(i):
            try:
                out[i] = vlib.run_driver(exe, script(parts[i]), env=env, timeout=900)[0] if parts[i] else []
            except Exception as e:
                out[i] = e
        ths = [threading.Thread(target=run, args=(i,)) for i in range(NPAR)]
        for t in ths:
            t.start()
        for t in ths:
            t.join()
        for part, recs in zip(parts, out):
            if isinstance(recs, Exception) or recs is None:
                raise recs if isinstance(recs, vlib.MachineryError) else vlib.MachineryError("X27 replay: %r" % (recs,))
            for mm in vlib.compare(part, recs, match):
                failed[common.callkey(part[mm["b"]])] = part[mm["b"]]
                nmm += 1
        total += len(behs)
        for beh in behs:
            if nontrivial(beh):
                nt.add(label + common.callkey(beh))
        if len(samples) < 2:
            samples.append({"impl": "x27:" + label, "behaviour": vlib.sample_repr(behs[len(behs) // 2])})
    os.unlink(path)
    rootb = []
    for key, beh in sorted(failed.items(), key=lambda kv: len(kv[1])):
        calls = json.loads(key)
        if any(json.dumps(calls[:k]) in failed for k in range(1, len(calls))):
            continue
        rootb.append(beh)
    roots = 0
    persig = {}
    if rootb:      # once more, fully logged, before reporting
        e2 = dict(env)
        e2.pop("ASAN_OPTIONS", None)
        recs, _ = vlib.run_driver(exe, script(rootb[:400], quiet_prefix=False), env=e2)
        for mm in vlib.compare(rootb[:400], recs, match):
            roots += 1
            sig = signature(mm, label)
            persig[sig] = persig.get(sig, 0) + 1
            if persig[sig] <= 2:
                ck.violation(sig, {"binding": "A(replay)", "part": "x27", "behaviour": rootb[mm["b"]], "step": mm["i"],
                                   "why": mm["why"], "record": mm["rec"]})
    if not (1 <= total <= gen.generated):
        raise vlib.MachineryError("X27 behaviour export incomplete: %d lines for %d transitions" % (total, gen.generated))
    ck.cov["evaluations"] += total
    ck.notes.setdefault("x27_replay", []).append({"cfg": gencfg, "behaviours": total, "mismatches": nmm,
                                                  "mismatches_without_failed_prefix": roots, "signatures": persig,
                                                  "tlc_generated": gen.generated, "tlc_wall_s": round(gen.wall, 1)})
    return total


def run_part(ck, tier):
    cfg = CFG[tier]
    exe = build()
    tdir = tmpdir()
    env = dict(FAST_ENV, VERIF_X27_TMP=tdir)
    nt = set()
    samples = []
    exports = {}
    gths = [threading.Thread(target=export, args=(g, exports)) for g in cfg["gen"]]
    for t in gths:
        t.start()
    replayed = 0
    try:
        for g, t in zip(cfg["gen"], gths):
            t.join()
            replayed += binding_a(ck, exe, g, nt, samples, *exports[g], env=env)
    finally:
        for t in gths:
            t.join()
    shutil.rmtree(tdir, ignore_errors=True)      # (a faulting start-up leaves its directory behind)
    ck.cov["distinct_nontrivial"] = ck.cov.get("distinct_nontrivial", 0) + len(nt)
    ck.cov["samples"] = list(ck.cov.get("samples") or [])[:5] + samples[:1]
    ck.cov["rule"] += ("  X27 (CfgInit): one behaviour per call transition of the TLC graph of CfgInit: mpt_init with curated "
                       "argument vectors x environments x $MPT_FLAGS x configuration file in $MPT_PREFIX_ETC or not x documents "
                       "of up to 2 items written by the ConfText generator (file of -f), before / after single assignments, "
                       "followed by mpt_client_config or a second start-up; each in a fresh process.  Non-trivial = values "
                       "arrive through at least two doors in one start-up, or the start-up follows / precedes another call.")
    ck.assumptions += ["X27: getopt is the C library's (POSIX '+' mode); drv/cfginit.c clears the environment, sets it to the "
                       "given variables plus MPT_PREFIX_ETC [MPT_FLAGS] and sets optind = 1 before every mpt_init"]
    ck.notes["x27"] = {"behaviours_replayed": replayed}


def replay(det, path="-"):
    """Re-run the behaviour of a violation detail (python3 bin/check.py C10 --replay <file>)"""
    beh = det["behaviour"]
    exe = build()
    recs, err = vlib.run_driver(exe, script([beh], quiet_prefix=False), env={"VERIF_X27_TMP": tmpdir()})
    for r in recs:
        print(json.dumps(r))
    bad = vlib.compare([beh], recs, match)
    for mm in bad:
        print("MISMATCH step %d: %s" % (mm["i"], mm["why"]))
    return 1 if bad else 0


if __name__ == "__main__":      # standalone runner of the part (development)
    import sys
    import time
    t0 = time.time()
    tier = sys.argv[1] if len(sys.argv) > 1 else "quick"
    ck = vlib.Check("C10", tier)
    run_part(ck, tier)
    print(json.dumps(ck.notes, indent=1)[:3000])
    for v in ck.violations[:12]:
        print('VIOLATION {"signature": "%s"}' % v[0])
    print("violations:", len(ck.violations), "wall %.1f s" % (time.time() - t0))
