"""X20 (extension of C20) -- layout objects created from and bound through descriptions (spec/LayoutTree.tla).

run_part(ck, tier) adds to the given vlib.Check of C20:
  * TLC exhaustive check of LayoutTree (Tier 2 heap built the way add_items/bind work == Tier 1 denotation),
  * binding A: every exported (description text, expected objects) case loaded through the real mpt::layout
    (and the C path mpt_parse_node + mpt_object_set_nodes), ALL properties of ALL items and bound objects compared,
  * binding B: seeded longer descriptions (parameters only) rendered and judged by TLC (Trace_LayoutTree).
"""
import concurrent.futures
import json
import os
import vlib

LIBS = ("mpt++", "mptplot", "mptcore")      # link order of an application using libmpt++: its metatype creators override the C ones
CFG = {
    "quick":    dict(mc=["MC_LayoutTree.cfg"], gen="Gen_LayoutTree.cfg", ndocs=32, nitems=14),
    "thorough": dict(mc=["MC_LayoutTree_t.cfg", "MC_LayoutTree_t2.cfg"], gen="Gen_LayoutTree_t.cfg", ndocs=300, nitems=30),
}
DRV_ENV = {"ASAN_OPTIONS": vlib.ASAN_ENV + ":symbolize=0"}
STRPROPS = ("title", "alias", "value", "font", "axes", "worlds")


def enabled():
    """The part needs its fix commits (docs/X20_tree.md) in the tree under test: it is switched on by the marker file
    checks/x20_tree.accepted (created when those commits are integrated) or by VERIF_X20=1, off by VERIF_X20=0."""
    env = os.environ.get("VERIF_X20")
    if env is not None:
        return env not in ("0", "")
    return os.path.exists(os.path.join(vlib.ROOT, "checks", "x20_tree.accepted"))


def build():
    return vlib.build_driver("layouttree", ["layouttree.cpp"], libs=LIBS, cxx=True)


def build_c():
    """same driver with libmptcore first: the C metatype creators (mpt_meta_new, mpt_meta_buffer) hold the parsed values"""
    return vlib.build_driver("layouttree_c", ["layouttree.cpp"], libs=tuple(reversed(LIBS)), cxx=True)


# --------------------------------------------------------------------------
# presentation helpers (no judgement)
def unrle(r, limit=40):
    out = []
    for i in range(0, len(r or []) - 1, 2):
        ch = chr(r[i]) if 32 <= r[i] < 127 else "\\x%02x" % r[i]
        out.append(ch * r[i + 1] if r[i + 1] <= limit else "<%s*%d>" % (ch, r[i + 1]))
    return "".join(out)


def rlen(r):
    return sum((r or [])[1::2])


def rle(bs):
    out = []
    for b in bs:
        if out and out[-2] == b:
            out[-1] += 1
        else:
            out += [b, 1]
    return out


def short(v):
    s = json.dumps(v)
    return s if len(s) < 120 else s[:117] + "..."


# --------------------------------------------------------------------------
# verdict projection: equality of what TLC expects with what was observed
def diff_props(e, o, where):
    o = o or {}
    for name in e:
        if o.get(name) != e[name]:
            return "%s.p.%s: expected %s, observed %s" % (where, name, short(e[name]), short(o.get(name))), ("p", name)
    for name in o:
        if name not in e:
            return "%s.p.%s: unexpected property" % (where, name), ("p", name)
    return None


def diff_items(exp, obs, where, depth=0):
    """first difference of two item lists: (text, (what, detail, kind))"""
    obs = obs or []
    for i in range(max(len(exp), len(obs))):
        w = "%s[%d]" % (where, i)
        if i >= len(obs):
            return "%s: missing item %s '%s'" % (w, exp[i].get("kind"), unrle(exp[i]["name"])), ("missing", "", exp[i].get("kind"))
        if i >= len(exp):
            return "%s: extra item %s '%s'" % (w, obs[i].get("kind"), unrle(obs[i].get("name"))), ("extra", "", obs[i].get("kind"))
        e, o = exp[i], obs[i]
        kind = e.get("kind")
        if o.get("name") != e["name"]:
            return "%s: name expected '%s', observed '%s'" % (w, unrle(e["name"]), unrle(o.get("name"))), ("name", "", kind)
        if o.get("kind") != kind:
            return "%s: kind expected %s, observed %s" % (w, kind, o.get("kind")), ("kind", "", kind)
        if "p" in e:
            d = diff_props(e["p"], o.get("p"), w)
            if d:
                return d[0], (d[1][0], d[1][1], kind)
        if "nset" in e and o.get("nset") != e["nset"]:
            return "%s: nset expected %s, observed %s" % (w, e["nset"], o.get("nset")), ("nset", "", kind)
        if "cret" in o and o["cret"] != "ok":
            return "%s: copy refused" % w, ("cret", "", kind)
        for sub in ("items", "axes", "worlds"):
            if sub in e:
                d = diff_items(e[sub], o.get(sub), w + "." + sub, depth + 1)
                if d:
                    what = d[1][0] if sub == "items" else sub + "-" + d[1][0]
                    return d[0], (what, d[1][1], d[1][2] if sub == "items" else kind)
    return None


def match(exp, obs, step=None, rec=None, prev=None):
    if exp.get("ret") not in (None, "any") and obs.get("ret") != exp["ret"]:
        return "ret: expected %s, observed %s" % (exp["ret"], obs.get("ret"))
    if isinstance(exp.get("lay"), dict):
        for k, v in exp["lay"].items():
            if (obs.get("lay") or {}).get(k) != v:
                return "lay.%s: expected '%s', observed '%s'" % (k, unrle(v), unrle((obs.get("lay") or {}).get(k)))
    if "items" in exp:
        d = diff_items(exp["items"], obs.get("items"), "items")
        if d:
            return d[0]
    if "graphs" in exp and obs.get("graphs") != exp["graphs"]:
        return "graphs: expected %s, observed %s" % ([unrle(g) for g in exp["graphs"]], [unrle(g) for g in obs.get("graphs") or []])
    if "rep" in exp and exp["rep"] not in ("any", -1) and obs.get("rep") != exp["rep"]:
        return "rep: expected %s reports, observed %s" % (exp["rep"], obs.get("rep"))
    return None


def long_value(beh):
    """the document holds a value of 250 bytes or more (representation limit of the small text metatype)"""
    return any(n >= 250 for st in beh for n in ((st.get("arg") or {}).get("text") or [])[1::2])


def signature(mm, beh):
    """action, what differed first (property name / structure part), kind of the item, discriminating input class"""
    st = mm["step"]
    a = st["a"]
    if a in ("gset", "gbind", "reload", "reset"):        # a step of a history: which kinds of steps came before
        prior = [x["a"] for x in beh[:mm["i"]]]
        a += ":after-" + "-".join(sorted(set(prior))) + (":refused" if (st.get("exp") or {}).get("ret") == "refused" else "")
    if a == "copy":
        a += ":" + str((st.get("arg") or {}).get("mode"))
    why = mm["why"]
    if why in ("Crash", "Hang"):
        return "x20:%s:%s" % (a, why.lower())
    if mm["rec"] is None:
        return "x20:%s:no-record" % a
    exp, obs = st.get("exp") or {}, (mm["rec"] or {}).get("obs") or {}
    parts = ["x20", a]
    if why.startswith("ret:"):
        parts.append("ret")
    elif why.startswith("lay."):
        parts.append(why.split(":")[0])
    elif why.startswith("graphs"):
        parts.append("graphs")
    elif why.startswith("rep"):
        parts.append("rep")
    else:
        d = diff_items(exp.get("items") or [], obs.get("items"), "items")
        if d:
            what, detail, kind = d[1]
            parts += [str(kind), what] + ([detail] if detail else [])
        else:
            parts.append("other")
    if long_value(beh):
        parts.append("value_len>=250")
    return ":".join(parts)


def all_items(items):
    for it in items or []:
        yield it
        for m in all_items(it.get("items")):
            yield m


def nontrivial(beh):
    """the description denotes at least one object with a non-default property or a graph that binds something"""
    exp = beh[0].get("exp") or {}
    for it in all_items(exp.get("items")):
        if it.get("axes") or it.get("worlds"):
            return True
    return (exp.get("rep") or 0) not in (0, "any") or len(list(all_items(exp.get("items")))) > 1


# --------------------------------------------------------------------------
# binding B: seeded descriptions (parameters only; TLC renders them and computes what they denote)
KWORDS = ["axis", "axis", "xaxis", "yaxis", "zaxis", "world", "world", "graph", "graph", "text", "line", "legend", "Axis", "worlds"]
INAMES = ["a", "b", "w", "a1", "ax", "wld", "g", "t", "x_1", "A", "long name", "q-r"]
# option spellings per kind (input only: what they resolve to is decided by the specification)
ONAMES = {
    "axis": ["title", "begin", "end", "tlen", "exponent", "exp", "intervals", "intv", "int", "subtick", "sub", "decimals", "dec",
             "lpos", "labelpos", "tpos", "titlepos", "TITLE", "Begin", "Exp", "color", "bogus", "tit"],
    "world": ["color", "colour", "cycles", "cyc", "width", "style", "symbol", "sym", "size", "alias", "COLOR", "Cyc", "ALIAS", "bogus", "title"],
    "graph": ["axes", "worlds", "foreground", "fg", "background", "bg", "pos", "position", "scale", "grid", "type", "gridtype", "align",
              "alignment", "clip", "clipping", "lpos", "FG", "Axes", "POS", "bogus", "title", "shape"],
    "text": ["color", "pos", "size", "align", "angle", "value", "font", "x", "y", "COLOR", "Pos", "X", "bogus", "title"],
    "line": ["color", "x1", "x2", "y1", "y2", "width", "style", "symbol", "size", "COLOR", "X1", "bogus"],
    "layout": ["name", "alias", "font", "NAME", "Font", "bogus", "title"],
}
WORDS = ["abc", "red", "RED", "Green", "blue", "cyan", "magenta", "yellow", "white", "black", "reddish", "log", "LOG", "lag", "#ff0000",
         "#FF000080", "#80", "#8040", "#8", "#gg0000", "#0a1B2c", "b", "e", "z", "bez", "ZE", "x", "y", "xy", "zx", "xyz", "A", "r", "~",
         "5", "hi there", "Hall\xf6_xy", "a'b", " x ", "12abc", "0.5 0.25", "a b", "b a", "a", "w", "a  w", "b\ta"]
HINT = {"title": "str", "alias": "str", "value": "str", "font": "str", "name": "str", "axes": "bind", "worlds": "bind",
        "color": "col", "colour": "col", "foreground": "col", "fg": "col", "background": "col", "bg": "col",
        "pos": "pt", "position": "pt", "scale": "pt",
        "lpos": "chr", "tpos": "chr", "labelpos": "chr", "titlepos": "chr", "grid": "chr", "type": "chr", "gridtype": "chr"}
COLWORDS = [w for w in WORDS if w[:1] == "#" or w.lower() in ("red", "green", "blue", "cyan", "magenta", "yellow", "white", "black", "reddish")]


def codes(s):
    return [ord(c) & 0xff for c in s]


def dbl(v2):
    return [v2 // 65536, v2 % 65536]


def rand_value(rng, name, pool=()):
    blank = {"n": [], "c": [], "sty": ""}
    h = HINT.get(name.lower())
    if h == "bind":
        k = rng.randrange(1, 4)
        pool = list(pool) * 3 + ["a", "b", "w", "zz"]
        return dict(blank, f="txt", c=codes(rng.choice([" ", "  ", "\t"]).join(rng.choice(pool) for _ in range(k))))
    if h == "str" or rng.random() < 0.1:
        r = rng.random()
        if r < 0.6:
            return dict(blank, f="txt", c=codes(rng.choice(WORDS)))
        runs, prev = [], None
        for _ in range(rng.randrange(1, 4)):
            ch = rng.choice([c for c in (97, 98, 120, 65, 126, 48) if c != prev])
            prev = ch
            runs += [ch, rng.choice([1, 2, 15, 200, 249, 250, 251, 255, 256, 1000, 70000])]
        return dict(blank, f="rle", c=runs)
    r = rng.random()
    if h == "col" and r < 0.8:
        return dict(blank, f="txt", c=codes(rng.choice(COLWORDS)))
    if h == "chr" and r < 0.8:
        return dict(blank, f="txt", c=codes(rng.choice(["A", "r", "~", "5", "b", "x", "Zz", "left"])))
    if h == "pt" and r < 0.8:
        pick = lambda: rng.choice([0, 1, 2, 2, 3, -1, 4])
        return dict(blank, f="num", n=dbl(pick()), sty="dec") if rng.random() < 0.4 else dict(blank, f="num2", n=dbl(pick()) + dbl(pick()))
    if h is None and r < 0.45:        # a small number suits most numeric properties
        return dict(blank, f="num", n=dbl(2 * rng.choice([0, 1, 2, 3, 4, 5, 7, 8, 10, 11, 20])), sty=rng.choice(["dec", "dec", "sp", "plus", "hex", "flt"]))
    if r < 0.5:
        base = rng.choice([0, 1, 2, 5, 8, 10, 20, 21, 127, 255, 256, 300, 32767, 32768, 65535, 65536, 100000, 2 ** 31 - 1, 2 ** 32 - 1, 2 ** 32])
        v2 = 2 * (base + rng.choice([-1, 0, 0, 1]))
        if rng.random() < 0.2:
            v2 = -v2
        if rng.random() < 0.2:
            v2 = rng.choice([0, 1, 2, 3, -1, 4, 14])
        sty = rng.choice(["dec", "dec", "dec", "sp", "plus", "hex", "flt"])
        if v2 < 0 and sty in ("plus", "hex"):
            sty = "dec"
        return dict(blank, f="num", n=dbl(v2), sty=sty)
    if r < 0.6:
        pick = lambda: rng.choice([0, 1, 2, 3, -1, 4, 6, 400])
        return dict(blank, f="num2", n=dbl(pick()) + dbl(pick()))
    return dict(blank, f="txt", c=codes(rng.choice(WORDS)))


def rand_deco(rng):
    return {"g": rng.choice(["none", "sp", "tab", "nl", "blank", "crlf", "com", "spcom"]),
            "g2": rng.choice(["none", "none", "nl", "blank", "spcom"]),
            "b1": rng.choice(["none", "sp", "tab", "sp2", "mix"]), "b2": rng.choice(["none", "sp", "tab", "sp2", "mix"]),
            "b3": rng.choice(["none", "sp", "mix"]), "q": rng.choice([0, 0, 0, 34, 39]), "hs": rng.choice(["tight", "spaced", "wide"])}


def gen_doc(rng, nitems, used, graphs=4):
    """one description: random item sequence (input shaping only)"""
    kwords = ["axis"] * 4 + ["xaxis", "yaxis", "zaxis"] + ["world"] * 4 + ["graph"] * graphs + ["text"] * 2 + ["line"] * 2 + ["legend", "Axis", "worlds"]
    member_words = ["axis"] * 4 + ["xaxis"] + ["world"] * 4 + ["text", "line", "legend", "graph"]
    inames = ["a", "b", "w", "a1", "ax", "wld"] * 3 + ["x_1", "A", "long name", "q-r", "g", "t"]
    items, frames, tops = [], ["layout"], []
    for _ in range(rng.randrange(4, nitems + 1)):
        r = rng.random()
        cur = frames[-1]
        group = cur in ("layout", "graph")
        p_opt = 0.25 if cur == "layout" else (0.45 if cur == "graph" else 0.7)
        if r < p_opt:
            nm = rng.choice(ONAMES.get(cur, ONAMES["axis"]))
            if cur == "graph" and rng.random() < 0.5:
                nm = rng.choice(["axes", "worlds"])
            if not group and rng.random() < 0.08:
                items.append({"k": "reset", "name": codes(nm), "v": {"f": "none", "n": [], "c": [], "sty": ""}, "d": rand_deco(rng)})
            else:
                pool = used.get("world" if nm == "worlds" else "axis", [])
                items.append({"k": "opt", "name": codes(nm), "v": rand_value(rng, nm, pool), "d": rand_deco(rng)})
        elif group and (r < 0.9 or len(frames) == 1):
            kw = rng.choice(kwords if cur == "layout" else member_words)
            nm = rng.choice(inames)
            par = []
            fam = "axis" if kw.endswith("axis") else kw
            if used.get(fam) and rng.random() < 0.4:
                par = [codes(rng.choice(used[fam])) for _ in range(rng.choice([1, 1, 1, 2]))]
            items.append({"k": "open", "h": {"kw": codes(kw), "name": codes(nm), "par": par}, "d": rand_deco(rng)})
            used.setdefault(fam, []).append(nm)
            if cur == "layout":
                tops.append(fam)
            frames.append(fam if fam in ONAMES else "other")
        elif len(frames) > 1:
            items.append({"k": "close", "d": rand_deco(rng)})
            frames.pop()
    return items, tops


def gen_ops(rng, tops, used, nmax):
    """operations on the loaded layout: graph properties from text, binds (indices of top-level sections written as graphs,
    sometimes any index: whether it is a graph of the loaded layout is decided by the specification)"""
    gidx = [i for i, f in enumerate(tops) if f == "graph"] or [0]
    ops = []
    for _ in range(rng.randrange(0, nmax + 1)):
        g = rng.choice(gidx) if rng.random() < 0.6 else rng.randrange(0, max(2, len(tops)))
        if rng.random() < 0.4:
            ops.append({"k": "gbind", "g": g})
        else:
            nm = rng.choice(["axes", "axes", "worlds", "worlds"] + ONAMES["graph"])
            pool = used.get("world" if nm == "worlds" else "axis", [])
            v = rand_value(rng, nm, pool)
            if v["f"] == "rle" and sum(v["c"][1::2]) > 2000:
                v = {"f": "txt", "n": [], "c": codes("abc"), "sty": ""}
            ops.append({"k": "gset", "g": g, "name": codes(nm), "v": v})
    return ops


def gen_docs(ck, n, nitems):
    """Histories of one layout object: one description with a probe, or several descriptions loaded one after the other
    (with or without reset) and operations on the loaded layout in between.  Whether an item / operation can be
    written / is described at all is decided by the guards of the specification's actions (false guard = skipped)."""
    rng = ck.rng
    hists = []
    for h in range(n):
        used = {}
        if h % 2 == 0:
            items, tops = gen_doc(rng, nitems, used)
            hists.append({"a": "hist", "arg": {"docs": [{"items": items, "ops": [], "reset": False}],
                                               "probe": rng.choice(["none", "dump", "clone", "null", "empty", "props", "cload", "inst"])}})
            continue
        docs = []
        for _ in range(rng.choice([1, 2, 2, 3])):
            items, tops = gen_doc(rng, max(6, nitems * 2 // 3), used, graphs=10)      # same name pool: later descriptions reuse names
            docs.append({"items": items, "ops": gen_ops(rng, tops, used, 7), "reset": rng.random() < 0.3})
        hists.append({"a": "hist", "arg": {"docs": docs, "probe": "none"}})
    return hists


def render_docs(docs, tag):
    """pass 1: TLC renders the seeded descriptions and computes what they denote"""
    tdir = vlib.ensure(os.path.join(vlib.WORK, "traces"))
    path = os.path.join(tdir, "%s-%d.ndjson" % (tag, os.getpid()))
    with open(path, "w") as f:
        for e in docs:
            f.write(json.dumps(e, separators=(",", ":")) + "\n")
    res = vlib.tlc("Trace_LayoutTree", "Trace_LayoutTree.cfg", workers=1, env={"TRACE": path}, xss="512m", tag=tag, timeout=900)
    if res.error or res.violation:
        raise vlib.MachineryError("rendering of seeded descriptions failed: %s %s\n%s" % (res.error, res.violation, res.out[-2000:]))
    os.unlink(path)
    return vlib.parse_behaviours(res.out), res


def report(ck, behs, mms, binding, per_sig, pfx=""):
    for mm in mms:
        beh = behs[mm["b"]]
        sig = pfx + signature(mm, beh)
        per_sig[sig] = per_sig.get(sig, 0) + 1
        if per_sig[sig] > 3:
            continue
        ck.violation(sig, {"binding": binding, "x20": True, "corder": bool(pfx), "behaviour": beh, "step": mm["i"], "why": mm["why"],
                           "record": mm["rec"], "text": unrle(beh[0]["arg"].get("text"), 80)})


def nt_recs(rs):
    """(streamed replay) the loaded layout showed more than one object, a binding or a report"""
    o = (rs[0].get("obs") or {}) if rs else {}
    its = list(all_items(o.get("items")))
    return len(its) > 1 or any(it.get("axes") or it.get("worlds") for it in its) or (o.get("rep") or 0) > 0


PFX_C = "corder:"     # second driver: libmptcore first in the link order (C metatype creators hold the parsed values)


def run_part(ck, tier):
    import time
    t0 = time.time()
    cfg = CFG[tier]
    exe, exe_c = build(), build_c()
    docs = gen_docs(ck, cfg["ndocs"], cfg["nitems"])
    per_sig = {}
    dump = os.path.join(vlib.ensure(os.path.join(vlib.WORK, "C20")), "x20-gen-%d.out" % os.getpid())

    def job_model():
        if os.environ.get("X20_DEV_SKIP_MC"):        # development aid only (code mutations do not touch the model)
            return []
        with concurrent.futures.ThreadPoolExecutor(max_workers=2) as ex2:
            futs = [ex2.submit(vlib.tlc, "MC_LayoutTree", c, workers=max(2, vlib.NCPU // 2), timeout=1500, xss="512m",
                               tag="MC_LayoutTree_%d" % i) for i, c in enumerate(cfg["mc"])]
            return [(c, f.result()) for c, f in zip(cfg["mc"], futs)]

    def job_gen():
        if tier == "quick":
            # (to a file: vlib.tlc's result patterns are slow on 20 MB of digit lists; -Xss: word splitting recurses per character)
            g = vlib.tlc_to_file("Gen_LayoutTree", cfg["gen"], dump, workers=max(2, vlib.NCPU // 2), timeout=1200,
                                 extra_env={"JAVA_TOOL_OPTIONS": "-Xss512m"})
            if g.error:
                raise vlib.MachineryError("X20 case export failed: %s" % g.error)
            with open(dump, errors="replace") as fh:
                behs = vlib.parse_behaviours(fh.read())
            os.unlink(dump)
            script = vlib.to_script(behs)
            with concurrent.futures.ThreadPoolExecutor(max_workers=2) as ex2:       # the two link orders side by side
                futs = [(pfx, ex2.submit(vlib.run_driver, drv, script, env=DRV_ENV, timeout=1200)) for drv, pfx in ((exe, ""), (exe_c, PFX_C))]
                out = [(pfx, vlib.compare(behs, f.result()[0], match)) for pfx, f in futs]
            return behs, out, g, len(behs), len(set(json.dumps(b[0]["arg"].get("text")) + b[-1]["a"] for b in behs if nontrivial(b)))
        g = vlib.tlc_to_file("Gen_LayoutTree", cfg["gen"], dump, workers=6, timeout=1500, extra_env={"JAVA_TOOL_OPTIONS": "-Xss512m"})
        if g.error:
            raise vlib.MachineryError("X20 case export failed: %s" % g.error)
        return None, None, g, 0, 0          # replayed from the dump below (process pool: from the main thread)

    def job_seeded():
        behs2, rres = render_docs(docs, "Trace_LayoutTree")
        script = vlib.to_script(behs2)
        recs2, _ = vlib.run_driver(exe, script, env=DRV_ENV, timeout=600)
        recs2c, _ = vlib.run_driver(exe_c, script, env=DRV_ENV, timeout=600)
        return behs2, recs2, recs2c, rres

    with concurrent.futures.ThreadPoolExecutor(max_workers=3) as ex:
        fm, fg, fs = ex.submit(job_model), ex.submit(job_gen), ex.submit(job_seeded)
        behs, gout, gen, nbeh, nnt = fg.result()
        behs2, recs2, recs2c, rres = fs.result()
        mc = fm.result()
    if tier != "quick":
        gout, nt, behs = [], set(), []
        for drv, pfx in ((exe, ""), (exe_c, PFX_C)):
            tot = vlib.replay_file(dump, drv, match=match, nontrivial=nt_recs, chunk=8000, procs=max(2, vlib.NCPU // 2))
            mms, bl = [], []
            for d in tot["details"]:
                bl.append(d["behaviour"])
                mms.append({"b": len(bl) - 1, "i": d["step"], "step": d["st"], "rec": d["record"], "why": d["why"]})
            gout.append((pfx, mms, bl, tot["mismatches"]))
            nbeh, nt = tot["n"], nt | tot["nontrivial"]
        nnt = len(nt)
        os.unlink(dump)
    for c, res in mc:
        ck.add_tlc(res, "x20 exhaustive " + c)
    ck.cov["transitions"] += gen.generated + rres.generated
    nmm = 0
    for ent in gout:
        if tier == "quick":
            pfx, mms = ent
            report(ck, behs, mms, "X20 A(replay)", per_sig, pfx)
            nmm += len(mms)
        else:
            pfx, mms, bl, cnt = ent
            report(ck, bl, mms, "X20 A(replay)", per_sig, pfx)
            nmm += cnt
    if len(behs2) != len(docs):
        raise vlib.MachineryError("X20: rendered %d of %d seeded descriptions" % (len(behs2), len(docs)))
    mms2 = vlib.compare(behs2, recs2, match)
    report(ck, behs2, mms2, "X20 seeded description", per_sig)
    mms2c = vlib.compare(behs2, recs2c, match)
    report(ck, behs2, mms2c, "X20 seeded description", per_sig, PFX_C)

    # pass 2: TLC itself accepts or rejects the recorded loads of the seeded descriptions
    bad = set(mm["b"] for mm in mms2)
    by = vlib.group_records(recs2)
    events = []
    for k, doc in enumerate(docs):
        rs = by.get(k) or []
        if k in bad or len(rs) < len(behs2[k]) or any(r.get("a") in ("Crash", "Hang", "Garbled") for r in rs):
            continue
        events.append({"a": "hist", "arg": dict(doc["arg"], texts=[(st.get("arg") or {}).get("text") or [] for st in behs2[k]]),
                       "obs": [r.get("obs") or {} for r in rs[:len(behs2[k])]]})
    validated = 0
    if events:
        ok, matched, tres = vlib.validate_trace("Trace_LayoutTree", events, cfg="Trace_LayoutTree.cfg", tag="Trace_LayoutTree_v", timeout=900)
        ck.cov["transitions"] += tres.generated
        if not ok:
            ok2, matched2, _ = vlib.validate_trace("Trace_LayoutTree", events, cfg="Trace_LayoutTree.cfg", tag="Trace_LayoutTree_v", timeout=900)
            if not ok2:
                matched = min(matched, matched2)
                ev = events[matched] if matched < len(events) else None
                ck.violation("x20:trace:rejected", {"binding": "X20 B(trace validation)", "x20": True, "matched_prefix": matched,
                                                    "rejected_event": ev})
            else:
                matched = matched2
        validated = matched
    nt2 = set(json.dumps(b[0]["arg"].get("text")) for b in behs2 if nontrivial(b))
    ck.cov["evaluations"] += nbeh + len(behs2)
    ck.cov["distinct_nontrivial"] += nnt + len(nt2)
    ck.cov["traces_validated_against_impl"] += validated
    ck.notes["x20_replayed_descriptions"] = nbeh
    ck.notes["x20_seeded_descriptions"] = len(behs2)
    ck.notes["x20_seeded_objects"] = sum(len(list(all_items((b[0].get("exp") or {}).get("items")))) for b in behs2)
    ck.notes["x20_seeded_validated_by_tlc"] = validated
    ck.notes["x20_replay_mismatches"] = nmm + len(mms2) + len(mms2c)
    ck.notes["x20_mismatch_signatures"] = per_sig
    ck.notes["x20_rule"] = ("X20 A: one case per transition of the TLC state graph of LayoutTree under the skeleton view; each is a complete "
                            "description text loaded through mpt::layout (open/load) -- or mpt_parse_node + mpt_object_set_nodes for "
                            "'cload' -- optionally followed by a copy of every item / a second read, with ALL properties of ALL items, "
                            "members and bound axes/worlds compared, in both link orders of the metatype creators; X20 B: seeded longer "
                            "descriptions rendered and judged by TLC.  Non-trivial = more than one object, a binding, or a report.")
    if tier == "quick" and behs:
        mid = behs[len(behs) // 2]
        ck.cov["samples"] = list(ck.cov.get("samples") or []) + [
            {"x20_text": unrle(mid[0]["arg"].get("text"), 60), "steps": [s["a"] for s in mid],
             "expected_items": [(it.get("kind"), unrle(it.get("name"))) for it in all_items((mid[0].get("exp") or {}).get("items"))]}]
    elif behs2:
        ck.cov["samples"] = list(ck.cov.get("samples") or []) + [
            {"x20_text": unrle(behs2[0][0]["arg"].get("text"), 60), "steps": [s["a"] for s in behs2[0]]}]
    ck.notes["x20_wall_s"] = round(time.time() - t0, 1)
    ck.assumptions.append("X20: drv/layouttree.cpp projects the loaded layout without judgement; the description language is the one "
                          "LayoutTree's actions write (docs/X20_tree.md)")


def replay(det, path="-"):
    """replay of a violation file written by this part (called from checks/c20.py:replay)"""
    beh = det.get("behaviour")
    if not beh:
        print(json.dumps(det, indent=1)[:4000])
        return 2
    if det.get("rejected_event"):
        print(json.dumps(det, indent=1)[:4000])
        return 2
    exe = build_c() if det.get("corder") else build()
    recs, _ = vlib.run_driver(exe, vlib.to_script([beh]))
    mms = vlib.compare([beh], recs, match)
    for mm in mms:
        print("VIOLATION property=C20 replay=%s  (%s%s: %s)" % (path, PFX_C if det.get("corder") else "", signature(mm, beh), mm["why"]))
    return 1 if mms else 0
