"""C01 -- message framing round trip for every codec (spec/Cobs.tla, spec/CobsEnc.tla)."""
import importlib.util
import json
import os
import sys

import vlib

PID = "C01"
MANIFEST = dict(
        spec="Cobs.tla (RefDec/RefEnc/WellFormed, 5 framings), CobsEnc.tla (+MC_CobsEnc, Gen_CobsEnc, Trace_CobsEnc)",
        text="TLC checks exhaustively (every message up to 4/5 bytes over a boundary alphabet, every split into pushes, every "
             "capacity/grow schedule, block limits 3 and 5, COBS, COBS/R, ZPE, ZPE+R, command text) that the resumable encoder "
             "design (done/scratch, hand-back at a full block, tail inline, zero pairs) only ever finishes frames that the "
             "independent reference decoder RefDec maps back to the message, with a single delimiter.  Every transition of that "
             "model is replayed into the unmodified encoder sources compiled at block limits 3 and 5 and completed to a frame; "
             "where code and design differ TLC re-judges the recorded calls against the property alone.  Run-structured messages "
             "around the 254/255, 222/223 and 30/31 boundaries are pushed in random pieces through mpt_array_push, mpt_queue_push "
             "and the bare encoders of libmptcore, decoded by the library decoders, and TLC validates every recorded call "
             "(accepted bytes, frame well-formedness, RefDec(frame)=message, library decoder agrees) at the production block sizes; "
             "frames of the Python client (mpt.py encode_cobs/encode_command) go through the same TLC operators.",
        note="Trusted: TLC, Cobs.tla as the definition of the framings, drv/cobs.c (moves bytes, follows the caller protocol). "
             "Scaled ZPE uses the repository's loops with the pair macros re-stated for the scaled limit; the shipped ZPE codecs "
             "are covered at production size only.  encode_string separators longer than one byte are not modelled.",
        technique="TLA+ spec + TLC exhaustive check; TLC-generated behaviours replayed into the C code; TLC trace validation of recorded runs",
        design="5/C01")

CFG = {
    "quick":    dict(mc="MC_CobsEnc.cfg",   gen="Gen_CobsEnc.cfg",   nmsg=260,  full=False, nbulk=150),
    "thorough": dict(mc="MC_CobsEnc_t.cfg", gen="Gen_CobsEnc_t.cfg", nmsg=2500, full=True, nbulk=1500),
}
KINDS = ["cobs", "cobs_r", "zpe", "zpe_r", "cmd"]


# --------------------------------------------------------------------------
def parse_gen(out):
    """Gen_CobsEnc lines: {"h": [steps], "fin": expected completion}."""
    behs = []
    for d in vlib.parse_behaviours(out):
        beh = list(d["h"])
        beh.append({"a": "fin", "arg": {"x": 0}, "exp": d["fin"]})
        behs.append(beh)
    return behs


def norm(rec):
    """Move the decoder's result list into flat keys (no judgement: copying)."""
    o = rec.get("obs")
    if o and isinstance(o.get("dec"), dict):
        res = o["dec"].get("res", [])
        o["decs"] = [r.get("m", []) if r.get("r") == "msg" else [-1] for r in res]   # [-1]: decoder error
        o["dec_guards"] = o["dec"].get("guards")
        o["dec_margin"] = o["dec"].get("wr_margin")
        o["dec_last"] = o["dec"].get("last")
        del o["dec"]
    return rec


def match(exp, obs, step, rec, prev):
    """Equality of the design's prediction with what the code did."""
    if obs.get("guards") == 0:
        return "guard bytes around a buffer were overwritten"
    for k, v in exp.items():
        if v == "any":
            continue
        if obs.get(k) != v:
            return "%s: design %s, code %s" % (k, json.dumps(v)[:200], json.dumps(obs.get(k))[:200])
    return None


def kind_of(beh):
    a = beh[0].get("arg") or {}
    return "%s/m%s/%s" % (a.get("kind"), a.get("m"), a.get("path", "direct"))


def signature(beh, i, why, rec=None):
    """action + framing + discriminating condition of the failing step."""
    st = beh[i] if i < len(beh) else {"a": "?"}
    a0 = dict(beh[0].get("arg") or {})
    if beh[0]["a"] == "qinit":
        a0["path"] = "ring"
    cls = "crash" if why == "Crash" else "hang" if why == "Hang" else "rejected"
    cond = ""
    if rec and rec.get("obs"):
        o = rec["obs"]
        if o.get("guards") == 0:
            cond = ":guards"
        elif o.get("ret") not in (None, "ok"):
            cond = ":" + str(o.get("ret"))
        elif "decs" in o and o.get("decs") != [a0.get("msg")] and a0.get("kind") != "cmd":
            cond = ":decs"
    return "%s:%s:%s:%s%s" % (st["a"], a0.get("kind"), a0.get("path", "direct"), cls, cond)


def events_of(behs, recs, only=None):
    """script steps + driver records -> trace events (arguments from the script)."""
    by = vlib.group_records(recs)
    ev = []
    for b, beh in enumerate(behs):
        if only is not None and b not in only:
            continue
        rs = by.get(b, [])
        for i, st in enumerate(beh):
            e = {"a": st["a"], "arg": st.get("arg") or {}, "b": b, "i": i}
            if i < len(rs) and rs[i].get("a") not in ("Crash", "Hang", "Garbled"):
                e["obs"] = rs[i].get("obs") or {}
            else:
                e["a"] = rs[i]["a"] if i < len(rs) else "Missing"
                e["obs"] = {}
                ev.append(e)
                break
            ev.append(e)
    return ev


def vacuity(ck, res, names):
    """-coverage 1 output: every named action must have been taken."""
    import re
    cnt = {}
    for ln in res.out.splitlines():
        m = re.match(r"<(\w+) line \d+, col \d+ .*>: (\d+):(\d+)", ln)
        if m:
            cnt[m.group(1)] = max(cnt.get(m.group(1), 0), int(m.group(3)))
    ck.notes["action_coverage"] = {n: cnt.get(n, 0) for n in names}
    dead = [n for n in names if not cnt.get(n)]
    if dead:
        raise vlib.MachineryError("vacuous model: action(s) never taken: %s" % dead)


def tlc_trace(module, events, tag):
    """One TLC run over all events: returns (indices of rejected events, TlcResult).
    The Trace_ specifications record an event they cannot take, skip the rest
    of that execution and go on, so every failing execution is found at once."""
    import re
    tdir = vlib.ensure(os.path.join(vlib.WORK, "traces"))
    path = os.path.join(tdir, "%s-%d.ndjson" % (tag, os.getpid()))
    with open(path, "w") as f:
        for e in events:
            f.write(json.dumps(e, separators=(",", ":")) + "\n")
    res = vlib.tlc(module, module + ".cfg", workers=1, env={"TRACE": path}, xss="512m", tag=tag, timeout=1500)
    if res.error:
        raise vlib.MachineryError(res.error)
    m = re.findall(r'<<"MATCHED", (\d+), "REJECTED", (\d+)>>', res.out)
    rej = [int(x) - 1 for x in re.findall(r'<<"REJECT", (\d+)>>', res.out)]
    if not m or int(m[-1][0]) != len(events) or res.violation or res.rc != 0:
        raise vlib.MachineryError("trace validation did not read the whole trace (%s):\n%s" % (tag, res.out[-3000:]))
    if int(m[-1][1]) != len(rej):
        raise vlib.MachineryError("trace validation: rejection count mismatch")
    if not rej:
        os.unlink(path)
    return rej, res


def judge(ck, module, behs, recs, events, what, sigf, max_report=200):
    """TLC decides whether the recorded events are behaviours of the spec."""
    if not events:
        return [], 0
    tag = "%s_%s" % (module, "".join(ch for ch in what if ch.isalnum()))
    rej, res = tlc_trace(module, events, tag)
    ck.cov["transitions"] += res.generated
    if rej:
        rej2, _ = tlc_trace(module, events, tag)        # re-run once before reporting
        if rej2 != rej:
            raise vlib.MachineryError("trace validation not reproducible")
    bad = []
    byb = {}
    for r in recs:
        byb.setdefault(r.get("b"), []).append(r)
    for idx in rej[:max_report]:
        ev = events[idx]
        b = ev["b"]
        bad.append((b, ev))
        ck.violation(sigf(behs[b], ev["i"], ev["a"] if ev["a"] in ("Crash", "Hang") else "rejected",
                          {"obs": ev.get("obs")}),
                     {"binding": what, "rejected_event": ev, "behaviour": behs[b], "records": byb.get(b, [])[:40]})
    bad += [(events[i]["b"], events[i]) for i in rej[max_report:]]
    return bad, len(events)


# --------------------------------------------------------------------------
def run_structured(rng, full, nmsg):
    """Run-structured messages around the block boundaries of the framings."""
    runs = [0, 1, 2, 29, 30, 31, 32, 221, 222, 223, 224, 253, 254, 255, 256]
    zeros = [0, 1, 2, 3]
    lasts = [1, 2, 3, 30, 31, 32, 0xDE, 0xDF, 0xE0, 0xE1, 0xFE, 0xFF]
    msgs = [[], [0], [0, 0], [0, 0, 0], [1], [255]]
    seen = set()
    while len(msgs) < nmsg:
        nr = rng.choice([1, 1, 2, 2, 3, 4])
        m = []
        for _ in range(nr):
            n = rng.choice(runs)
            fill = rng.choice([1, 2, 0x41, 0xDF, 0xE0, 0xFF, None])
            for j in range(n):
                m.append(fill if fill else 1 + ((j * 7 + len(m)) % 255))
            m += [0] * rng.choice(zeros)
        if m and rng.random() < 0.7:
            if m[-1] == 0 and rng.random() < 0.5:
                m.append(rng.choice(lasts))
            elif m[-1] != 0:
                m[-1] = rng.choice(lasts)
        t = bytes(m)
        if t in seen or len(m) > 1100:
            continue
        seen.add(t)
        msgs.append(m)
    return msgs


def prod_behaviours(ck, msgs):
    """Call sequences only: message x framing x path x random split points."""
    rng = ck.rng
    behs = []
    for m in msgs:
        for kind in KINDS:
            mm = [b if b else 1 for b in m] if (kind == "cmd" and rng.random() < 0.85) else m
            path = rng.choice(["array", "array", "queue", "direct"])
            arg = {"kind": kind, "m": 0, "path": path, "pre": rng.choice([0, 0, 3, 70, 200]), "msg": mm}
            arg["consumed"] = rng.choice([0, 0, arg["pre"], arg["pre"] // 2]) if path != "direct" else 0
            arg["cap"] = rng.choice([0, 1, 2, 16, 64, 300]) if path != "array" else 0
            beh = [{"a": "einit", "arg": arg}]
            left = len(mm)
            style = rng.choice(["one", "rand", "rand", "bytes", "edge"])
            n = 0
            while left > 0 and n < 40:
                if style == "one":
                    k = left
                elif style == "bytes" and left < 24:
                    k = 1
                elif style == "edge":
                    k = rng.choice([1, 2, 30, 31, 222, 223, 224, 253, 254, 255])
                else:
                    k = rng.randrange(1, left + 1)
                k = min(k, left)
                beh.append({"a": "push", "arg": {"k": k}})
                if path == "direct" and rng.random() < 0.5:
                    beh.append({"a": "grow", "arg": {"n": rng.choice([1, 2, 3, 64, 255, 256])}})
                left -= k      # a partial accept only shifts the offers (driver re-offers)
                n += 1
            beh.append({"a": "fin", "arg": {"x": 0}})
            behs.append(beh)
    return behs


def bulk_behaviours(ck, n):
    """Output buffer in use: an earlier frame (partly or wholly consumed by the
    reader) sits in front of the encoder area and a long message is handed over
    in ONE push, so that mpt_array_push has to take it in many installments
    while it enlarges the buffer (queue path: ring offset > 0, wrapped content,
    the driver re-offers).  Call sequences only."""
    rng = ck.rng
    behs = []
    for i in range(n):
        kind = KINDS[i % len(KINDS)]
        path = "array" if (i // len(KINDS)) % 3 != 2 else "queue"
        pre = rng.choice([40, 130, 300, 700, 1500])
        consumed = rng.choice([pre, pre, pre // 2, rng.randrange(pre + 1)])
        ln = rng.choice([70, 200, 400, 700, 1100, 2500])
        zero_every = rng.choice([0, 0, 3, 31, 100, 254]) if kind != "cmd" else 0
        base = rng.randrange(1, 200)
        msg = [0 if (zero_every and j % zero_every == zero_every - 1) else 1 + ((base + j * 7) % 255) for j in range(ln)]
        arg = {"kind": kind, "m": 0, "path": path, "pre": pre, "consumed": consumed, "msg": msg,
               "cap": rng.choice([0, 16, 64]) if path == "queue" else 0}
        beh = [{"a": "einit", "arg": arg}]
        if rng.random() < 0.25:          # a short push first, then the rest at once
            beh.append({"a": "push", "arg": {"k": rng.choice([1, 5, 63, 64, 65])}})
        beh.append({"a": "push", "arg": {"k": ln}})
        beh.append({"a": "fin", "arg": {"x": 0}})
        behs.append(beh)
    return behs


def ring_behaviours(ck, full):
    """Fixed-size encode rings (8/16/32/64 bytes, never grown) driven through
    mpt_queue_push: frames are pushed until the finished data ends exactly at the
    storage end, the reader takes 1..cap-1 bytes from the front (so the ring offset
    is > 0 and the finished part reaches the storage end), then further messages
    follow and are encoded into the part in front of the offset; plus seeded
    sessions of arbitrary sizes.  Call sequences only; message lengths are shaped
    from the framings' known overhead of short zero-free messages (code byte +
    delimiter, delimiter only for command text)."""
    rng = ck.rng
    behs = []

    def msg_of(n, kind, zeros=False):
        m = [1 + ((7 * j + n) % 9) for j in range(n)]          # small values: never a tail inline
        if zeros and kind != "cmd" and n > 1:
            for _ in range(rng.randrange(1, 3)):
                m[rng.randrange(n)] = 0
        return m

    for cap in (8, 16, 32, 64):
        cuts = list(range(1, cap))
        if not full and cap > 16:
            cuts = sorted(rng.sample(cuts, 10) + [1, cap - 1])
        for kind in KINDS:
            ov = 1 if kind == "cmd" else 2
            for n in cuts:
                # frames that fill the ring exactly
                parts = []
                left = cap
                while left:
                    sz = left if (left < 2 * (ov + 1) or rng.random() < 0.4) else rng.randrange(ov + 1, left - ov)
                    parts.append(sz)
                    left -= sz
                beh = [{"a": "qinit", "arg": {"kind": kind, "m": 0, "cap": cap}}]
                for sz in parts:
                    beh.append({"a": "qsend", "arg": {"msg": msg_of(sz - ov, kind), "fl": []}})
                beh.append({"a": "qflush", "arg": {"n": n}})
                for _ in range(rng.randrange(1, 4)):
                    ln = rng.randrange(0, max(1, min(cap // 2 - ov, 12)) + 1)
                    beh.append({"a": "qsend", "arg": {"msg": msg_of(ln, kind, zeros=rng.random() < 0.3),
                                                      "fl": [rng.randrange(1, cap) for _ in range(rng.randrange(0, 3))]}})
                    if rng.random() < 0.3:
                        beh.append({"a": "qflush", "arg": {"n": rng.randrange(1, cap)}})
                beh.append({"a": "qend", "arg": {"x": 0}})
                behs.append(beh)
    for _ in range(600 if full else 120):                          # arbitrary sessions
        kind = rng.choice(KINDS)
        cap = rng.choice([5, 8, 13, 16, 32, 64, 300])
        beh = [{"a": "qinit", "arg": {"kind": kind, "m": 0, "cap": cap}}]
        for _ in range(rng.randrange(2, 9)):
            ln = rng.randrange(0, max(1, cap // 2))
            beh.append({"a": "qsend", "arg": {"msg": msg_of(ln, kind, zeros=rng.random() < 0.5),
                                              "fl": [rng.randrange(1, cap) for _ in range(rng.randrange(0, 4))]}})
            if rng.random() < 0.4:
                beh.append({"a": "qflush", "arg": {"n": rng.randrange(1, cap)}})
        beh.append({"a": "qend", "arg": {"x": 0}})
        behs.append(beh)
    return behs


def ring_stats(behs, recs):
    """dbg only: how often the finished part reached the storage end with the ring offset > 0
    before a push (the 'encode in front of the offset' branch of mpt_queue_push)"""
    n = wrapped = 0
    prev = None
    for r in recs:
        d = r.get("dbg") or {}
        if r.get("a") == "qsend":
            if prev and prev.get("off", 0) > 0 and prev.get("done", 0) >= prev.get("max", 0) - prev.get("off", 0) > 0:
                n += 1
            wrapped += 1 if d.get("wrapped") else 0
        prev = d if r.get("a", "").startswith("q") else None
    return {"sessions": len(behs), "pushes_into_part_before_offset": n, "pushes_on_wrapped_ring": wrapped}


def load_mpt_py():
    path = os.path.join(vlib.REPO, "mpt.py")
    spec = importlib.util.spec_from_file_location("mpt_client_under_test", path)
    mod = importlib.util.module_from_spec(spec)
    old = sys.argv
    try:
        sys.argv = ["mpt.py"]
        spec.loader.exec_module(mod)
    finally:
        sys.argv = old
    return mod


def python_events(ck, exe, msgs):
    """Frames of the Python client; the library decoder's view via the driver."""
    try:
        mod = load_mpt_py()
    except Exception as e:          # the client cannot even be imported
        raise vlib.MachineryError("cannot import mpt.py: %r" % (e,))
    cases = []
    for m in msgs:
        for kind, fn in (("cobs", "encode_cobs"), ("cmd", "encode_command")):
            try:
                fr = getattr(mod, fn)(bytearray(m))
                cases.append((kind, m, "ok", list(bytes(fr))))
            except Exception:
                cases.append((kind, m, "err", []))
    behs = [[{"a": "run", "arg": {"kind": k, "m": 0, "data": fr, "chunk": 0, "seg": 0, "mis": 0, "grant": 8,
                                  "slack": 0, "maxres": 3}}] for (k, m, r, fr) in cases]
    recs, _ = vlib.run_driver(exe, vlib.to_script(behs))
    by = vlib.group_records(recs)
    evs = []
    for b, (k, m, r, fr) in enumerate(cases):
        rs = by.get(b, [])
        o = (rs[0].get("obs") or {}) if rs and rs[0].get("a") == "run" else {"res": [{"r": "err"}]}
        decs = [x.get("m", []) if x.get("r") == "msg" else [-1] for x in o.get("res", [])]
        evs.append({"a": "pyenc", "arg": {"kind": k, "m": 0, "msg": m}, "b": b, "i": 0,
                    "obs": {"ret": r, "frame": fr, "decs": decs}})
    pybehs = [[{"a": "pyenc", "arg": {"kind": k, "m": 0, "msg": m, "path": "python"}}] for (k, m, r, fr) in cases]
    return pybehs, recs, evs


def nontrivial_enc(beh, rs):
    """message spans a block boundary / zero pair / tail inline AND was refused or split at least once"""
    a0 = beh[0]["arg"]
    if beh[0]["a"] == "qinit":      # ring session: some message was encoded while the ring content wrapped
        return any((r.get("dbg") or {}).get("wrapped") for r in rs)
    m = a0.get("msg") or []
    lim = a0.get("m") or (223 if a0.get("kind", "").startswith("zpe") else 255)
    longrun = cur = 0
    for b in m:
        cur = cur + 1 if b else 0
        longrun = max(longrun, cur)
    structure = longrun >= lim - 1 or any(m[i] == 0 and m[i + 1] == 0 for i in range(len(m) - 1)) or (m and m[-1] > 2)
    refused = any((r.get("obs") or {}).get("ret") == "nobuf" or
                  ((r.get("obs") or {}).get("n", 0) < (r.get("obs") or {}).get("k", 0)) for r in rs if r.get("a") == "push")
    pushes = sum(1 for s in beh if s["a"] == "push")
    inst = max([(r.get("dbg") or {}).get("inst_max", 0) for r in rs] or [0])
    return bool(structure and (refused or pushes > 1 or inst >= 2))


def installments(recs):
    """how many caller-level pushes the encoder took in 1, 2, >=3 installments (dbg only)"""
    h = {"1": 0, "2": 0, ">=3": 0, "max": 0}
    for r in recs:
        if r.get("a") != "push":
            continue
        i = (r.get("dbg") or {}).get("inst", 0)
        if i >= 1:
            h["1" if i == 1 else "2" if i == 2 else ">=3"] += 1
            h["max"] = max(h["max"], i)
    return h


def run(tier):
    cfg = CFG[tier]
    ck = vlib.Check(PID, tier)
    exe = vlib.build_driver("cobs", ["cobs.c"])

    # 1. the design implements the framing for all schedules in the bound
    res = vlib.tlc("MC_CobsEnc", cfg["mc"], coverage=(tier == "thorough"))
    ck.add_tlc(res, "exhaustive " + cfg["mc"])
    if tier == "thorough":
        vacuity(ck, res, ["Push", "Grow", "Term"])

    # 2. binding A: every transition of the model replayed into the scaled real encoders
    gen = vlib.tlc("Gen_CobsEnc", cfg["gen"], workers=6)
    if gen.error or gen.violation:
        raise vlib.MachineryError("behaviour export failed: %s %s" % (gen.error, gen.violation))
    behs = parse_gen(gen.out)
    del gen
    nt = set()
    nmm = ndiv = nacc = 0
    samples_a = [vlib.sample_repr(b) for b in behs[len(behs) // 2: len(behs) // 2 + 2]]
    CH = 50000
    for lo in range(0, len(behs), CH):
        part = behs[lo:lo + CH]
        recs, _ = vlib.run_driver(exe, vlib.to_script(part), timeout=1200)
        recs = [norm(r) for r in recs]
        mms = vlib.compare(part, recs, match)
        nmm += len(mms)
        # where code and design differ TLC judges the recorded calls by the property (Tier 1) alone
        diverged = sorted({mm["b"] for mm in mms})[:1500]
        if diverged:
            evs = events_of(part, recs, only=set(diverged))
            bad, _ = judge(ck, "Trace_CobsEnc", part, recs, evs, "A(replay,scaled)", signature)
            ndiv += len(diverged)
            nacc += len(diverged) - len(bad)
            ck.notes.setdefault("diverged_sample", [{"b": vlib.sample_repr(part[mm["b"]]), "why": mm["why"]} for mm in mms[:2]])
        by = vlib.group_records(recs)
        for b, beh in enumerate(part):
            if nontrivial_enc(beh, by.get(b, [])):
                nt.add(json.dumps([(s["a"], s.get("arg")) for s in beh], sort_keys=True))
        del recs
    ck.notes["replayed_behaviours"] = len(behs)
    ck.notes["design_mismatches"] = nmm
    ck.notes["design_divergences_judged_by_tlc"] = ndiv
    ck.notes["design_divergences_accepted_by_tier1"] = nacc
    ck.cov["evaluations"] += len(behs)
    nbehs = len(behs)
    del behs

    # 3. binding B: production block sizes through the public paths, judged by TLC
    msgs = run_structured(ck.rng, cfg["full"], cfg["nmsg"])
    pb = prod_behaviours(ck, msgs) + bulk_behaviours(ck, cfg["nbulk"])
    rings = ring_behaviours(ck, cfg["full"])
    nring0 = len(pb)
    pb += rings
    precs, _ = vlib.run_driver(exe, vlib.to_script(pb), timeout=1200)
    precs = [norm(r) for r in precs]
    pev = events_of(pb, precs)
    bad, total = judge(ck, "Trace_CobsEnc", pb, precs, pev, "B(trace,production)", signature)
    ck.cov["traces_validated_against_impl"] += len(pb) - len(bad)
    ck.cov["evaluations"] += len(pb)
    ck.notes["production_traces"] = len(pb)
    ck.notes["production_events"] = total
    ck.notes["production_push_installments"] = installments(precs)
    ck.notes["fixed_ring_sessions"] = ring_stats(rings, [r for r in precs if r.get("b", -1) >= nring0])
    by2 = vlib.group_records(precs)
    for b, beh in enumerate(pb):
        if nontrivial_enc(beh, by2.get(b, [])):
            nt.add(json.dumps([(s["a"], s.get("arg")) for s in beh], sort_keys=True))

    # 4. the Python client's encoders on the same messages
    pybehs, pyrecs, pyev = python_events(ck, exe, msgs)
    badp, totalp = judge(ck, "Trace_CobsEnc", pybehs, pyrecs, pyev, "B(python client)", signature)
    ck.cov["traces_validated_against_impl"] += len(pyev) - len(badp)
    ck.cov["evaluations"] += len(pyev)
    ck.notes["python_frames"] = len(pyev)

    ck.cov["distinct_nontrivial"] = len(nt)
    ck.cov["exhaustive"] = True
    ck.cov["rule"] = ("A: one behaviour per transition of the TLC state graph of CobsEnc under the view (framing, bytes still to "
                      "push, open block, free room) at block limits 3/5, replayed into the seam-compiled encoders and completed "
                      "('fin'); B: run-structured messages (runs of 0..256 non-zero bytes around 30/31, 222/223, 254/255, zero runs "
                      "0..3, boundary last bytes) x 5 framings x array/queue/direct path x random splits, recorded from libmptcore and "
                      "validated by TLC; plus the Python client's frames.  Non-trivial = the message has a run reaching the block "
                      "limit, a zero pair or a last byte > 2, AND the schedule had more than one push or a refused/partial push; "
                      "distinct by (arguments, call sequence).  exhaustive refers to the scaled model (A), B is sampled.")
    ck.cov["samples"] = samples_a + [vlib.sample_repr(pb[7][:6])]
    ck.assumptions = ["TLC/SANY and the CommunityModules Json/IOUtils are correct",
                      "Cobs.tla (RefDec) is the definition of the five framings",
                      "drv/cobs.c moves bytes and follows the caller protocol without judgement",
                      "scaled ZPE: repository loops + pair macros re-stated for the scaled limit (cobs_seam.h)",
                      "exhaustive only at scaled block limits; production sizes by structured sampling"]
    # extension X01: message deletion, text delimiters of 1..3 bytes, size query / reset of the decoders, encode_array,
    # decode_queue peek (checks/x01_codec.py, docs/X01_codec.md)
    import x01_codec
    if x01_codec.enabled():
        x01_codec.run_part(ck, tier)
    return ck.finish()


def replay(path):
    d = json.load(open(path))
    det = d["detail"]
    if det.get("part") == "x01_codec":
        import x01_codec
        return x01_codec.replay(det, path)
    beh = det.get("behaviour")
    if not beh:
        print(json.dumps(det, indent=1)[:4000])
        return 2
    exe = vlib.build_driver("cobs", ["cobs.c"])
    if beh[0]["a"] == "pyenc":
        ck = vlib.Check(PID, "quick")
        pybehs, pyrecs, pyev = python_events(ck, exe, [beh[0]["arg"]["msg"]])
        evs = [e for e in pyev if e["arg"]["kind"] == beh[0]["arg"]["kind"]]
        for j, e in enumerate(evs):
            e["b"] = j
    else:
        recs, _ = vlib.run_driver(exe, vlib.to_script([beh]))
        recs = [norm(r) for r in recs]
        evs = events_of([beh], recs)
    rej, _ = tlc_trace("Trace_CobsEnc", evs, "Trace_CobsEnc_replay")
    for idx in rej:
        print("VIOLATION property=%s replay=%s  (trace rejected at event %d: %s)" %
              (PID, path, idx, json.dumps(evs[idx])[:600]))
    return 1 if rej else 0
