"""C18 -- visible line parts partition the data exactly (spec/Linepart.tla)."""
import json
import threading
import vlib

PID = "C18"
MANIFEST = dict(
        spec="Linepart.tla (+MC_Linepart, Gen_Linepart, Trace_Linepart)",
        text="TLC checks exhaustively, for every coordinate sequence over {below,min,inside,max,above} up to length 6 (thorough 8; "
             "plus degenerate [2,2] and inverted [4,0] ranges to length 6), with caller-chosen chunk sizes, joins and a scaled "
             "per-part limit up to length 4 (6), and for every pair of such sequences up to length 3 (4) as two dimensions, that "
             "the transcribed splitting/join/C++ set+apply design makes progress, that the raw counts partition the data, that "
             "every in-range point is drawn in exactly its own part, that no out-of-range point is drawn, that cut/trim codes "
             "lie within one 16-bit code of the exact boundary crossing (two dimensions: of the crossing where the line leaves the "
             "visible rectangle, for every sub-part a merge produces) and that joins keep the totals. Every transition of these "
             "models is replayed into mpt_linepart_linear/_join/_code (library build and the same sources compiled with a scaled "
             "limit) and into the C++ linepart::array::set/apply/join and polyline::set/part (coordinates of points(), line ends "
             "on the boundary); a result that differs from the design is judged by TLC against the meaning (Trace_Linepart). "
             "Seeded runs with scaled-integer coordinates up to 2^22 (crossings next to the boundary, equal neighbours, second "
             "dimension) and templated runs of 65532..131071 points recorded from the real code are validated by TLC.",
        note="Trusted: TLC, the drivers (projection only: integers to doubles exactly, struct fields copied). Fractions are decided "
             "exactly in integer arithmetic for coordinates below 2^23 (the 16-bit code is then determined); rounding direction for "
             "general doubles, the logarithmic transform, more than two dimensions and dimensions of different length are not "
             "decided. Bounded model; memory safety observed by ASan on each executed call.",
        technique="TLA+ spec + TLC exhaustive check; TLC-generated behaviours replayed into the C and C++ code; TLC trace validation of recorded runs",
        design="5/C18")

CFG = {
    "quick": dict(mc=[("MC_Linepart.cfg", "full"), ("MC_Linepart_c.cfg", "chunked"), ("MC_Linepart_2.cfg", "two dimensions")],
                  gen=[("Gen_Linepart.cfg", 65535), ("Gen_Linepart_c.cfg", 3), ("Gen_Linepart_k.cfg", 65535), ("Gen_Linepart_2.cfg", 65535)],
                  nrand=400, nlong=6),
    "thorough": dict(mc=[("MC_Linepart_t.cfg", "full"), ("MC_Linepart_r_t.cfg", "degenerate and inverted ranges"),
                         ("MC_Linepart_c_t.cfg", "chunked"), ("MC_Linepart_2_t.cfg", "two dimensions")],
                     gen=[("Gen_Linepart_t.cfg", 65535), ("Gen_Linepart_c_t.cfg", 3), ("Gen_Linepart_k_t.cfg", 65535), ("Gen_Linepart_2_t.cfg", 65535)],
                     nrand=3000, nlong=40),
}
DRV_LIMIT = 3
CXX_ACTIONS = ("apply", "apply2", "poly")


def build():
    c = vlib.build_driver("linepart", ["linepart.c"], libs=("mptcore", "mptplot"), defines=("DRV_LIMIT=%d" % DRV_LIMIT,))
    cxx = vlib.build_driver("linepartpp", ["linepartpp.cpp"], libs=("mptcore", "mptplot", "mpt++"), cxx=True)
    return c, cxx


def is_cxx(beh):
    return any(s["a"] in CXX_ACTIONS for s in beh)


def run_batched(exe, behs, timeout=1200):
    """Run behaviours in growing batches; stop early when hangs pile up (each costs the driver's alarm
    time).  A behaviour that hung is executed once more on its own before it counts (loaded machine).
    Records are numbered by behaviour index; returns (records, number of behaviours run)."""
    out = []
    pos = 0
    size = 20
    hangs = 0
    while pos < len(behs):
        part = behs[pos:pos + size]
        recs, _ = vlib.run_driver(exe, vlib.to_script(part), timeout=timeout)
        hung = sorted({r["b"] for r in recs if r.get("a") == "Hang"})
        if hung and len(hung) <= 10:
            again, _ = vlib.run_driver(exe, vlib.to_script([part[b] for b in hung]), timeout=timeout)
            recs = [r for r in recs if r.get("b") not in hung]
            for r in again:
                if isinstance(r.get("b"), int) and r["b"] < len(hung):
                    r["b"] = hung[r["b"]]
                    recs.append(r)
        for r in recs:
            if isinstance(r.get("b"), int):
                r["b"] += pos
            if r.get("a") == "Hang":
                hangs += 1
            out.append(r)
        pos += len(part)
        if hangs >= 3:
            break                      # the remaining behaviours are not run
        size = min(size * 10, 50000)
    return out, pos


def run_split(exes, behs, timeout=900):
    """Run behaviours on the C or the C++ driver (by the actions they contain).
    Returns (behaviours actually run, their records numbered accordingly)."""
    ran = []
    out = []
    for want, exe in ((False, exes[0]), (True, exes[1])):
        idx = [i for i, b in enumerate(behs) if is_cxx(b) == want]
        if not idx:
            continue
        recs, done = run_batched(exe, [behs[i] for i in idx], timeout=timeout)
        base = len(ran)
        ran += [behs[i] for i in idx[:done]]
        for r in recs:
            if isinstance(r.get("b"), int) and 0 <= r["b"] < done:
                r["b"] += base
                out.append(r)
    return ran, out


def drop_prefixes(behs):
    """A behaviour that is a proper prefix of another one is replayed as part of it."""
    keys = [tuple(json.dumps([s["a"], s.get("arg")], sort_keys=True) for s in b) for b in behs]
    pref = set()
    for k in keys:
        for n in range(1, len(k)):
            pref.add(k[:n])
    seen = set()
    out = []
    for b, k in zip(behs, keys):
        if k in pref or k in seen:
            continue
        seen.add(k)
        out.append(b)
    return out


def first_diff(exp, obs, path=""):
    if isinstance(exp, dict):
        for k, v in exp.items():
            if not isinstance(obs, dict) or k not in obs:
                return path + k + ":missing"
            d = first_diff(v, obs[k], path + k + ".")
            if d:
                return d
        return None
    if exp != obs:
        return path.rstrip(".")
    return None


def signature(step, rec, why):
    """Specific signature: action, differing field, class of the observed value."""
    a = step["a"]
    if why in ("Crash", "Hang", "Garbled", "Missing"):
        return "%s:%s" % (a, why.lower())
    obs = (rec or {}).get("obs") or {}
    exp = step.get("exp")
    fld = first_diff(exp, obs) if exp else None
    if a == "encode":
        x, y = step["arg"]["a"], step["arg"]["b"]
        cls = "tiny" if 0 < x * 65536 < y else "other"
        return "encode:%s:%s" % (fld or "rejected", cls)
    if a == "join":
        return "join:%s:%s" % (fld or "rejected", obs.get("ret"))
    if a == "part":
        z = [k for k in ("cut", "trim") if obs.get(k) == 0]
        return "part:%s:%s" % (fld or "rejected", "zero-" + "-".join(z) if z else "nz")
    if a == "apply2":
        parts = obs.get("parts") or []
        only = (rec or {}).get("badpart")        # named by TLC for a rejected trace event
        if only is None and exp:                  # replay: the first part that differs from the design
            ep = exp.get("parts") or []
            only = next((j + 1 for j in range(min(len(ep), len(parts))) if ep[j] != parts[j]), None)
        return "apply2:%s:%s" % (fld or "rejected", merge_tags(parts, ((rec or {}).get("dbg") or {}).get("parts0") or [], only))
    return "%s:%s" % (a, fld or "rejected")


def merge_tags(parts, parts0, only=None):
    """Structure of the trims in a two-dimension result relative to the parts of the first dimension
    (describes the failing case, decides nothing): for a sub-part with a trim, is it the last sub-part of
    its old part or an inner one, does its line end where the old line ends, and how does its trim compare
    with the old one."""
    olds = []
    s = 0
    for p in parts0:
        olds.append((s, s + p[0], s + p[1], p[3]))     # start, raw end, line end, trim
        s += p[0]
    tags = set()
    s = 0
    for j, p in enumerate(parts):
        raw, usr, cut, trim = p
        o = next((x for x in olds if x[0] <= s < x[1]), None)
        if o and usr and o[3] and (only is None or only == j + 1):
            pos = "last" if s + raw >= o[1] else "inner"
            end = "same" if s + usr == o[2] else "other"
            rel = "=old" if trim == o[3] else ("<old" if trim < o[3] else ">old")
            if (end == "other" and rel == "=old") or (end == "same" and rel == "<old"):
                tags.add("%s-%s%s" % (pos, end, rel))
        s += raw
    return "+".join(sorted(tags)) or "plain"


def trace_cfg(lim):
    return "Trace_Linepart.cfg" if lim == 65535 else "Trace_Linepart_c.cfg"


def norm_events(events):
    """move the driver's record of the count it was asked to offer into the event (no judgement)"""
    for e in events:
        d = e.get("dbg") or {}
        if e["a"] == "part" and "n" in d:
            e["arg"] = {"n": d["n"]}
    return events


def validate(ck, behs, recs, lim, tag, what):
    """TLC decides whether the recorded run is a behaviour of the meaning; returns True when accepted."""
    events = norm_events(vlib.merge_trace(behs, recs))
    if not events:
        return 0, 0
    total = 0
    rounds = 0
    while events and rounds < 6:
        rounds += 1
        ok, matched, tres = vlib.validate_trace("Trace_Linepart", events, cfg=trace_cfg(lim), tag=tag, xss="1g")
        ck.cov["transitions"] += tres.generated
        if not ok:   # once more before reporting
            ok2, matched2, _ = vlib.validate_trace("Trace_Linepart", events, cfg=trace_cfg(lim), tag=tag, xss="1g")
            if ok2 or matched2 != matched:
                raise vlib.MachineryError("trace validation not reproducible (%s)" % tag)
        total += matched
        if ok:
            return total, rounds
        ev = events[matched] if matched < len(events) else None
        if ev is None:
            raise vlib.MachineryError("trace shorter than matched prefix")
        b = ev["b"]
        beh = behs[b]
        step = beh[ev["i"]]
        rec = {"obs": ev.get("obs"), "dbg": ev.get("dbg")}
        m = vlib.re.findall(r'<<"BADPART", %d, (\d+)>>' % (matched + 1), tres.out)
        if m:
            rec["badpart"] = int(m[-1])
        why = ev["a"] if ev["a"] in ("Crash", "Hang", "Garbled", "Missing") else "rejected"
        sig = what + ":" + signature(step, rec, why)
        small = [dict(s, arg=(dict(s["arg"], data="(%d values)" % len(s["arg"]["data"])) if len(s.get("arg", {}).get("data", [])) > 200 else s.get("arg"))) for s in beh]
        ck.violation(sig, {"binding": what, "limit": lim, "rejected_event": {k: (v if k != "arg" or len(json.dumps(v)) < 2000 else "(long)") for k, v in ev.items()},
                           "behaviour": beh if len(json.dumps(beh)) < 20000 else small, "step": ev["i"],
                           "behaviour_full": beh if len(json.dumps(beh)) < 2000000 else None})
        # continue after the rejected behaviour
        events = [e for e in events if e["b"] != b]
    return total, rounds


# --------------------------------------------------------------------------
# binding B inputs: call sequences only
# --------------------------------------------------------------------------
def rand_data(rng):
    big = rng.choice([10, 100, 5000, 1 << 16, 1 << 20, (1 << 22) - 3])
    lo = rng.randrange(-big, big)
    hi = lo + rng.choice([0, 1, 2, rng.randrange(1, big + 1), rng.randrange(1, big + 1)])
    if rng.random() < 0.04:
        lo, hi = hi, lo
    w = max(hi - lo, 1)
    n = rng.choice([0, 1, 2, 3, 4, 5, 6, 8, 12, 20, 40])
    out = []
    for _ in range(n):
        k = rng.random()
        if out and k < 0.15:
            v = out[-1]                       # equal neighbours
        elif k < 0.30:
            v = rng.choice([lo, hi])
        elif k < 0.45:
            v = rng.choice([lo - 1, hi + 1, lo - 2, hi + 3])  # crossing next to the boundary
        elif k < 0.75:
            v = rng.randrange(lo, hi + 1) if hi >= lo else rng.randrange(hi, lo + 1)
        else:
            v = rng.choice([lo - rng.randrange(1, 2 * w + 2), hi + rng.randrange(1, 2 * w + 2)])
        v = max(-(1 << 22) + 1, min((1 << 22) - 1, v))
        out.append(v)
    return out, lo, hi


def core_excursions():
    """Fixed templates (every run): single-sample excursions out of the range and back -- a trimmed part directly
    followed by a cut part, so that usr > raw and later parts start before the points drawn so far -- at the start,
    in the middle, at the end, several in a row, above/below alternating, on the boundary values, at coordinates
    from 1 to 2^21 (a line end left at the transform's zero must be *rejected* there, see EndWithin), for every
    consumer of the parts (polyline::set, apply fresh / after set, both dimensions)."""
    behs = []
    for big in (1, 1 << 15, 1 << 16, 1 << 19):
        lo, hi = big, 3 * big
        I, A, B = 2 * big, 4 * big, 0
        pats = [[I, A, I], [I, A, I, I, A], [I, A, I, A, I], [A, I, A, I], [I, B, I, A, I, I], [B, I, A, I, B, I, I],
                [I, I, A, I, B, I, A, I, I], [I, A, I, I, I, B, I], [A, I, B], [I, A, B, I], [lo, A, hi, B, lo],
                [I, A, A, I, B, I], [I, A, hi, A, lo, B, I]]
        for p in pats:
            def init(d2=None):
                arg = {"data": p, "lo": lo, "hi": hi, "ranged": 1, "lim": 65535, "shift": 0}
                if d2 is not None:
                    arg["data2"] = d2
                return {"a": "init", "arg": arg}
            behs.append([init(), {"a": "poly", "arg": {"x": 0}}])
            behs.append([init(), {"a": "apply", "arg": {"mode": "set"}}, {"a": "poly", "arg": {"x": 0}}])
            behs.append([init(), {"a": "apply", "arg": {"mode": "fresh"}}])
            for d2 in (list(reversed(p)), [I] * len(p), p[1:] + [I]):
                behs.append([init(d2), {"a": "apply2", "arg": {"mode": "set" if d2[0] == I else "fresh"}}])
    return behs


def gen_random(ck, n):
    rng = ck.rng
    behs = core_excursions()
    for _ in range(n):
        data, lo, hi = rand_data(rng)
        beh = [{"a": "init", "arg": {"data": data, "lo": lo, "hi": hi, "ranged": 0 if rng.random() < 0.05 else 1,
                                     "lim": 65535, "shift": rng.choice([0, 0, 1, 7, 30])}}]
        kind = rng.random()
        if kind < 0.15 and data:
            # second dimension of the same length against the same range
            d2, _, _ = rand_data(rng)
            d2 = [rng.choice([lo - 3, lo, hi, hi + 2, (lo + hi) // 2] + d2) for _ in data]
            beh[0]["arg"]["data2"] = d2
            beh.append({"a": "apply2", "arg": {"mode": rng.choice(["fresh", "set"])}})
        elif kind < 0.25:
            beh.append({"a": "apply", "arg": {"mode": rng.choice(["fresh", "set"])}})
            if data and rng.random() < 0.7:
                beh.append({"a": "poly", "arg": {"x": 0}})
        elif kind < 0.35 and data:
            beh.append({"a": "poly", "arg": {"x": 0}})
        else:
            chunky = rng.random() < 0.4
            for _ in range(min(len(data) + 2, 14)):
                beh.append({"a": "part", "arg": {"pct": rng.choice([100, 100, 50, 30, 10, 1]) if chunky else 100}})
                if rng.random() < (0.5 if chunky else 0.15):
                    beh.append({"a": "join", "arg": {"x": 0}})
        if rng.random() < 0.3 and not is_cxx(beh):
            b = rng.choice([1, 3, 7, 65536, 65537, 99991, 1 << 20, (1 << 22) + 1])
            beh.append({"a": "encode", "arg": {"a": rng.choice([0, 1, 2, b // 65536, b // 65536 + 1, b // 2, b - 1, b, rng.randrange(b + 1)]), "b": b}})
        behs.append(beh)
    return behs


def gen_long(ck, n):
    """runs around the 65535 per-part limit and the 65533 chunk size of array::set, by template"""
    rng = ck.rng
    behs = []
    lo, hi = 0, 4
    for k in range(n):
        total = rng.choice([65532, 65533, 65534, 65535, 65536, 65537, 65538, 131066, 131070, 131071])
        tmpl = k % 6
        data = [2] * total
        if tmpl == 1:      # a single point outside next to the limit
            for p in {rng.choice([65531, 65532, 65533, 65534, 65535, 65536]) for _ in range(2)}:
                if p < total:
                    data[p] = rng.choice([-2, 6])
        elif tmpl == 2:    # long invisible run, then visible
            data = [rng.choice([-2, 6])] * total
            for p in range(rng.choice([65533, 65534, 65535, 65536]), total):
                data[p] = 2
        elif tmpl == 3:    # outside first, inside run of limit length, outside
            data[0] = -2
            data[-1] = 6
        elif tmpl == 4:    # alternating around the limit
            for p in range(65528, min(total, 65542)):
                data[p] = [2, 6, -2, 4, 0][p % 5]
        elif tmpl == 5:    # visible, then invisible to the end
            for p in range(rng.choice([1, 2, 65532, 65533, 65534]), total):
                data[p] = 6
        beh = [{"a": "init", "arg": {"data": data, "lo": lo, "hi": hi, "ranged": 1, "lim": 65535, "shift": 0}}]
        mode = k % 4
        if mode == 3:
            d2 = [2] * total
            for p in {rng.choice([0, 1, 65531, 65532, 65533, 65534, 65535, total - 1]) for _ in range(3)}:
                if p < total:
                    d2[p] = rng.choice([-2, 6])
            beh[0]["arg"]["data2"] = d2
            beh.append({"a": "apply2", "arg": {"mode": "set"}})
        elif mode == 0:
            for _ in range(5):
                beh.append({"a": "part", "arg": {"pct": 100}})
                beh.append({"a": "join", "arg": {"x": 0}})
        elif mode == 1:
            beh.append({"a": "apply", "arg": {"mode": rng.choice(["set", "set", "fresh"])}})
        else:
            beh.append({"a": "poly", "arg": {"x": 0}})
        behs.append(beh)
    return core_long(ck) + behs


CHUNK = 65533     # points per part of linepart::array::set (the 16 bit counter limit - 2)


def core_long(ck):
    """Fixed templates (every run): no visible range with 65534..131072 values (C calls and C++ apply), and
    array::set totals one below, at and one above 1..3 chunks (apply after set, after set + set(-1), polyline)."""
    rng = ck.rng
    behs = []

    def init(data, ranged):
        return {"a": "init", "arg": {"data": data, "lo": 0, "hi": 4, "ranged": ranged, "lim": 65535, "shift": 0}}

    for total in (65534, 65535, 65536, 65537, 131071, 131072):
        data = [2] * total
        for p in (0, 65534, 65535, total - 1):          # without a range every value is visible
            if p < total:
                data[p] = rng.choice([-2, 6, 2])
        beh = [init(data, 0)] + [{"a": "part", "arg": {"pct": 100}} for _ in range(4)]
        behs.append(beh)
        if total in (65536, 131072):
            behs.append([init(data, 0), {"a": "apply", "arg": {"mode": "fresh"}}])
        if total in (65537, 131071):
            behs.append([init(data, 0), {"a": "apply", "arg": {"mode": "set"}}])
    ks = (1, 2, 3) if ck.tier != "quick" else (1, 2)
    totals = [k * CHUNK + d for k in ks for d in (-1, 0, 1)]
    if ck.tier == "quick":
        totals.append(3 * CHUNK)
    for total in totals:
        data = [2] * total
        for p in (CHUNK - 1, CHUNK, 2 * CHUNK - 1, total - 1):
            if p < total and rng.random() < 0.5:
                data[p] = rng.choice([-2, 6])
        mode = "set2" if total % CHUNK == 0 and rng.random() < 0.5 else "set"
        behs.append([init(data, 1), {"a": "apply", "arg": {"mode": mode}}])
        if total % CHUNK == 0:
            behs.append([init(data, 1), {"a": "poly", "arg": {"x": 0}}])
    return behs


def nontrivial_beh(beh, recs):
    """a part with a cut or trim code was produced or a join succeeded"""
    for r in recs:
        o = r.get("obs") or {}
        if o.get("cut") or o.get("trim") or o.get("ret") == "ok" and r.get("a") == "join":
            return True
        for p in (o.get("parts") or []) + (o.get("pparts") or []):
            if p[2] or p[3]:
                return True
    return False


def run(tier):
    """A later stage that cannot be evaluated (MachineryError) must not swallow what TLC has already rejected:
    violations found so far are reported (the error is kept in the evidence notes)."""
    ck = vlib.Check(PID, tier)
    try:
        return run_stages(ck, tier)
    except vlib.MachineryError as ex:
        if not ck.violations:
            raise
        vlib.log("machinery error after %d violation(s): %s" % (len(ck.violations), str(ex)[:300]))
        ck.notes["machinery_error_after_violations"] = str(ex)[:2000]
        return ck.finish()


def run_stages(ck, tier):
    cfg = CFG[tier]
    exes = build()

    # 1. + 2. model checking and behaviour export run side by side
    results = {}

    def job(key, module, c, **kw):
        results[key] = vlib.tlc(module, c, tag="%s-%s" % (module, c), xss="512m", **kw)

    ths = []
    for c, what in cfg["mc"]:
        ths.append(threading.Thread(target=job, args=(("mc", c), "MC_Linepart", c), kwargs=dict(workers=max(2, vlib.NCPU // 2))))
    for c, lim in cfg["gen"]:
        ths.append(threading.Thread(target=job, args=(("gen", c), "Gen_Linepart", c), kwargs=dict(workers=2)))
    for t in ths:
        t.start()
    for t in ths:
        t.join()
    for key, r in results.items():      # TLC reports some evaluation errors with exit code 0
        if not r.violation and (vlib.re.search(r"^Error: ", r.out, vlib.re.M) or r.distinct == 0):
            raise vlib.MachineryError("TLC run %s failed:\n%s" % (key, "\n".join(l for l in r.out.splitlines() if not l.startswith('<<"BEHAV"'))[-3000:]))
    for c, what in cfg["mc"]:
        ck.add_tlc(results[("mc", c)], "exhaustive %s (%s)" % (c, what))
    vlib.log("TLC done: " + ", ".join("%s %.0fs" % (k[1], r.wall) for k, r in results.items()))

    nt = set()
    replayed = 0
    mism = 0
    accepted_div = 0
    samples = []
    for c, lim in cfg["gen"]:
        gen = results[("gen", c)]
        if gen.error or gen.violation:
            raise vlib.MachineryError("behaviour export %s failed: %s %s" % (c, gen.error, gen.violation))
        behs = drop_prefixes(vlib.parse_behaviours(gen.out))
        if lim != 65535:
            # the C++ classes have no seam for a scaled limit: their scaled design is model-checked only
            behs = [b for b in behs if not is_cxx(b)]
        behs, recs = run_split(exes, behs)
        mms = vlib.compare(behs, recs)
        replayed += len(behs)
        mism += len(mms)
        by = vlib.group_records(recs)
        for b, beh in enumerate(behs):
            if nontrivial_beh(beh, by.get(b, [])):
                nt.add(json.dumps([(s["a"], s.get("arg")) for s in beh], sort_keys=True))
        if behs:
            samples.append(vlib.sample_repr(behs[(2 * len(behs)) // 3]))
        if mms:
            # the code differs from the design: the meaning decides (one representative per signature)
            reps = {}
            for mm in mms:
                sig = signature(mm["step"], mm["rec"], mm["why"])
                reps.setdefault(sig, mm)
            sel = sorted({mm["b"] for mm in reps.values()})[:12]
            sub = [behs[b] for b in sel]
            subrecs = []
            for j, b in enumerate(sel):
                for r in by.get(b, []):
                    subrecs.append(dict(r, b=j))
            before = len(ck.violations) + len(ck.known_hit)
            validate(ck, sub, subrecs, lim, "Trace_Linepart-A-%s" % c, "A(replay)")
            if len(ck.violations) + len(ck.known_hit) == before:
                accepted_div += len(mms)
    vlib.log("replayed %d behaviours, %d differ from the design" % (replayed, mism))
    ck.cov["evaluations"] += replayed
    ck.notes["replayed_behaviours"] = replayed
    ck.notes["replay_differs_from_design"] = mism
    ck.notes["replay_differences_accepted_by_meaning"] = accepted_div

    # 3. binding B: recorded executions validated by TLC against the meaning
    hist = gen_random(ck, cfg["nrand"])
    longs = gen_long(ck, cfg["nlong"])
    hist, recs_h = run_split(exes, hist)
    longs, recs_l = run_split(exes, longs, timeout=1200)
    vlib.log("recorded %d + %d runs" % (len(hist), len(longs)))
    nev_h, _ = validate(ck, hist, recs_h, 65535, "Trace_Linepart-B", "B(trace)")
    vlib.log("validated random runs")
    nev_l, _ = validate(ck, longs, recs_l, 65535, "Trace_Linepart-L", "B(long)")
    byh = vlib.group_records(recs_h)
    for b, beh in enumerate(hist):
        if nontrivial_beh(beh, byh.get(b, [])):
            nt.add(json.dumps([(s["a"], s.get("arg")) for s in beh], sort_keys=True))
    byl = vlib.group_records(recs_l)
    nlong_nt = 0
    for b, beh in enumerate(longs):
        if nontrivial_beh(beh, byl.get(b, [])):
            nlong_nt += 1
    ck.cov["traces_validated_against_impl"] = len(hist) + len(longs)
    ck.cov["evaluations"] += len(hist) + len(longs)
    ck.notes["trace_events_matched"] = nev_h + nev_l
    ck.notes["long_runs"] = len(longs)
    ck.cov["distinct_nontrivial"] = len(nt) + nlong_nt
    ck.cov["exhaustive"] = True
    ck.cov["rule"] = ("A: one behaviour per maximal path of the TLC state graph of Linepart (all sequences over 5 symbols up to MaxLen, "
                      "full offers; all chunked offers, joins and the scaled limit up to the smaller MaxLen; C++ apply fresh/after set; "
                      "encode over a denominator table), replayed into the real code and compared with the design's parts, differences "
                      "judged by TLC against the meaning. B: seeded call sequences (scaled-integer coordinates up to 2^22, chunked "
                      "offers, joins, apply, polyline) and runs of 65532..131071 points by template, recorded from the real code and "
                      "validated by TLC. Non-trivial = a cut or trim code was produced or a join succeeded; distinct by call sequence.")
    if hist:
        samples.append(vlib.sample_repr(hist[0][:8]))
    ck.cov["samples"] = samples[:5]
    ck.assumptions = ["TLC/SANY and the CommunityModules Json/IOUtils are correct",
                      "drv/linepart.c and drv/linepartpp.cpp project without judgement (exact integer->double, struct fields copied)",
                      "coordinates are integers below 2^23 (times a power of two): the crossing fraction's 16-bit code is then decided exactly",
                      "the exhaustive model is bounded (see MC cfgs); beyond it coverage is by the seeded and templated runs"]
    # extension X18: graph transform and polyline consumers of the parts (checks/x18_transform.py, docs/X18_transform.md)
    import x18_transform
    if x18_transform.enabled():
        x18_transform.run_part(ck, tier)
    return ck.finish()


def replay(path):
    d = json.load(open(path))
    det = d["detail"]
    if det.get("part") == "x18":
        import x18_transform
        return x18_transform.replay(det, path)
    beh = det.get("behaviour_full") or det.get("behaviour")
    if not beh or isinstance(beh[0].get("arg", {}).get("data"), str):
        print(json.dumps(det, indent=1)[:4000])
        return 2
    exes = build()
    _, recs = run_split(exes, [beh])
    ck = vlib.Check(PID, "replay")
    ck.findings = []
    validate(ck, [beh], recs, det.get("limit", 65535), "Trace_Linepart-replay", det.get("binding", "replay"))
    for sig, p in ck.violations:
        print("VIOLATION property=%s replay=%s  (%s)" % (PID, path, sig))
    return 1 if ck.violations else 0
