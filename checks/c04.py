"""C04 -- copy-on-write arrays behave as independent values (spec/CowArray.tla)."""
import json
import vlib

PID = "C04"
MANIFEST = dict(
        spec="CowArray.tla (+MC_CowArray, Gen_CowArray, Trace_CowArray)",
        text="TLC checks exhaustively (2-3 handles, contents <= 2-3 bytes, scaled allocation granularity, every call with every "
             "offset/length, shared/immutable/no-copy flags) that the share/detach design (buffer records + alias sets, mirroring "
             "buffer_alloc.c and its callers) implements independent value-semantics vectors and never writes shared or immutable "
             "storage in place; every transition of the model's control skeleton is replayed into the real C API (array, buffer, "
             "slice calls; allocator compiled at the scaled granularity) and into the C++ wrappers, reading back content, length "
             "and type of EVERY handle after every call; seeded call histories over 4 handles at the production granularity "
             "(lengths around 63/64/65/191/192/193) recorded from the real code are validated by TLC against the same specification.",
        note="Trusted: TLC, drv/cowarray.c and drv/cowarray_cxx.cpp (projection only), bounded model. Memory safety is observed "
             "by ASan on each executed call, not proved. Capacities, pointer values and error codes are never compared.",
        technique="TLA+ spec + TLC exhaustive check; TLC-generated behaviours replayed into the C and C++ code; TLC trace validation of recorded runs",
        design="5/C04")
CFG = {
    "quick":    dict(mc="MC_CowArray.cfg",   gen="Gen_CowArray.cfg",   nhist=40,  steps=60),
    "thorough": dict(mc="MC_CowArray_t.cfg", gen="Gen_CowArray_t.cfg", nhist=300, steps=120),
}
CAP_OPS = ("bufinsert", "bufset", "slicewrite")


# --------------------------------------------------------------------------
# equality under the verdict projection (no judgement: TLC computed `exp`)
# --------------------------------------------------------------------------
def match(exp, obs):
    for k in ("vals", "lens", "typs", "frozen", "refok"):
        if k in exp and obs.get(k) != exp[k]:
            return "%s: expected %s, observed %s" % (k, json.dumps(exp[k])[:300], json.dumps(obs.get(k))[:300])
    if exp["ret"] == "any":
        return None
    if obs.get("ret") != exp["ret"]:
        return "ret: expected %s, observed %s" % (exp["ret"], obs.get("ret"))
    if obs.get("out") != exp.get("out"):
        return "out: expected %s, observed %s" % (exp.get("out"), obs.get("out"))
    return None


# arguments at the limits of size_t/long: the specification's stand-ins and the text the drivers parse
HUGE, SHUGE = 1000000, 500000
HKEYS = ("pos", "off", "n", "len", "nblk", "esz", "hl", "cap")
# allocations beyond 1 GB fail in the drivers (safety net: a wrongly accepted huge request must not eat the machine)
DRV_ENV = {"ASAN_OPTIONS": vlib.ASAN_ENV + ":max_allocation_size_mb=1024:symbolize=0"}


def symbolic(v):
    if isinstance(v, int) and not isinstance(v, bool):
        if v >= HUGE - 1000:
            return "max-%d" % (HUGE - 1 - v)
        if SHUGE <= v < SHUGE + 1000:
            return "smax+%d" % (v - (SHUGE - 1))
        if SHUGE - 1000 <= v < SHUGE:
            return "smax-%d" % (SHUGE - 1 - v)
    return v


def script(behs):
    """driver script; huge stand-in values of offset/length arguments are written symbolically"""
    out = []
    for beh in behs:
        nb = []
        for st in beh:
            arg = st.get("arg") or {}
            if any(isinstance(arg.get(k), int) and arg.get(k) >= SHUGE - 1000 for k in HKEYS):
                arg = {k: (symbolic(v) if k in HKEYS else v) for k, v in arg.items()}
                st = dict(st, arg=arg)
            nb.append(st)
        out.append(nb)
    return vlib.to_script(out)


def is_huge(arg):
    return any(isinstance(arg.get(k), int) and arg.get(k) >= SHUGE - 1000 for k in HKEYS)


def argclass(step, prev_mdl, prev_exp):
    """Discriminating condition of a call relative to the state before it (from the model's own record)."""
    a, arg = step["a"], step.get("arg") or {}
    h = arg.get("h", 1) - 1
    parts = []
    if is_huge(arg):
        hk = sorted(k for k in HKEYS if isinstance(arg.get(k), int) and arg.get(k) >= SHUGE - 1000)
        parts.append("huge-" + "+".join(hk))
    if prev_mdl and 0 <= h < len(prev_mdl["refs"]):
        used = prev_exp["lens"][h]
        size = prev_mdl["sizes"][h]
        typ = prev_exp["typs"][h]
        if typ == "none":
            parts.append("null")
        else:
            if prev_mdl["refs"][h] > 1:
                parts.append("shared")
            if prev_mdl["imm"][h]:
                parts.append("imm")
            if prev_mdl["nc"][h]:
                parts.append("nocopy")
            if typ != "raw":
                parts.append("typed")
            if used == 0:
                parts.append("empty")
        n = len(arg.get("data") or []) if "data" in arg else arg.get("n", arg.get("len", 0))
        pos = arg.get("pos", arg.get("off"))
        if a == "settyped" and pos is not None:
            e = 2 if arg.get("typ") == "n" else 1
            pos = pos * e + (used if pos < 0 else 0)
        if a == "slicewrite":
            pos = arg.get("off", 0) + arg.get("len", 0)
        if a in ("append", "printf", "string"):
            pos = used
        if n == 0:
            parts.append("n=0")
        if pos is not None:
            if pos < 0:
                parts.append("pos<0")
            elif pos > used:
                parts.append("pos>used")
            elif pos + n < used and a in ("settyped", "slice", "bufset", "slicewrite"):
                parts.append("end<used")
            if pos + n > size:
                parts.append("end>size")
        if a == "reserve" and arg.get("typ") != typ:
            parts.append("retype")
        if a == "reserve" and arg.get("len", 0) < used:
            parts.append("len<used")
    return ",".join(parts) or "plain"


def collapse(a, why, cls):
    """One signature per defect: keep only the conditions that discriminate it (computed from the failing call)."""
    parts = cls.split(",")
    hk = [x for x in parts if x.startswith("huge-")]
    if hk:
        # an argument at the limits of size_t/long: one signature per call and argument
        return "%s:%s" % (a, hk[0])
    if (a == "reserve" and why in ("vals", "lens", "rejected") and "nocopy" in parts and "retype" not in parts
            and "null" not in parts and "empty" not in parts and ("shared" in parts or "imm" in parts)):
        return "reserve:content:nocopy,same-type"
    return "%s:%s:%s" % (a, why, cls)


def signature(mm, beh):
    st = beh[mm["i"]]
    prev = beh[mm["i"] - 1] if mm["i"] else None
    why = mm["why"].split(":")[0].lower()
    return collapse(st["a"], why, argclass(st, prev and prev.get("mdl"), prev and prev.get("exp")))


def compare(behs, recs, api, matchfn=None, cap_ops=CAP_OPS):
    """Replay comparison.  Returns (mismatches, stats).  A step marked `either` that differs is only a
    mismatch when no sibling behaviour with the other permitted answer matched the same call."""
    by = vlib.group_records(recs)
    out, either_miss, either_hit = [], {}, set()
    stats = {"capacity_divergence_forgiven": 0, "diverged_on_permitted_choice": 0, "steps_compared": 0}
    for b, beh in enumerate(behs):
        rs = by.get(b, [])
        capdiv = False
        for i, st in enumerate(beh):
            if i >= len(rs):
                out.append({"b": b, "i": i, "why": "no record (driver stopped)", "rec": None})
                break
            rec = rs[i]
            if rec.get("a") in ("Crash", "Hang", "Garbled"):
                out.append({"b": b, "i": i, "why": rec["a"], "rec": rec})
                break
            exp = st["exp"]
            why = (matchfn or match)(exp, rec.get("obs") or {})
            stats["steps_compared"] += 1
            key = None
            if exp.get("either"):
                key = json.dumps([(s["a"], s.get("arg")) for s in beh[:i + 1]], sort_keys=True)
            if why:
                if key is not None:
                    either_miss.setdefault(key, {"b": b, "i": i, "why": why, "rec": rec})
                elif capdiv and st["a"] in cap_ops and why.startswith("ret"):
                    stats["capacity_divergence_forgiven"] += 1
                else:
                    out.append({"b": b, "i": i, "why": why, "rec": rec})
                break
            if key is not None:
                either_hit.add(key)
            if api in ("c", "rec", "arr") and (rec.get("dbg") or {}).get("sizes") != (st.get("mdl") or {}).get("sizes"):
                capdiv = True
    for key, mm in either_miss.items():
        if key in either_hit:
            stats["diverged_on_permitted_choice"] += 1
        else:
            mm["why"] = "neither permitted answer; " + mm["why"]
            out.append(mm)
    return out, stats


# --------------------------------------------------------------------------
# binding B: seeded call sequences (inputs only) at production constants
# --------------------------------------------------------------------------
EDGES = [0, 1, 2, 63, 64, 65, 127, 128, 129, 191, 192, 193, 255, 256, 300]


def gen_histories(ck, n, steps, nh=4):
    rng = ck.rng
    behs = []
    for _ in range(n):
        beh = [{"a": "init", "arg": {"n": nh, "gran": 0}}]
        est = [0] * nh          # rough length estimate, only to aim arguments at the boundaries
        typ = ["none"] * nh
        ctr = [0]

        def fresh(k):
            d = [((ctr[0] + i) % 250) + 1 for i in range(k)]
            ctr[0] += k
            return d

        def near(x):
            return max(0, x + rng.choice([-2, -1, 0, 0, 0, 1, 2]))

        def length(h):
            free = [e - est[h] for e in (64, 192, 320) if e >= est[h]]
            c = [0, 1, 2, 3, rng.randrange(0, 70)] + [near(f) for f in free[:2]] + [rng.choice(EDGES)]
            return min(rng.choice(c), 200)

        def position(h):
            return rng.choice([0, 0, 1, near(est[h]), near(est[h]), est[h], est[h] // 2, rng.choice(EDGES)])

        def huge(other=0):
            """offset/length at the limits: SIZE_MAX-k, LONG_MAX+-k, or a value whose sum with `other` wraps into range"""
            c = [HUGE - 1, HUGE - 2, HUGE - 1 - rng.randrange(0, 9), SHUGE - 1, SHUGE, SHUGE - 2]
            if other:
                c += [HUGE - other, HUGE - max(1, other - 1), HUGE - 1 - other]       # the sum wraps into 0..other
            return min(rng.choice(c), HUGE - 1)

        def huge_call(h):
            """one call with an argument at the limits (refused, nothing may change)"""
            hh = h + 1
            k = rng.choice([0, 1, 2, 3, max(1, est[h])])
            p = rng.choice([0, 1, est[h], near(est[h])])
            t = typ[h] if typ[h] in ("c", "n") else "c"
            e = 2 if t == "n" else 1
            return rng.choice([
                {"a": "bufcut", "arg": {"h": hh, "off": huge(k), "n": k}},
                {"a": "bufcut", "arg": {"h": hh, "off": p, "n": huge(p)}},
                {"a": "bufinsert", "arg": {"h": hh, "pos": huge(k), "data": fresh(k), "hl": 0}},
                {"a": "bufinsert", "arg": {"h": hh, "pos": p, "data": [], "hl": huge(p)}},
                {"a": "bufset", "arg": {"h": hh, "typ": typ[h] if typ[h] != "none" else "raw", "pos": huge(k), "data": fresh(k),
                                        "zero": 0, "hl": 0}},
                {"a": "bufset", "arg": {"h": hh, "typ": typ[h] if typ[h] != "none" else "raw", "pos": p, "data": [], "zero": 1,
                                        "hl": huge(p)}},
                {"a": "append", "arg": {"h": hh, "data": [], "zero": 1, "hl": huge(est[h])}},
                {"a": "insert", "arg": {"h": hh, "pos": huge(k), "data": fresh(k), "hl": 0}},
                {"a": "insert", "arg": {"h": hh, "pos": p, "data": [], "hl": huge(p)}},
                {"a": "settyped", "arg": {"h": hh, "typ": t, "data": fresh(k - k % e), "off": rng.choice([SHUGE - 1, SHUGE - 2]),
                                          "zero": 0, "hl": 0}},
                {"a": "settyped", "arg": {"h": hh, "typ": t, "data": [], "off": p // e, "zero": 1, "hl": huge(p)}},
                {"a": "slice", "arg": {"h": hh, "off": huge(k), "data": [0] * k, "fill": 0, "hl": 0}},
                {"a": "slice", "arg": {"h": hh, "off": p, "data": [], "fill": 0, "hl": huge(p)}},
                {"a": "reserve", "arg": {"h": hh, "len": huge(), "typ": typ[h] if typ[h] != "none" and rng.random() < 0.6
                                         else rng.choice(["raw", "c", "n"])}},
                {"a": "slicewrite", "arg": {"h": hh, "off": 0, "len": 0, "nblk": rng.choice([1, 2, 3]), "esz": huge(),
                                            "data": [], "zero": 1}},
            ])

        for _ in range(steps):
            h = rng.randrange(nh)
            if rng.random() < 0.08:
                beh.append(huge_call(h))
                continue
            op = rng.choice(["new", "append", "append", "insert", "settyped", "slice", "slice", "reserve", "clone", "clone",
                             "clone", "reduce", "printf", "printf", "string", "slicewrite", "slicewrite", "bufinsert",
                             "bufcut", "bufset", "drop"])
            z = rng.choice([0, 0, 0, 1])
            if op == "new":
                t = rng.choice(["raw", "raw", "c", "c", "n"])
                k = length(h)
                if t == "n":
                    k -= k % 2
                beh.append({"a": "new", "arg": {"h": h + 1, "data": fresh(k), "imm": rng.choice([0, 0, 1]),
                                               "nc": rng.choice([0, 0, 0, 1]), "typ": t}})
                if typ[h] == "none":
                    est[h], typ[h] = k, t
            elif op == "append":
                k = length(h)
                beh.append({"a": op, "arg": {"h": h + 1, "data": [0] * k if z else fresh(k), "zero": z}})
                if typ[h] in ("none", "raw"):
                    est[h] += k
                    typ[h] = "raw"
            elif op == "insert":
                k, p = length(h), position(h)
                beh.append({"a": op, "arg": {"h": h + 1, "pos": p, "data": fresh(k)}})
                est[h] = max(est[h], p) + k
                if typ[h] == "none":
                    typ[h] = "raw"
            elif op == "settyped":
                t = typ[h] if typ[h] in ("c", "n") and rng.random() < 0.8 else rng.choice(["c", "n"])
                e = 2 if t == "n" else 1
                k = length(h)
                if rng.random() < 0.9:
                    k -= k % e
                off = rng.choice([0, 0, 1, -1, -2, near(est[h] // e), est[h] // e, -(est[h] // e), -(est[h] // e) - 1])
                beh.append({"a": op, "arg": {"h": h + 1, "typ": t, "data": [0] * k if z else fresh(k), "off": off, "zero": z}})
                if typ[h] in ("none", t):
                    p = off * e + (est[h] if off < 0 else 0)
                    if p >= 0:
                        est[h] = max(est[h], p + k)
                        typ[h] = t
            elif op == "slice":
                k, p = length(h), position(h)
                f = rng.choice([0, 1, 1])
                beh.append({"a": op, "arg": {"h": h + 1, "off": p, "data": fresh(k) if f else [0] * k, "fill": f}})
                est[h] = max(est[h], p + k)
                if typ[h] == "none":
                    typ[h] = "raw"
            elif op == "reserve":
                t = typ[h] if typ[h] != "none" and rng.random() < 0.7 else rng.choice(["raw", "c", "n"])
                k = rng.choice([0, 1, near(est[h]), est[h], est[h] + 1, rng.choice(EDGES)])
                beh.append({"a": op, "arg": {"h": h + 1, "len": k, "typ": t}})
                if typ[h] != t:
                    est[h] = 0
                typ[h] = t
            elif op in ("clone", "drop"):
                g = 0 if op == "drop" else rng.choice([x for x in range(nh) if x != h]) + 1
                beh.append({"a": "clone", "arg": {"h": h + 1, "from": g}})
                if g == 0:
                    est[h], typ[h] = 0, "none"
                elif typ[h] == "none" or typ[g - 1] == "none" or typ[h] == typ[g - 1]:
                    est[h], typ[h] = est[g - 1], typ[g - 1]
            elif op == "reduce":
                beh.append({"a": op, "arg": {"h": h + 1}})
            elif op == "printf":
                k = rng.choice([0, 1, 5, 62, 63, 64, 65, 127, 128, 129, near(64 - est[h] % 64), near(192 - est[h])])
                k = max(0, min(k, 200))
                beh.append({"a": op, "arg": {"h": h + 1, "data": fresh(k)}})
                if typ[h] in ("none", "c"):
                    est[h] += k
                    typ[h] = "c"
            elif op == "string":
                beh.append({"a": op, "arg": {"h": h + 1}})
            elif op == "slicewrite":
                off = rng.choice([0, 0, 1, est[h] // 2, near(est[h])])
                off = min(off, est[h])
                ln = rng.choice([0, est[h] - off, est[h] - off, max(0, est[h] - off - 1), (est[h] - off) // 2])
                esz = rng.choice([1, 1, 2, 3, 8])
                nblk = rng.choice([0, 1, 1, 2, 3, length(h) // esz])
                k = nblk * esz
                beh.append({"a": op, "arg": {"h": h + 1, "off": off, "len": ln, "nblk": nblk, "esz": esz,
                                             "data": [0] * k if z else fresh(k), "zero": z}})
                if typ[h] in ("none", "raw"):
                    typ[h] = "raw"
                    est[h] = max(est[h], off + ln + k)
            elif op == "bufinsert":
                k, p = length(h), position(h)
                beh.append({"a": op, "arg": {"h": h + 1, "pos": p, "data": fresh(k)}})
            elif op == "bufcut":
                p = position(h)
                k = rng.choice([0, 0, 1, 2, max(0, est[h] - p), max(0, est[h] - p) + 1, est[h], est[h] + 1])
                beh.append({"a": op, "arg": {"h": h + 1, "off": p, "n": k}})
            elif op == "bufset":
                k, p = length(h), position(h)
                t = typ[h] if typ[h] != "none" and rng.random() < 0.85 else rng.choice(["raw", "c", "n"])
                beh.append({"a": op, "arg": {"h": h + 1, "typ": t, "pos": p, "data": [0] * k if z else fresh(k), "zero": z}})
        behs.append(beh)
    return behs


def nontrivial(recs):
    """a call changed one handle's content while another live handle shared its buffer just before."""
    prev = None
    for r in recs:
        d, o = r.get("dbg"), r.get("obs")
        if prev and d and o and prev.get("obs") and prev.get("dbg"):
            pv, cv = prev["obs"].get("vals"), o.get("vals")
            refs = prev["dbg"].get("refs") or []
            if pv and cv and len(pv) == len(cv):
                for h in range(len(cv)):
                    if cv[h] != pv[h] and h < len(refs) and refs[h] > 1:
                        return True
        prev = r
    return False


def seq_key(beh):
    return json.dumps([(s["a"], s.get("arg")) for s in beh], sort_keys=True)


def build_seam():
    """drv/alloc_seam.c (the repository's buffer_alloc.c) compiled as C for the C++ drivers."""
    import os
    import subprocess
    odir = vlib.ensure(os.path.join(vlib.WORK, "drv-" + vlib.repo_key()))
    obj = os.path.join(odir, "alloc_seam.o")
    cmd = ["clang"] + vlib.SAN_FLAGS.split() + ["-c", "-I" + vlib.DRV] + ["-I" + os.path.join(vlib.REPO, i) for i in vlib.INCLUDES]
    cmd += [os.path.join(vlib.DRV, "alloc_seam.c"), "-o", obj + ".tmp%d" % os.getpid()]
    r = subprocess.run(cmd, stdout=subprocess.PIPE, stderr=subprocess.STDOUT, text=True)
    if r.returncode:
        raise vlib.MachineryError("seam build failed:\n" + r.stdout[-3000:])
    os.replace(obj + ".tmp%d" % os.getpid(), obj)
    return obj


_BUILT = {}


def build(api):
    """driver executable for a binding (built once per process; call before starting threads)"""
    key = "c" if api == "c" else "cxx"
    if key not in _BUILT:
        if key == "c":
            _BUILT[key] = vlib.build_driver("cowarray", ["cowarray.c"])
        else:
            _BUILT[key] = vlib.build_driver("cowarray_cxx", ["cowarray_cxx.cpp", build_seam()], libs=("mptcore", "mpt++"), cxx=True)
    return _BUILT[key]


def do_replay(api, gencfg, module="Gen_CowArray"):
    """TLC behaviour export + replay + comparison (no bookkeeping on the Check: thread safe)."""
    gen = vlib.tlc(module, gencfg, workers=4, tag="%s-%s" % (module, api))
    if gen.error or gen.violation:
        raise vlib.MachineryError("behaviour export failed (%s): %s %s" % (gencfg, gen.error, gen.violation or ""))
    behs = vlib.parse_behaviours(gen.out)
    gen.out = ""
    exe = build(api)
    recs, _ = vlib.run_driver(exe, script(behs), timeout=1500, env=DRV_ENV)
    mms, stats = compare(behs, recs, api)
    found = []
    for mm in mms:
        beh = behs[mm["b"]]
        found.append((("" if api == "c" else api + ":") + signature(mm, beh),
                      {"binding": "A(replay,%s)" % api, "api": api, "behaviour": beh[:mm["i"] + 1], "step": mm["i"],
                       "why": mm["why"], "record": mm["rec"]}))
    by = vlib.group_records(recs)
    nt = set()
    for b, beh in enumerate(behs):
        if nontrivial(by.get(b, [])):
            nt.add(api + seq_key(beh))
    note = dict(behaviours=len(behs), mismatches=len(mms), skeleton_states=gen.distinct, transitions=gen.generated, **stats)
    mid = len(behs) // 2
    return dict(api=api, found=found, nt=nt, note=note, samples=[vlib.sample_repr(b) for b in behs[mid:mid + 1]])


def run_replay(ck, api, gencfg, module="Gen_CowArray"):
    """single threaded variant used by development scripts"""
    r = do_replay(api, gencfg, module)
    absorb(ck, r)
    return r["samples"], r["nt"]


def absorb(ck, r):
    for sig, detail in r["found"]:
        ck.violation(sig, detail)
    ck.cov["evaluations"] += r["note"]["behaviours"]
    ck.cov["transitions"] += r["note"]["transitions"]
    ck.notes.setdefault("replay", {})[r["api"]] = r["note"]


XAPIS = ("xarr", "xtyped", "xunique", "xptr", "xmap")


def do_trace(ck, cfg):
    exe = build("c")
    hist = gen_histories(ck, cfg["nhist"], cfg["steps"])
    recs2, _ = vlib.run_driver(exe, script(hist), env=DRV_ENV)
    events = vlib.merge_trace(hist, recs2)
    return hist, recs2, events


def run(tier):
    from concurrent.futures import ThreadPoolExecutor
    cfg = CFG[tier]
    ck = vlib.Check(PID, tier)
    sfx = "_t" if tier == "thorough" else ""
    build("c")
    build("xarr")
    hist, recs2, events = do_trace(ck, cfg)     # uses ck.rng: before the threads start
    with ThreadPoolExecutor(max_workers=4) as ex:
        # 1. the share/detach design implements independent vectors for all histories in the bound
        mcs = [("exhaustive " + cfg["mc"], ex.submit(vlib.tlc, "MC_CowArray", cfg["mc"], 8, tag="MC_CowArray_c"))]
        if tier == "thorough":
            mcs.append(("exhaustive MC_CowArray_t3.cfg (three handles)",
                        ex.submit(vlib.tlc, "MC_CowArray", "MC_CowArray_t3.cfg", 8, tag="MC_CowArray_t3")))
            for a in XAPIS:
                mcs.append(("exhaustive MC_CowArray_%s.cfg" % a,
                            ex.submit(vlib.tlc, "MC_CowArray", "MC_CowArray_%s.cfg" % a, 4, tag="MC_CowArray_" + a)))
        # 2. binding A: every transition of the control skeleton replayed into the C API and the C++ wrappers
        reps = [ex.submit(do_replay, "c", cfg["gen"])]
        reps += [ex.submit(do_replay, a, "Gen_CowArray_%s%s.cfg" % (a, sfx)) for a in XAPIS]
        results = [f.result() for f in reps]
        mcres = [(w, f.result()) for w, f in mcs]
    for what, res in mcres:
        ck.add_tlc(res, what)
    nt = set()
    samples = []
    for r in results:
        absorb(ck, r)
        nt |= r["nt"]
        samples += r["samples"]

    # 3. binding B: recorded executions at production constants validated by TLC
    ok, matched, ngen, cuts = validate_traces(ck, hist, events)
    ck.cov["transitions"] += ngen
    ck.notes["trace_behaviours_cut_at_known_finding"] = cuts
    by2 = vlib.group_records(recs2)
    for b, beh in enumerate(hist):
        if nontrivial(by2.get(b, [])):
            nt.add("t" + seq_key(beh))
    ck.cov["traces_validated_against_impl"] = len(hist) if ok else 0
    ck.cov["evaluations"] += len(hist)
    ck.notes["trace_events"] = len(events)
    ck.notes["trace_events_matched"] = matched
    ck.cov["distinct_nontrivial"] = len(nt)
    ck.cov["exhaustive"] = True
    ck.cov["rule"] = ("A: one behaviour per transition of the TLC state graph of CowArray under the view (handle 1: used, capacity, "
                      "immutable, no-copy, type, has-terminator; other handles: type, shares-with-1) with every call and every "
                      "offset/length 0..MaxArg, for the C API and for each C++ wrapper class (array/slice, typed_array, "
                      "unique_array, pointer_array, map), replayed into the real code; B: seeded call histories over 4 handles at "
                      "the production granularity recorded from the real C code and validated by TLC.  Non-trivial = some call "
                      "changed the content read through a handle whose buffer was shared (reference count > 1, logged by the "
                      "driver) just before the call; distinct by binding + call sequence.")
    ck.cov["samples"] = samples[:4] + [hist[0][:8]]
    ck.assumptions = ["TLC/SANY and the CommunityModules Json/IOUtils are correct",
                      "drv/cowarray.c and drv/cowarray_cxx.cpp project the state without judgement (copy bytes, map return codes "
                      "to ok/refused, write the caller's data through returned pointers as a caller would)",
                      "buffer_alloc.c compiled into the drivers at a scaled granularity is the allocator that ships",
                      "no access outside a buffer is observed (ASan) on every executed call, not proved",
                      "the exhaustive model is bounded (see MC cfg); beyond it coverage is by the seeded histories"]
    # extension X23: mapped buffers, bitmaps, array holders (checks/x23_mapbuf.py, docs/X23_mapbuf.md)
    import x23_mapbuf
    if x23_mapbuf.enabled():
        x23_mapbuf.run_part(ck, tier)
    return ck.finish()


def event_sig(hist, events, k):
    ev = events[k]
    prev = events[k - 1] if k and events[k - 1]["b"] == ev["b"] else None
    why = ev["a"] if ev["a"] in ("Crash", "Hang", "Missing") else "rejected"
    st = hist[ev["b"]][ev["i"]]
    return collapse(st["a"], why.lower(), trace_class(st, prev)), prev


def validate_traces(ck, hist, events, module="Trace_CowArray", cfg=None, sigfn=None, tag=None, extra=None):
    """TLC validates the recorded events.  An event rejected with the signature of an open known finding cuts its
    behaviour there (the real state has diverged); once TLC has confirmed a finding, other behaviours are cut at their
    first call of the same class, and validation is repeated on the rest."""
    total_gen, cuts = 0, 0
    # open findings that the replay binding reproduced in this run are confirmed: cut at their first call right away
    confirmed = set(ck.known_hit.keys())
    if confirmed:
        drop = {}
        for k, e in enumerate(events):
            if e["b"] in drop or "obs" not in e:
                continue
            if (sigfn or event_sig)(hist, events, k)[0] in confirmed:
                drop[e["b"]] = e["i"]
        cuts += len(drop)
        events = [e for e in events if e["b"] not in drop or e["i"] < drop[e["b"]]]
    for _ in range(30):
        ok, matched, tres = vlib.validate_trace(module, events, cfg=cfg, tag=tag or module, xss="1g")
        total_gen += tres.generated
        if ok:
            return True, matched, total_gen, cuts
        ok2, matched2, _ = vlib.validate_trace(module, events, cfg=cfg, tag=tag or module, xss="1g")
        if ok2 or matched2 != matched:
            continue     # not reproducible: validate again
        if matched >= len(events):
            ck.violation("trace:short", {"binding": "B(trace validation)", "matched_prefix": matched})
            return False, matched, total_gen, cuts
        ev = events[matched]
        sig, prev = (sigfn or event_sig)(hist, events, matched)
        detail = {"binding": "B(trace validation)", "matched_prefix": matched, "rejected_event": ev,
                  "previous_event": prev, "behaviour": hist[ev["b"]][:ev["i"] + 1]}
        detail.update(extra or {})
        if ck.violation(sig, detail):
            return False, matched, total_gen, cuts
        confirmed.add(sig)
        # cut this behaviour at the rejected event, others at their first event of a confirmed class
        drop = {ev["b"]: ev["i"]}
        for k, e in enumerate(events):
            if e["b"] in drop or "obs" not in e:
                continue
            if (sigfn or event_sig)(hist, events, k)[0] in confirmed:
                drop[e["b"]] = e["i"]
        cuts += len(drop)
        events = [e for e in events if e["b"] not in drop or e["i"] < drop[e["b"]]]
    raise vlib.MachineryError("trace validation did not settle after 30 rounds")


def trace_class(st, prev):
    """argument class of a rejected trace event from the previous event's log (inputs + logged sizes only)."""
    arg = st.get("arg") or {}
    h = arg.get("h", 1) - 1
    if not prev or "obs" not in prev or "dbg" not in prev:
        return "first"
    pm = {"sizes": prev["dbg"]["sizes"], "refs": prev["dbg"]["refs"],
          "imm": [f & 1 for f in prev["dbg"]["flags"]], "nc": [f & 2 for f in prev["dbg"]["flags"]]}
    return argclass(st, pm, prev["obs"])


def replay(path):
    d = json.load(open(path))
    det = d["detail"]
    if det.get("part") == "x23_mapbuf":
        import x23_mapbuf
        return x23_mapbuf.replay(det, path)
    beh = det.get("behaviour")
    if not beh:
        print(json.dumps(det, indent=1)[:4000])
        return 2
    api = det.get("api", "c")
    exe = build(api)
    recs, err = vlib.run_driver(exe, script([beh]), env=DRV_ENV)
    if all("exp" in s for s in beh):
        mms, _ = compare([beh], recs, api)
        for mm in mms:
            print("VIOLATION property=%s replay=%s  (%s: %s)" % (PID, path, signature(mm, beh), mm["why"]))
        return 1 if mms else 0
    events = vlib.merge_trace([beh], recs)
    ok, matched, _ = vlib.validate_trace("Trace_CowArray", events, tag="Trace_CowArray_replay", xss="1g")
    if not ok:
        print("VIOLATION property=%s replay=%s  (trace rejected at event %d: %s)" %
              (PID, path, matched, json.dumps(events[matched])[:600] if matched < len(events) else "-"))
    return 0 if ok else 1
