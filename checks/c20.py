"""C20 -- layout object properties round-trip and do not interfere (spec/Layout.tla)."""
import concurrent.futures
import json
import os
import re
import threading
import vlib
import vseam

PID = "C20"
MANIFEST = dict(
        spec="Layout.tla (+LayoutNames, MC_Layout, Gen_Layout, Trace_Layout)",
        text="Per object kind (axis, line, text, graph, world) the specification carries the property table (listed name, accepted "
             "set-names/aliases, minimum prefix length of reads, value domain, default) transcribed from mptplot/layout/*_property.c and "
             "the meaning of values (numeric text in several styles, typed values, colour names and #hex text, letter codes, strings "
             "as run-length lists).  TLC checks exhaustively for all sequences of up to 2 (quick) / 3 (thorough) operations over every "
             "property x value class x spelling that the struct-shaped design reads back what a value denotes, that nothing but the "
             "target changes, that refusals change nothing, that reset gives the documented default, that a generic copy is equal and "
             "shares no string storage, and that printed colour text parses back to the same colour.  Every transition of the "
             "control skeleton (which properties of the two objects are non-default) is then replayed into the real C objects behind "
             "the object interface (mpt_object_set_string, mpt_object_set_value, set_property) and ALL properties of both objects are "
             "read back through property() after every step and compared with the expectation computed by TLC; seeded random "
             "set/reset/copy/scribble histories with values across and beyond each field's range and strings up to 70000 bytes are "
             "recorded from the real code and validated by TLC against the same specification (also through the C++ wrappers).",
        note="Trusted: TLC, the drivers (projection only), the transcribed tables.  Floating point values are restricted to exactly "
             "representable ones (halves, float-exact); overflow of real text to infinity and trailing garbage after a number are "
             "outside the statement as read here (conversion policy).  String ownership is observed (pointer comparison between the "
             "two objects, overwriting/ending the source, ASan), not proved.",
        technique="TLA+ spec + TLC exhaustive check; TLC-generated behaviours replayed into the C code; TLC trace validation of recorded runs",
        design="5/C20")

CFG = {
    "quick":    dict(mc="MC_Layout.cfg",   gen="Gen_Layout.cfg",   nhist=60,  steps=40),
    "thorough": dict(mc="MC_Layout_t.cfg", gen="Gen_Layout_t.cfg", nhist=400, steps=60),
}
LIBS = ("mptcore", "mptplot")


_LOCK = threading.Lock()


def viol(ck, sig, detail):
    """two drivers are judged side by side: serialise the bookkeeping"""
    with _LOCK:
        return ck.violation(sig, detail)


def match(exp, obs, step, rec, prev):
    """Verdict projection.  A step with an injected allocation failure (arg.fail = k): not judged when the call
    never got to its k-th allocation (the sweep ends there; the call is the ordinary one, replayed as such);
    otherwise the refusal for lack of memory the specification gives, or the call's ordinary outcome."""
    if (step.get("arg") or {}).get("fail"):
        if not obs.get("fired"):
            return None
        why = match1(exp, obs)
        if why and step.get("alt") is not None and match1(step["alt"], obs) is None:
            return None
        return why
    return match1(exp, obs)


def match1(exp, obs):
    """answer class, every property of both objects, shared string storage (+ lost / twice released blocks)"""
    for k in ("ret", "cname", "val", "col", "la", "txt", "shared", "leak", "badfree"):
        if k in exp and exp[k] != "any" and obs.get(k) != exp[k]:
            return "%s: expected %s, observed %s" % (k, json.dumps(exp[k])[:200], json.dumps(obs.get(k))[:200])
    for pk in ("p0", "p1"):
        if pk not in exp:
            continue
        e, o = exp[pk], obs.get(pk) or {}
        for name in e:
            if o.get(name) != e[name]:
                return "%s.%s: expected %s, observed %s" % (pk, name, short(e[name]), short(o.get(name)))
        for name in o:
            if name not in e:
                return "%s.%s: unexpected property" % (pk, name)
    return None


def short(v):
    s = json.dumps(v)
    return s if len(s) < 120 else s[:117] + "..."


def name_of(arg):
    n = arg.get("name")
    if isinstance(n, list):
        return "".join(chr(c) for c in n)
    return str(n)


def signature(mm, kind):
    """Specific signature: kind, action, target property, value form, what differed."""
    st = mm["step"]
    a, arg = st["a"], st.get("arg") or {}
    why = mm["why"]
    what = why.split(":")[0] if why not in ("Crash", "Hang") else why.lower()
    parts = [kind, a]
    if a in ("set", "reset", "get"):
        parts.append(name_of(arg).lower())
    if a in ("set", "auto"):
        parts.append("f=" + str(arg.get("f")))
    if a == "sset":
        parts.append("m=" + str(arg.get("m")))
    if a == "copy":
        parts.append("mode=%s%s" % (arg.get("mode"), ":self" if arg.get("o") == arg.get("from") else ""))
        if arg.get("mode") == "props" and arg.get("o") != arg.get("from"):
            rec = mm.get("rec") or st
            if kind == "text" and src_pos_outside_unit(rec, arg.get("from")):
                parts.append("src-xy-outside-0..1")
            if nul_char_over_set_char(rec, mm.get("prev"), arg.get("from"), arg.get("o")):
                parts.append("src-char-nul")
    if a in ("copy", "scribble", "fini"):
        what = "differs" if what.startswith("p0") or what.startswith("p1") else what
    if arg.get("fail"):
        parts.append("nomem")
    parts.append(what)
    return ":".join(parts)


def src_pos_outside_unit(rec, frm):
    """the source text of a property-wise copy has x or y outside [0,1] (set through "x"/"y", which have no range)"""
    p = ((rec.get("obs") or {}).get("p%d" % (frm or 0)) or {}).get("pos") or []
    if len(p) != 6:
        return False
    for k in (0, 3):
        if p[k] != 0:
            return True                   # not an exact half at all
        v2 = p[k + 1] * 65536 + p[k + 2]
        if v2 < 0 or v2 > 2:
            return True
    return False


def nul_char_over_set_char(rec, prev, frm, to):
    """property-wise copy where the source holds NUL in a character property (axis lpos/tpos, graph grid/lpos)
    that was set to a character in the target before the call"""
    src = (rec.get("obs") or {}).get("p%d" % (frm or 0)) or {}
    dst = ((prev or {}).get("obs") or {}).get("p%d" % (to or 0)) or {}
    return any(src.get(k) == [0] and dst.get(k) not in (None, [0]) for k in ("lpos", "tpos", "grid"))


def kind_of(beh):
    return (beh[0].get("arg") or {}).get("kind", "?")


def nontrivial(beh, recs):
    """at least one property of object 0 was observed to change and the history has a later step after it"""
    last = None
    for i, r in enumerate(recs):
        p = (r.get("obs") or {}).get("p0")
        if p is None:
            continue
        if last is not None and p != last and i + 1 < len(recs):
            return True
        last = p
    return False


# --------------------------------------------------------------------------
# binding B: seeded call histories (inputs only -- TLC judges the recorded runs)
# --------------------------------------------------------------------------
NAMES = {   # spellings offered per kind: listed names, aliases, case variants, prefixes, foreign names
    "axis": ["title", "begin", "end", "tlen", "exponent", "exp", "intervals", "intv", "int", "subtick", "sub", "decimals", "dec",
             "lpos", "labelpos", "label position", "tpos", "titlepos", "title position", "TITLE", "Begin", "Exp", "INTERVALS",
             "tit", "beg", "expo", "t", "ti", "su", "color", "bogus", "titleX", "en"],
    "line": ["color", "x1", "x2", "y1", "y2", "width", "style", "symbol", "size", "COLOR", "X1", "Y2", "Width", "STYLE", "col",
             "wid", "x", "bogus", "title", "sizes"],
    "text": ["color", "pos", "size", "align", "angle", "value", "font", "x", "y", "COLOR", "Pos", "SIZE", "X", "Y", "Value", "FONT",
             "col", "ali", "ang", "bogus", "title", "po"],
    "graph": ["axes", "worlds", "foreground", "fg", "background", "bg", "pos", "position", "scale", "grid", "type", "gridtype",
              "align", "alignment", "clip", "clipping", "lpos", "FG", "Foreground", "BACKGROUND", "POS", "Position", "Scale",
              "GridType", "Alignment", "Clipping", "LPOS", "Axes", "fo", "ba", "po", "sc", "gr", "al", "cl", "lp", "ax", "wo",
              "a", "fore", "bogus", "title"],
    "world": ["color", "colour", "cycles", "cyc", "width", "style", "symbol", "sym", "size", "alias", "COLOR", "Colour", "CYCLES",
              "Cyc", "Width", "Sym", "ALIAS", "col", "cycl", "wid", "sty", "symb", "siz", "ali", "co", "s", "bogus", "title"],
}
SETNAMES = {   # lower-case spellings to prefer for set calls (input weighting only; TLC decides what they resolve to)
    "axis": {"title", "begin", "end", "tlen", "exponent", "exp", "intervals", "intv", "int", "subtick", "sub", "decimals", "dec",
             "lpos", "labelpos", "label position", "tpos", "titlepos", "title position"},
    "line": {"color", "x1", "x2", "y1", "y2", "width", "style", "symbol", "size"},
    "text": {"color", "pos", "size", "align", "angle", "value", "font", "x", "y"},
    "graph": {"axes", "worlds", "foreground", "fg", "background", "bg", "pos", "position", "scale", "grid", "type", "gridtype",
              "align", "alignment", "clip", "clipping", "lpos"},
    "world": {"color", "colour", "cycles", "cyc", "width", "style", "symbol", "sym", "size", "alias"},
}
WORDS = ["abc", "red", "RED", "Green", "blue", "cyan", "magenta", "yellow", "white", "black", "reddish", "red x", " red", "log",
         "LOG", "Logarithmic", "lag", "#ff0000", "#FF000080", "#", "#80", "#8040", "#8", "#804", "#gg0000", "#0a1B2c", "#01020304",
         "#0102030405", "# 1", "b", "e", "z", "bez", "ZE", "eb", "bq", "bezb", "x", "y", "xy", "zx", "xyz", "yy", "xq", "X", "A",
         "r", " r", "~", "5", "", " ", "12abc", "1.5x", "0.5 0.25", "inf", "nan", "-", "+"]


def codes(s):
    return [ord(c) for c in s]


def dbl(v2):
    """doubled value -> (hi, lo) with v2 = hi*65536 + lo"""
    return [v2 // 65536, v2 % 65536]


def rand_number(rng):
    """doubled value around the boundaries of every field type, plus halves and large values"""
    base = rng.choice([0, 1, 5, 8, 10, 20, 127, 128, 255, 256, 300, 32767, 32768, 65535, 65536, 100000, 2 ** 24 - 1,
                       2 ** 31 - 1, 2 ** 31, 2 ** 32 - 1, 2 ** 32, 2 ** 32 + 5, 2 ** 40])
    v2 = 2 * (base + rng.choice([-1, 0, 0, 0, 1]))
    if rng.random() < 0.25:
        v2 = -v2 - rng.choice([0, 2])
    if rng.random() < 0.15:
        v2 += 1                                   # a half
    if rng.random() < 0.2:
        v2 = rng.choice([0, 1, 2, 3, -1, 4, 6, 14])  # 0, 0.5, 1, 1.5 ... (point ranges)
    return v2


TYPED_RANGE = {"b": (-128, 127), "y": (0, 255), "n": (-32768, 32767), "q": (0, 65535),
               "i": (-2 ** 31, 2 ** 31 - 1), "u": (0, 2 ** 32 - 1)}


def rand_string_rle(rng):
    kind = rng.random()
    if kind < 0.15:
        return []
    if kind < 0.5:
        w = rng.choice(["hello", "a b", "x", "title text", "#ff0000", "12", "log", "  lead", "Zz"])
        out = []
        for ch in w:
            if out and out[-2] == ord(ch):
                out[-1] += 1
            else:
                out += [ord(ch), 1]
        return out
    runs = rng.randrange(1, 5)
    out = []
    prev = None
    for _ in range(runs):
        ch = rng.choice([c for c in (97, 98, 120, 32, 65, 126, 48) if c != prev])
        prev = ch
        out += [ch, rng.choice([1, 2, 15, 16, 17, 255, 256, 1000, 4096, 70000])]
    return out


def rand_value(rng):
    r = rng.random()
    blank = {"n": [], "c": [], "sty": ""}
    if r < 0.30:
        v2 = rand_number(rng)
        sty = rng.choice(["dec", "dec", "dec", "sp", "plus", "hex", "flt"])
        if v2 < 0 and sty in ("plus", "hex"):
            sty = "dec"
        return dict(blank, f="num", n=dbl(v2), sty=sty)
    if r < 0.38:
        return dict(blank, f="num2", n=dbl(rand_number(rng)) + dbl(rand_number(rng)))
    if r < 0.60:
        return dict(blank, f="txt", c=codes(rng.choice(WORDS)))
    if r < 0.72:
        return dict(blank, f="rle", c=rand_string_rle(rng))
    if r < 0.86:
        t = rng.choice(["i", "i", "y", "u", "n", "b", "q", "d", "d", "f"])
        for _ in range(50):
            v2 = rand_number(rng)
            if t in TYPED_RANGE:
                lo, hi = TYPED_RANGE[t]
                if v2 % 2 == 0 and lo <= v2 // 2 <= hi:
                    break
            elif t == "f":
                if abs(v2) < 2 ** 24:
                    break
            else:
                if abs(v2) < 2 ** 45:
                    break
        else:
            v2 = 2
        return dict(blank, f=t, n=dbl(v2))
    if r < 0.92:
        return dict(blank, f="col", c=[rng.choice([0, 1, 127, 128, 255]) for _ in range(4)])
    if r < 0.97:
        pick = lambda: rng.choice([0, 1, 2, 3, -1, 4, 6, 400, 2 ** 20])
        return dict(blank, f="fpt", n=dbl(pick()) + dbl(pick()))
    if r < 0.985:
        return dict(blank, f="vec", c=rand_string_rle(rng), n=[rng.choice([0, 1, 7]), rng.choice([0, 1, 3, 40])])
    return dict(blank, f="s", c=codes(rng.choice(WORDS)))


HINT = {"title": "str", "alias": "str", "value": "str", "font": "str", "axes": "str", "worlds": "str",
        "color": "col", "colour": "col", "foreground": "col", "fg": "col", "background": "col", "bg": "col",
        "pos": "pt", "position": "pt", "scale": "pt",
        "lpos": "chr", "tpos": "chr", "labelpos": "chr", "titlepos": "chr", "label position": "chr", "title position": "chr",
        "grid": "chr", "type": "chr", "gridtype": "chr"}
COLWORDS = [w for w in WORDS if w[:1] == "#" or w.lower().strip() in ("red", "green", "blue", "cyan", "magenta", "yellow", "white", "black", "reddish")]


def fitting_value(rng, name):
    """input weighting only: a value form that suits the kind of property the name suggests"""
    h = HINT.get(name.lower(), "num")
    blank = {"n": [], "c": [], "sty": ""}
    if h == "str":
        if rng.random() < 0.3:     # the same bytes as a span of a longer buffer (character vector source)
            return dict(blank, f="vec", c=rand_string_rle(rng), n=[rng.choice([0, 0, 1, 7]), rng.choice([0, 1, 3, 40])])
        return dict(blank, f="rle", c=rand_string_rle(rng))
    if h == "col":
        if rng.random() < 0.3:
            return dict(blank, f="col", c=[rng.choice([0, 1, 127, 128, 255]) for _ in range(4)])
        return dict(blank, f="txt", c=codes(rng.choice(COLWORDS)))
    if h == "pt":
        pick = lambda: rng.choice([0, 1, 2, 3, -1, 4, 6, 400])
        r = rng.random()
        if r < 0.4:
            return dict(blank, f="num", n=dbl(pick()), sty="dec")
        if r < 0.75:
            return dict(blank, f="num2", n=dbl(pick()) + dbl(pick()))
        return dict(blank, f="fpt", n=dbl(pick()) + dbl(pick()))
    if h == "chr":
        return dict(blank, f="txt", c=codes(rng.choice(["A", "r", " r", "~", "5", "b", "x", "Zz", "left"])))
    for _ in range(20):
        v = rand_value(rng)
        if v["f"] in ("num", "i", "y", "u", "n", "d", "f") or (name.lower() in ("align", "alignment", "clip", "clipping", "intervals", "intv", "int") and v["f"] == "txt"):
            return v
    return v


def gen_histories(ck, n, steps, cxx=False):
    rng = ck.rng
    hist = []
    kinds = ["axis", "line", "text", "graph", "world"]
    for h in range(n):
        kind = kinds[h % 5]
        names = NAMES[kind]
        # spellings mpt_<kind>_set knows come first in each list (up to the first upper-case variant + those)
        known = [n for n in names if n.lower() in SETNAMES[kind]]
        # open finding "text x/y outside [0,1] cannot be transferred property-wise": keep the recorded C++ histories out
        # of that condition while it is listed (binding A still meets it), so the rest of them is validated
        unit_xy = cxx and kind == "text" and any("src-xy-outside-0..1" in f.get("signature", "") for f in ck.findings)
        beh = [{"a": "init", "arg": {"kind": kind}}]
        for _ in range(steps):
            r = rng.random()
            o = 0 if rng.random() < 0.75 else 1
            fail = {} if cxx or rng.random() > 0.15 else {"fail": rng.choice([1, 1, 1, 2, 2, 3])}
            if r < 0.55:
                nm = rng.choice(known) if rng.random() < 0.85 else rng.choice(names)
                v = fitting_value(rng, nm) if rng.random() < 0.6 else rand_value(rng)
                if unit_xy and nm.lower() in ("x", "y"):
                    v = {"f": "num", "n": dbl(rng.choice([0, 1, 2])), "c": [], "sty": "dec"}
                if v["f"] in ("num", "txt", "rle") and rng.random() < 0.2:
                    v["f"] = "p" + v["f"]              # same text through mpt_object_set_property
                if fail and rng.random() < 0.7:     # where storage is needed
                    strn = [n for n in known if HINT.get(n.lower()) == "str"]
                    if strn:
                        nm = rng.choice(strn)
                        v = fitting_value(rng, nm)
                beh.append({"a": "set", "arg": dict(dict({"o": o, "name": codes(nm)}, **v), **fail)})
            elif r < 0.65:
                beh.append({"a": "reset", "arg": {"o": o, "name": codes(rng.choice(names)), "f": rng.choice(["null", "null", "pnull"]), **fail}})
            elif r < 0.75:
                beh.append({"a": "get", "arg": {"o": o, "name": codes(rng.choice(names))}})
            elif r < 0.84:
                frm = rng.choice([1 - o, 1 - o, 1 - o, o])
                modes = ["null", "empty", "clone", "props"] if cxx else ["null", "empty"]
                beh.append({"a": "copy", "arg": dict({"o": o, "from": frm, "mode": rng.choice(modes)}, **fail)})
            elif r < 0.89:
                beh.append({"a": "scribble", "arg": {"o": o}})
            elif r < 0.92:
                beh.append({"a": "fini", "arg": {"o": o}})
            elif r < 0.96:
                v = dict({"n": [], "c": [], "sty": ""})
                if rng.random() < 0.6:
                    c = rand_string_rle(rng)
                    if not c:
                        c = [104, 1]
                    v.update(f="rle", c=c)
                else:
                    v.update(f="col", c=[rng.choice([0, 1, 127, 128, 255]) for _ in range(4)])
                beh.append({"a": "auto", "arg": dict(dict({"o": o}, **v), **fail)})
            else:
                w = rng.choice(WORDS + ["#" + "".join(rng.choice("0123456789abcdefABCDEFg") for _ in range(rng.choice([2, 4, 6, 6, 8, 8, 3, 10])))])
                q = rng.random()
                pick = lambda: rng.choice([-300, -1, 0, 1, 5, 6, 8, 9, 10, 11, 20, 21, 255, 256, 70000])
                if not cxx and q < 0.15:
                    beh.append({"a": "cset", "arg": {"r": pick(), "g": pick(), "b": pick()}})
                elif not cxx and q < 0.25:
                    beh.append({"a": "calpha", "arg": {"v": pick()}})
                elif not cxx and q < 0.45:
                    beh.append({"a": "lset", "arg": {"w": pick(), "st": pick(), "sy": pick(), "sz": pick()}})
                elif not cxx and q < 0.7:
                    c = rand_string_rle(rng)
                    tot = sum(c[1::2])
                    m = rng.choice(["new", "new", "self", "tail"])
                    n = rng.choice([-1, 0, 1, tot // 2, tot, tot + 1]) if m == "new" else rng.choice([0, 1, 2, 5, 300])
                    beh.append({"a": "sset", "arg": dict({"o": o, "m": m, "c": c if m == "new" else [], "n": n}, **fail)})
                elif cxx and q < 0.4:
                    beh.append({"a": "cprint", "arg": {"c": [rng.choice([0, 1, 9, 10, 15, 16, 127, 128, 171, 254, 255]) for _ in range(4)]}})
                else:
                    beh.append({"a": "cparse", "arg": {"c": codes(w)}})
        hist.append(beh)
    return hist


def trace_part(ck, hist, recs2, tag, nt, pfx="", max_rounds=12):
    """TLC validates the recorded histories; a rejected history is reported, dropped and the rest validated again."""
    events = vlib.merge_trace(hist, recs2)
    total = len(events)
    bad = set()
    matched_total = 0
    for n, ev in enumerate(events):       # faults need no TLC run: report and leave the history out
        if ev["a"] in ("Crash", "Hang", "Missing"):
            beh = hist[ev["b"]]
            stp = dict(ev)
            stp["a"] = beh[ev["i"]]["a"]
            viol(ck, pfx + "trace:" + signature({"step": stp, "why": ev["a"], "rec": ev}, kind_of(beh)),
                         {"binding": "B(trace validation) " + tag, "rejected_event": ev, "behaviour": beh[:ev["i"] + 1],
                          "trace": True, "driver": pfx})
            bad.add(ev["b"])
    for rnd in range(max_rounds):
        evs = [e for e in events if e["b"] not in bad]
        if not evs:
            break
        ok, matched, tres = vlib.validate_trace("Trace_Layout", evs, tag=tag)
        with _LOCK:
            ck.cov["transitions"] += tres.generated
        m = re.findall(r'<<"CLASSES", (\d+), (\d+), (\d+), (\d+), (\d+), (\d+)>>', tres.out)
        if m:       # TLC's own classification of the recorded set calls
            ck.notes["trace_set_classes_" + tag] = dict(zip(("ok", "refused", "either", "silent", "unknown_name", "other_calls"),
                                                            (int(x) for x in m[-1])))
        if ok:
            matched_total = matched
            break
        ok2, matched2, tres2 = vlib.validate_trace("Trace_Layout", evs, tag=tag)   # re-run once before reporting
        if ok2:
            matched_total = matched2
            break
        matched = min(matched, matched2)
        ev = evs[matched] if matched < len(evs) else None
        if not ev:
            viol(ck, "trace:short", {"binding": "B(trace validation) " + tag, "matched_prefix": matched})
            break
        beh = hist[ev["b"]]
        inv = tres2.violation if tres2.violation and "Postcondition" not in tres2.violation else None
        why = ev["a"] if ev["a"] in ("Crash", "Hang", "Missing") else ("rejected" if not inv else "invariant")
        stp = dict(ev)
        if why in ("Crash", "Hang", "Missing"):
            stp["a"] = beh[ev["i"]]["a"]
        viol(ck, pfx + "trace:" + signature({"step": stp, "why": why, "rec": ev,
                                                 "prev": evs[matched - 1] if matched and evs[matched - 1]["b"] == ev["b"] else None},
                                                kind_of(beh)),
                     {"binding": "B(trace validation) " + tag, "matched_prefix": matched, "rejected_event": ev, "tlc": inv,
                      "previous_event": evs[matched - 1] if matched else None,
                      "behaviour": beh[:ev["i"] + 1], "trace": True, "driver": pfx})
        bad.add(ev["b"])
    by2 = vlib.group_records(recs2)
    good = 0
    for b, beh in enumerate(hist):
        if b in bad:
            continue
        good += 1
        if nontrivial(beh, by2.get(b, [])):
            nt.add(json.dumps([(s["a"], s.get("arg")) for s in beh], sort_keys=True))
    with _LOCK:
        ck.cov["traces_validated_against_impl"] += good if matched_total else 0
        ck.cov["evaluations"] += len(hist)
        ck.notes["trace_events_" + tag] = total
        ck.notes["trace_events_matched_" + tag] = matched_total
        ck.notes["trace_histories_rejected_" + tag] = len(bad)


SEAM_SRC = tuple("mptplot/layout/%s.c" % n for n in ("axis_property", "line_property", "text_property", "graph_property",
                                                      "world_property", "string_set"))
MAXK = 8     # allocations per call the failure sweep follows (a set makes one, a graph/text copy two)


def build():
    """the sources that allocate for layout objects go through the allocation seam (malloc/calloc/realloc/free + strdup)"""
    return vseam.build_seam_driver("layout", ["layout.c"], SEAM_SRC, libs=LIBS, link_libs=True, defines=("strdup=vf_strdup",))


def build_cxx():
    return vlib.build_driver("layout_cxx", ["layout_cxx.cpp"], libs=LIBS + ("mpt++",), cxx=True)


CXX_ONLY_MODES = ("clone", "props")


def injected(beh):
    return any((st.get("arg") or {}).get("fail") for st in beh)


def twin_key(beh):
    """call sequence without the injection mark"""
    return json.dumps([(s["a"], {k: v for k, v in (s.get("arg") or {}).items() if k != "fail"}) for s in beh], sort_keys=True)


def fail_sweep(ck, exe, inject, plain, nt):
    """arg.fail = k for every k the call reaches: the sweep of a behaviour goes on while the injected failure fires"""
    twin = {}
    for beh in plain:
        twin[twin_key(beh)] = beh[-1].get("exp")
    todo = []
    for beh in inject:
        beh = [dict(st) for st in beh]
        beh[-1]["alt"] = twin.get(twin_key(beh))
        todo.append(beh)
    fired_total, reached = 0, {}
    for k in range(1, MAXK + 1):
        if not todo:
            break
        cur = [[dict(st, arg=dict(st["arg"], fail=k)) if (st.get("arg") or {}).get("fail") else st for st in beh] for beh in todo]
        recs = vseam.rerun_hung(exe, cur, vseam.run_parallel(exe, cur, nproc=4))
        by0 = vlib.group_records(recs)
        for mm in vlib.compare(cur, recs, match):
            beh = cur[mm["b"]]
            if mm["i"] > 0 and len(by0.get(mm["b"], [])) >= mm["i"]:
                mm["prev"] = by0[mm["b"]][mm["i"] - 1]
            clean = [{x: y for x, y in st.items() if x != "alt"} for st in beh]
            viol(ck, signature(mm, kind_of(beh)), {"binding": "A(replay, allocation failure %d)" % k, "behaviour": clean, "step": mm["i"],
                                                   "why": mm["why"], "record": mm["rec"], "driver": ""})
        nxt = []
        for b, beh in enumerate(cur):
            rs = by0.get(b, [])
            if len(rs) == len(beh) and (rs[-1].get("obs") or {}).get("fired"):
                fired_total += 1
                reached[beh[-1]["a"]] = reached.get(beh[-1]["a"], 0) + 1
                nt.add(json.dumps([(s["a"], s.get("arg")) for s in beh], sort_keys=True))
                nxt.append(todo[b])
        with _LOCK:
            ck.cov["evaluations"] += len(cur)
        todo = nxt
    with _LOCK:
        ck.notes["nomem_behaviours"] = len(inject)
        ck.notes["nomem_failures_met"] = fired_total
        ck.notes["nomem_failures_met_by_action"] = reached
        ck.notes["nomem_sweep_open_at_maxk"] = len(todo)


def c_only(beh):
    """the C driver has no clone()/object::set(object)/operator<<"""
    for st in beh:
        if st["a"] == "cprint" or (st["a"] == "copy" and (st.get("arg") or {}).get("mode") in CXX_ONLY_MODES):
            return False
    return True


DRV_ENV = {"ASAN_OPTIONS": vlib.ASAN_ENV + ":symbolize=0"}    # a fault costs milliseconds, not a symbolizer run
PROBE = 40


def faulted(rs):
    return any(r.get("a") in ("Crash", "Hang") for r in rs)


C_ONLY_ACTIONS = ("cset", "calpha", "lset", "sset")     # plain C calls, not part of the C++ driver


def cxx_able(beh):
    """(no allocation seam below libmpt++: injected failures are replayed through the C driver only)"""
    return all(st["a"] not in C_ONLY_ACTIONS for st in beh) and not injected(beh)


def replay_part(ck, exe, behs, tag, nt):
    """Replay; per kind a small probe goes first: when most of it faults (a defect on the read-back path of
    every step) the probe's mismatches are reported and the bulk of that kind is not run."""
    kinds = {}
    for beh in behs:
        kinds.setdefault(kind_of(beh), []).append(beh)
    probe, skipped = [], []
    for k, lst in kinds.items():
        probe += lst[:PROBE // 2] + lst[-(PROBE // 2):]
    precs, _ = vlib.run_driver(exe, vlib.to_script(probe), env=DRV_ENV)
    pby = vlib.group_records(precs)
    bad = {}
    for b, beh in enumerate(probe):
        k = kind_of(beh)
        bad.setdefault(k, [0, 0])
        bad[k][1] += 1
        if faulted(pby.get(b, [])):
            bad[k][0] += 1
    skipped = [k for k, (f, n) in bad.items() if 2 * f > n]
    if skipped:
        todo = [b for b in probe if kind_of(b) in skipped] + [b for b in behs if kind_of(b) not in skipped]
        ck.notes["replay_kinds_cut_after_probe_" + (tag or "c")] = skipped
    else:
        todo = behs
    recs, _ = vlib.run_driver(exe, vlib.to_script(todo), env=DRV_ENV, timeout=900)
    behs = todo
    mms = vlib.compare(behs, recs, match)
    by0 = vlib.group_records(recs)
    for mm in mms:
        beh = behs[mm["b"]]
        if mm["i"] > 0 and len(by0.get(mm["b"], [])) >= mm["i"]:
            mm["prev"] = by0[mm["b"]][mm["i"] - 1]
        viol(ck, tag + signature(mm, kind_of(beh)), {"binding": "A(replay) " + (tag or "c"), "behaviour": beh, "step": mm["i"],
                                                         "why": mm["why"], "record": mm["rec"], "driver": tag})
    for b, beh in enumerate(behs):
        if nontrivial(beh, by0.get(b, [])):
            nt.add(json.dumps([(s["a"], s.get("arg")) for s in beh], sort_keys=True))
    with _LOCK:
        ck.cov["evaluations"] += len(behs)
        ck.notes["replayed_behaviours_" + (tag or "c")] = len(behs)
        ck.notes["replay_mismatches_" + (tag or "c")] = len(mms)


def run(tier):
    cfg = CFG[tier]
    ck = vlib.Check(PID, tier)
    exe = build()
    exe_cxx = build_cxx()
    pool = concurrent.futures.ThreadPoolExecutor(max_workers=2)

    # 1. the design implements the meaning: all operation sequences within the bound (runs beside the bindings)
    mc = None
    if not os.environ.get("C20_DEV_SKIP_MC"):     # development aid only
        mc = pool.submit(vlib.tlc, "MC_Layout", cfg["mc"], workers=max(2, vlib.NCPU // 2))

    # 2. binding A: every transition of the control skeleton replayed into the real objects (C and C++)
    gen = vlib.tlc("Gen_Layout", cfg["gen"], workers=4)
    if gen.error or gen.violation:
        raise vlib.MachineryError("behaviour export failed: %s %s" % (gen.error, gen.violation))
    behs = vlib.parse_behaviours(gen.out)
    nt = set()
    fut = pool.submit(replay_part, ck, exe_cxx, [b for b in behs if cxx_able(b)], "cxx:", nt)
    plain = [b for b in behs if c_only(b) and not injected(b)]
    replay_part(ck, exe, plain, "", nt)
    fail_sweep(ck, exe, [b for b in behs if injected(b)], plain, nt)
    fut.result()

    # 3. binding B: recorded executions with values across/beyond every range validated by TLC
    hist = gen_histories(ck, cfg["nhist"], cfg["steps"], cxx=False)
    hist2 = gen_histories(ck, cfg["nhist"] // 2, cfg["steps"], cxx=True)
    recs2, _ = vlib.run_driver(exe, vlib.to_script(hist), env=DRV_ENV)
    recs3, _ = vlib.run_driver(exe_cxx, vlib.to_script(hist2), env=DRV_ENV)
    fut = pool.submit(trace_part, ck, hist2, recs3, "Trace_Layout_cxx", nt, "cxx:")
    trace_part(ck, hist, recs2, "Trace_Layout", nt, "")
    fut.result()

    if mc is not None:
        ck.add_tlc(mc.result(), "exhaustive " + cfg["mc"])
    pool.shutdown()

    ck.cov["distinct_nontrivial"] = len(nt)
    ck.cov["exhaustive"] = True
    ck.cov["rule"] = ("A: one behaviour per transition of the TLC state graph of Layout under the view (kind, step, set of "
                      "non-default properties of either object), replayed into the real objects through drv/layout.c and (all of "
                      "them, plus clone/object::set(object)/operator<<) through the C++ wrappers; B: seeded histories recorded "
                      "from both drivers and validated by TLC.  Non-trivial = a property of the target object changed and at "
                      "least one more operation followed; distinct by call sequence.")
    ck.cov["samples"] = [vlib.sample_repr(b) for b in (behs[len(behs) // 2: len(behs) // 2 + 2] + [hist[0][:6]])]
    ck.assumptions = ["TLC/SANY and the CommunityModules Json/IOUtils are correct",
                      "drv/layout.c and drv/layout_cxx.cpp project the state without judgement",
                      "the tables in Layout.tla are a faithful reading of the documented names/defaults",
                      "reals are exercised on exactly representable values only; string ownership is observed, not proved"]
    # extension X20: layout objects created from and bound through descriptions (checks/x20_tree.py, docs/X20_tree.md)
    import x20_tree
    if x20_tree.enabled():
        x20_tree.run_part(ck, tier)
    # extension X21: the generic object front doors (checks/x21_objset.py, docs/X21_objset.md)
    import x21_objset
    if x21_objset.enabled():
        x21_objset.run_part(ck, tier)
    return ck.finish()


def replay(path):
    d = json.load(open(path))
    det = d["detail"]
    if det.get("x20"):
        import x20_tree
        return x20_tree.replay(det, path)
    if det.get("x21"):
        import x21_objset
        return x21_objset.replay(det, path)
    beh = det.get("behaviour")
    if not beh:
        print(json.dumps(det, indent=1)[:4000])
        return 2
    exe = build_cxx() if det.get("driver") == "cxx:" else build()
    recs, err = vlib.run_driver(exe, vlib.to_script([beh]))
    if det.get("trace"):
        events = vlib.merge_trace([beh], recs)
        ok, matched, _ = vlib.validate_trace("Trace_Layout", events, tag="Trace_Layout_replay")
        if not ok:
            print("VIOLATION property=%s replay=%s  (trace rejected at event %d: %s)" %
                  (PID, path, matched, json.dumps(events[matched])[:400] if matched < len(events) else "-"))
        return 0 if ok else 1
    mms = vlib.compare([beh], recs, match)
    for mm in mms:
        if mm["i"] > 0 and len(recs) >= mm["i"]:
            mm["prev"] = recs[mm["i"] - 1]
        print("VIOLATION property=%s replay=%s  (%s: %s)" % (PID, path, signature(mm, kind_of(beh)), mm["why"]))
    return 1 if mms else 0
