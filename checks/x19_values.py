"""X19 (extension of C19) -- the remaining value sources and the consumers that walk them (spec/ValueFill.tla).

run_part(ck, tier) adds to the vlib.Check of C19:
  * TLC: exhaustive check of ValueFill (file-backed iterator and C++ source<T> protocol, consumers, prepare/fill,
    mpt_values_file, raw data store in both bindings, typed value stores),
  * binding A: every transition of the model replayed into drv/valuefill.c / drv/valuefill_cxx.cpp,
  * binding B: seeded longer sources, fills and store histories recorded from the real code and validated by TLC
    (Trace_ValueFill) against the meaning (exact rationals, tolerance as in C19).
Scratch files (file-backed sources) are written below /verif/_work/x19/<pid>/ and removed afterwards.
"""
import concurrent.futures
import json
import os
import shutil
import vlib

TAG = "x19"
CFG = {
    "quick":    dict(mc="MC_ValueFill.cfg", gen="Gen_ValueFill.cfg", nsrc=60, nstore=24, steps=40, nmut=60, big=600),
    "thorough": dict(mc="MC_ValueFill_t.cfg", gen="Gen_ValueFill_t.cfg", nsrc=240, nstore=120, steps=80, nmut=300, big=2500),
}
FAULTS = ("Crash", "Hang", "Garbled", "Missing")
HEXKEYS = ("desc", "pre")


def enabled():
    """The part needs its fix commits (docs/X19_values.md) in the tree under test: it is switched on by the marker file
    checks/x19_values.accepted (created when those commits are integrated) or by VERIF_X19=1, off by VERIF_X19=0."""
    env = os.environ.get("VERIF_X19")
    if env is not None:
        return env not in ("0", "")
    return os.path.exists(os.path.join(vlib.ROOT, "checks", "x19_values.accepted"))


def build():
    return {"c": vlib.build_driver("valuefill", ["valuefill.c"], libs=("mptcore", "mptplot")),
            "cxx": vlib.build_driver("valuefill_cxx", ["valuefill_cxx.cpp"], libs=("mpt++", "mptplot", "mptcore"), cxx=True)}


def scratch():
    d = vlib.ensure(os.path.join(vlib.WORK, "x19", str(os.getpid())))
    return d


def fmt(k, v):
    if k in HEXKEYS and isinstance(v, str):
        return "hex:" + v.encode().hex()
    return vlib.fmt_val(v)


def to_script(behs):
    lines = []
    for i, beh in enumerate(behs):
        lines.append("B %d" % i)
        for st in beh:
            toks = [st["a"]]
            for k, v in (st.get("arg") or {}).items():
                toks.append("%s=%s" % (k, fmt(k, v)))
            lines.append(" ".join(toks))
    return "\n".join(lines) + "\n"


def src_of(beh):
    return beh[0].get("src") or {}


def drv_of(beh):
    return src_of(beh).get("drv", "c")


def run(exes, behs, env, timeout=1200):
    """Run every behaviour with the driver its scenario names; records keep the index in behs."""
    recs = []
    for d in ("c", "cxx"):
        idx = [i for i, b in enumerate(behs) if drv_of(b) == d]
        if not idx:
            continue
        r, _ = vlib.run_driver(exes[d], to_script([behs[i] for i in idx]), env=env, timeout=timeout)
        for x in r:
            if isinstance(x.get("b"), int) and x["b"] < len(idx):
                x["b"] = idx[x["b"]]
            recs.append(x)
    return recs


def chunks_of(path, n):
    """the BEHAV lines of a TLC dump in chunks of n"""
    cur = []
    with open(path, errors="replace") as f:
        for ln in f:
            if ln.startswith('<<"BEHAV", '):
                cur.append(ln.rstrip("\n"))
                if len(cur) >= n:
                    yield cur
                    cur = []
    if cur:
        yield cur


def match(exp, obs, step=None, rec=None, prev=None):
    """equality with the design's prediction; an empty prediction of values means 'not predicted' (inexact source)"""
    for k, v in exp.items():
        if k not in obs:
            return "missing observation %r" % k
        if k in ("d", "vals", "arr", "sib", "min", "max") and v == [] and (isinstance(exp.get("ret"), list) or exp.get("ret", "value") in ("value", "ok") or k in ("arr", "sib")) and (exp.get("n", 1) != 0 or k in ("arr", "sib")):
            continue
        if obs[k] != v:
            return "%s: expected %s, observed %s" % (k, json.dumps(v)[:200], json.dumps(obs[k])[:200])
    return None


def unpredicted(beh):
    for st in beh:
        e = st.get("exp") or {}
        if (isinstance(e.get("ret"), list) or e.get("ret") in ("value", "ok", "refused")) and (e.get("n", 1) != 0 or st["a"] == "prepare"):
            if any(k in e and e[k] == [] for k in (("arr",) if st["a"] == "prepare" and e.get("n", 1) == 0 else ("vals", "arr", "min"))) and not (st["a"] == "vfile" and sum((st.get("arg") or {}).get("rows") or [0]) == 0):
                return True
            if e.get("ret") == "value" and e.get("d") == [] and (st.get("arg") or {}).get("dest", 1) == 1 and (st.get("arg") or {}).get("type", 100) != 0:
                return True
    return False


def signature(beh, i, rec, why):
    """x19:<family>/<binding>:<source kind>/<via>:<call>:<what differs> -- computed from the failing step"""
    s = src_of(beh)
    st = beh[i] if i < len(beh) else {"a": "?"}
    arg = st.get("arg") or {}
    head = "x19:%s/%s:%s/%s:%s" % (s.get("fam", "?"), s.get("drv", "?"), s.get("kind", "?"), s.get("via", "?"), st["a"])
    if st["a"] == "walk":
        head += "(%s)" % arg.get("style")
    elif st["a"] == "consumex":
        head += "(type=%s,dest=%s)" % (arg.get("type"), arg.get("dest"))
    elif st["a"] == "rdmod":
        head += "(cycle=%s,off=%s,type=%s)" % ("cur" if not arg.get("cycle") else "n", "0" if not arg.get("off") else "n", arg.get("type"))
    elif st["a"] == "vfile":
        head += "(%s,data=%s)" % (arg.get("order"), arg.get("data"))
    elif st["a"] == "copy":
        head += "(%s,lds=%s,ldd=%s)" % (arg.get("fn"), min(arg.get("lds", 1), 2), min(arg.get("ldd", 1), 2))
    if why in FAULTS:
        return "%s:%s" % (head, why.lower())
    obs = (rec or {}).get("obs") or {}
    exp = st.get("exp")
    what = "rejected"
    if exp:
        for k, v in exp.items():
            if k not in obs:
                what = "%s=missing" % k
                break
            if k in ("d", "vals", "arr", "sib", "min", "max") and v == []:
                continue
            if obs.get(k) != v:
                shown = obs.get(k)
                if isinstance(shown, list):
                    shown = "+".join(str(x) for x in shown)
                what = "%s=%s" % (k, shown if k in ("ret", "how", "n", "idx", "ns", "at") else "differs")
                break
    else:
        what = "ret=%s" % obs.get("ret")
    return "%s:%s" % (head, what)


def events_of(behs, recs):
    ev = vlib.merge_trace(behs, recs)
    for e in ev:
        st = behs[e["b"]][e["i"]]
        if "src" in st:
            e["src"] = st["src"]
        if "lines" in st:
            e["lines"] = st["lines"]
    return [e for e in ev if (e.get("obs") or {}).get("ret") != "skipped"]


def validate(ck, behs, recs, tag, what, max_rounds=3):
    """TLC decides whether the recorded runs are behaviours of the meaning; every rejected behaviour becomes a
    violation (by signature); returns the number of matched events."""
    events = events_of(behs, recs)
    total = 0
    rounds = 0
    while events and rounds < max_rounds:
        rounds += 1
        ok, matched, tres = vlib.validate_trace("Trace_ValueFill", events, tag=tag, xss="1g")
        ck.cov["transitions"] += tres.generated
        if not ok:
            ok2, matched2, _ = vlib.validate_trace("Trace_ValueFill", events, tag=tag, xss="1g")
            if ok2 or matched2 != matched:
                raise vlib.MachineryError("trace validation not reproducible (%s)" % tag)
        total += matched
        if ok:
            break
        ev = events[matched]
        b = ev["b"]
        beh = behs[b]
        why = ev["a"] if ev["a"] in FAULTS else "rejected"
        sig = signature(beh, ev["i"], {"obs": ev.get("obs")}, why)
        ck.violation(sig, {"binding": what, "x19": True, "rejected_event": ev, "step": ev["i"],
                           "behaviour": beh if len(beh) < 400 else beh[:ev["i"] + 1],
                           "records": [e for e in events if e["b"] == b][max(ev["i"] - 5, 0):ev["i"] + 1]})
        events = [e for e in events if e["b"] != b]
    return total


def nontrivial(recs):
    """at least two elements were visited / stored and an end, a refusal or a second cycle was seen"""
    n = 0
    other = False
    for r in recs:
        o = r.get("obs") or {}
        if r.get("a") == "value" and o.get("ret") == "value":
            n += 1
        n += o.get("n", 0) if isinstance(o.get("n"), int) and r.get("a") in ("walk", "rdmod", "vsset", "prepare") and o.get("n", 0) > 0 else 0
        if o.get("ret") in ("last", "end", "refused", "none", "short") or o.get("how") in ("last", "noval", "end") or o.get("idx", 0) > 0:
            other = True
    return n >= 2 and other


# --------------------------------------------------------------------------
# binding B inputs: parameters and call sequences only
# --------------------------------------------------------------------------
BASE = {"explore": False, "gets": [], "styles": ["loop"], "lim": 0, "dims": 0, "nvs": 0, "types": [], "cases": [], "maxops": 0, "mods": [], "clone": False}


def norm(x):
    from math import gcd
    g = gcd(abs(x[0]), x[1]) or 1
    return [x[0] // g, x[1] // g]


def rvals(rng, n, ints=False):
    if ints:
        return [[rng.randrange(-100, 101), 1] for _ in range(n)]
    return [norm([rng.randrange(-10 ** rng.randrange(1, 7), 10 ** rng.randrange(1, 7)), rng.choice([1, 1, 2, 4, 8, 10, 100, 1000])]) for _ in range(n)]


def rand_source(rng, c19, drv, big):
    """a source record (parameters only): file-backed, C++ template or one of C19's generators"""
    k = rng.random()
    if drv == "c" and k < 0.45:
        n = rng.choice([0, 1, 2, 3, 7, 20, 60, rng.randrange(100, big)])
        return {"kind": "file", "via": rng.choice(["file", "filename", "filename", "fd", "pipe"]), "vals": rvals(rng, n), "sep": rng.randrange(0, 4)}
    if drv == "cxx" and k < 0.6:
        t = rng.choice("dddfiixnuq")
        n = rng.choice([0, 1, 2, 3, 7, 20, rng.randrange(30, big)])
        ints = t != "d"
        vals = rvals(rng, n, ints)
        if t in "uq":
            vals = [[abs(v[0]), 1] for v in vals]
        return {"kind": "cxx", "via": "cxx", "type": t, "vals": vals, "step": rng.choice([1, 1, 1, -1, 2, -2, 3, -7])}
    while True:
        s = c19.rand_source(rng)
        if s["kind"] == "fill":
            continue
        if drv == "cxx" and (s["kind"] not in ("linear", "range", "factor", "boundary", "values") or s.get("via") not in ("desc", "api", "values")):
            continue
        return s


def consumer_calls(rng, s, drv, n):
    """a random interleaving of consumers and iterator calls on instance 1 (calls only)"""
    consumable = s["kind"] not in ("buffer", "args")
    textlike = s["kind"] == "text"
    seekable = not (s["kind"] == "file" and s.get("via") == "pipe")
    calls = []
    seen = False
    for _ in range(n):
        ops = ["walk", "walk", "value", "advance", "reset"]
        if drv == "c" and consumable:
            ops += ["walkc", "consumex", "consumex", "rangeset", "prepare"]
        if drv == "cxx":
            ops += ["walkg", "walkg", "rangeset"]
        op = rng.choice(ops)
        if op == "advance" and textlike and not seen:
            op = "value"
        if op == "walk":
            calls.append({"a": "walk", "arg": {"i": 1, "max": rng.choice([0, 0, 1, 2, 5, 17]), "style": "loop", "type": "d"}})
        elif op == "walkc":
            calls.append({"a": "walk", "arg": {"i": 1, "max": rng.choice([0, 0, 1, 3, 9]), "style": "consume", "type": "d"}})
        elif op == "walkg":
            calls.append({"a": "walk", "arg": {"i": 1, "max": rng.choice([0, 0, 1, 3, 9]), "style": "get", "type": "d"}})
        elif op == "consumex":
            ty = rng.choice([0, 100, 100, 102, 115])
            if ty == 0 and textlike and not seen:
                ty = 100          # a text element is delimited by reading it
            calls.append({"a": "consumex", "arg": {"i": 1, "type": ty, "dest": rng.choice([0, 1, 1])}})
        elif op == "rangeset":
            calls.append({"a": "rangeset", "arg": {"i": 1}})
        elif op == "prepare":
            if rng.random() < 0.25:
                calls.append({"a": "pshare", "arg": {"x": 0}})
            elif rng.random() < 0.5:
                calls.append({"a": "prepare", "arg": {"len": rng.choice([-3, -1, 0, 1, 2, 5])}})
            else:
                calls.append({"a": "prepare", "arg": {"len": rng.choice([1, 2, 4, 9]), "i": 1, "ld": rng.choice([1, 1, 2, 3])}})
        else:
            if op == "reset" and not seekable and rng.random() < 0.7:
                op = "value"
            calls.append({"a": op, "arg": {"i": 1}})
        seen = op == "value"
    return calls


def store_history(rng, drv, steps):
    """modify / advance / queries on a raw data store fed from a long source (calls only); the drivers skip a modify
    when the source is exhausted and an advance when the current cycle holds no data"""
    lim = rng.choice([0, 0, 2, 3, 5])
    dims = rng.choice([0, 0, 3]) if drv == "cxx" else 0
    a = rng.randrange(-50, 50)
    b = a + rng.choice([-1, 1]) * rng.randrange(10, 50)
    n = abs(b - a) * rng.choice([1, 2, 4])          # steps of 1, 1/2, 1/4: every element is exact as float and double
    src = dict(BASE, kind="linear", via="api", n=n, a=[a, 1], b=[b, 1], style=0,
               fam="trace", drv=drv, lim=lim, dims=dims)
    beh = [{"a": "create", "arg": {"via": "linear", "len": n + 1, "a": src["a"], "b": src["b"]}, "src": src},
           {"a": "rdnew", "arg": {"max": lim, "dims": dims}}]
    cloned = False
    for _ in range(steps):
        op = rng.choice(["mod"] * 6 + ["adv"] * 2 + ["val", "val", "dim", "count", "clone"])
        if op == "clone":
            if not cloned:
                beh.append({"a": "rdclone", "arg": {"x": 0}})
                cloned = drv == "cxx"
            elif drv == "cxx":
                beh.append({"a": "rdswap", "arg": {"x": 0}})
        elif op == "mod":
            arg = {"dim": rng.choice([0, 0, 1, 1, 2, 4]), "i": 1, "max": rng.choice([1, 1, 2, 3, 8]),
                   "type": rng.choice(["d", "d", "d", "f"]) if drv == "c" else rng.choice(["d", "d", "f"]), "scalar": 0}
            if rng.random() < 0.5:
                arg["cycle"] = rng.choice([0, 0, 1, 2, 3, 6])
                arg["off"] = rng.choice([0, 0, 1, 2, 5])
            else:
                arg["cycle"] = 0
                arg["off"] = 0
            if arg["max"] == 1 and rng.random() < 0.4:
                arg["scalar"] = 1
            beh.append({"a": "rdmod", "arg": arg})
        elif op == "adv":
            beh.append({"a": "rdadv", "arg": {"guard": 1}})
        elif op == "val":
            beh.append({"a": "rdval", "arg": {"dim": rng.choice([0, 1, 2, 5]), "cycle": rng.choice([-1, -1, 0, 1, 2, 7])}})
        elif op == "dim":
            beh.append({"a": "rddim", "arg": {"cycle": rng.choice([-1, 0, 1, 2, 7])}})
        else:
            beh.append({"a": "rdcount", "arg": {"x": 0}})
    return beh


def vstore_history(rng, steps):
    n = rng.randrange(40, 200)
    t = rng.choice("in")
    types = [t, rng.choice("df")]
    src = dict(BASE, kind="cxx", via="cxx", type=t, vals=rvals(rng, n, True), step=rng.choice([1, -1, 2]),
               fam="trace", drv="cxx", nvs=3, types=types)
    beh = [{"a": "create", "arg": {"via": "cxx", "type": t, "vals": [x for v in src["vals"] for x in v], "step": src["step"]}, "src": src},
           {"a": "vsnew", "arg": {"n": 3}}]
    for _ in range(steps):
        op = rng.choice(["set"] * 5 + ["res"] * 2 + ["max"])
        if op == "set":
            beh.append({"a": "vsset", "arg": {"col": rng.randrange(1, 4), "type": rng.choice(types), "pos": rng.choice([0, 0, 1, 2, 6]), "i": 1, "max": rng.choice([1, 2, 3, 7])}})
        elif op == "res":
            beh.append({"a": "vsres", "arg": {"col": rng.randrange(1, 4), "type": rng.choice(types), "count": rng.choice([0, 1, 2, 5, 12])}})
        else:
            beh.append({"a": "vsmax", "arg": {"type": rng.choice(types)} if rng.random() < 0.5 else {"x": 0}})
    return beh


def case_scenarios(rng, n):
    """seeded mpt_values_file / copy cases (parameters only; text and expectation come from TLC); values are exact"""
    out = []
    def dy():
        return norm([rng.randrange(-4000, 4000), rng.choice([1, 1, 2, 4, 8])])
    for k in range(n):
        cases = []
        for _ in range(6):
            cols = rng.randrange(1, 6)
            lines = [[dy() for _ in range(rng.choice([cols, cols, cols, cols + 1, cols + 2, max(cols - 1, 1)]))] for _ in range(rng.randrange(0, 7))]
            cases.append({"lines": lines, "rows": [rng.randrange(1, 5) for _ in range(rng.choice([1, 1, 2, 3]))], "cols": cols, "order": rng.choice(["row", "col"]),
                          "data": rng.choice([0, 1, 1, 1]), "nl": rng.choice([0, 1])})
        out.append(dict(BASE, kind="vfile", via="vfile", fam="vfile", drv="c", cases=cases))
        cases = []
        for _ in range(8):
            pts, lds, ldd = rng.randrange(0, 40), rng.choice([0, 1, 1, 2, 3, 5]), rng.choice([0, 1, 1, 2, 3, 5])
            cases.append({"fn": rng.choice(["64", "32", "df", "fd"]), "pts": pts, "lds": lds, "ldd": ldd,
                          "vals": [dy() for _ in range(max((pts - 1) * lds + 1, 1))]})
        out.append(dict(BASE, kind="copy", via="copy", fam="copy", drv="c" if k % 2 else "cxx", cases=cases))
    return out


MUT = ["inf", "-inf", "nan", "1e999", "x", "", " ", "\n", "\n\n", ",", "0x10", "1e", ".", "+", "-", "1.5.2", "\t", "%s", "\\", "--1", "1e-999", "#", "0x", "1,5"]


def mutate(rng, text):
    k = rng.random()
    if k < 0.3 and text:
        p = rng.randrange(len(text))
        return text[:p] + text[p + 1:]
    if k < 0.7:
        p = rng.randrange(len(text) + 1)
        return text[:p] + rng.choice(MUT) + text[p:]
    if text:
        p = rng.randrange(len(text))
        return text[:p] + rng.choice("()[]:; ,x-+e.0919\n") + text[p + 1:]
    return rng.choice(MUT)


def unknown_file(rng, carg):
    """mutated file content: walk, reset, the same walk, (clone of the reset source, the same walk)"""
    arg = dict(carg)
    arg["desc"] = mutate(rng, arg.get("desc", ""))
    if arg.get("via") == "pipe":
        arg["via"] = "fd"
    steps = rng.choice([3, 5, 9])
    walk = []
    for _ in range(steps):
        walk.append({"a": "value", "arg": {"i": 1}})
        walk.append({"a": "advance", "arg": {"i": 1}})
    walk2 = [{"a": w["a"], "arg": {"i": 2}} for w in walk]
    beh = [{"a": "create", "arg": arg, "src": dict(BASE, kind="unknown", via=arg["via"], fam="trace", drv="c")}]
    beh += walk + [{"a": "reset", "arg": {"i": 1}}] + walk + [{"a": "reset", "arg": {"i": 1}}, {"a": "clone", "arg": {"i": 1}}] + walk2
    return beh


# --------------------------------------------------------------------------
def run_part(ck, tier):
    import c19
    cfg = CFG[tier]
    exes = build()
    sdir = scratch()
    env = {"VERIF_X19_DIR": sdir}
    notes = ck.notes.setdefault("x19_values", {})
    rng = ck.rng
    try:
        # seeded scenarios for binding B (rendered and scripted by TLC)
        srcs = []
        for k in range(cfg["nsrc"]):
            drv = "c" if k % 3 else "cxx"
            s = rand_source(rng, c19, drv, cfg["big"])
            srcs.append(dict(BASE, **s, fam="walk", drv=drv))
        srcs += case_scenarios(rng, max(cfg["nsrc"] // 20, 2))
        spath = vlib.ensure(os.path.join(vlib.WORK, "traces")) + "/X19-sources-%d.ndjson" % os.getpid()
        with open(spath, "w") as f:
            for s in srcs:
                f.write(json.dumps(s) + "\n")

        pool = concurrent.futures.ThreadPoolExecutor(max_workers=3)
        fmc = pool.submit(vlib.tlc, "MC_ValueFill", cfg["mc"], workers=max(2, vlib.NCPU // 2), xss="512m", tag="MC_ValueFill_" + tier)
        fgf = pool.submit(vlib.tlc, "Gen_ValueFill", "Gen_ValueFill_f.cfg", workers=2, xss="512m", env={"SOURCES": spath}, tag="Gen_ValueFill_f")
        gpath = os.path.join(sdir, "gen.out")
        gen = vlib.tlc_to_file("Gen_ValueFill", cfg["gen"], gpath, workers=4, extra_env={"JAVA_TOOL_OPTIONS": "-Xss512m"})
        if gen.error:
            raise vlib.MachineryError("behaviour export failed: %s" % gen.error)

        vlib.log("x19: export done %.0fs" % gen.wall)
        # binding A: every transition of the model replayed (the dump is worked through in chunks: bounded memory)
        nt = set()
        per_sig = {}
        fam = {}
        nbeh = nmm = 0
        unp_behs, unp_recs = [], []
        mid_sample = None
        for lines in chunks_of(gpath, 12000):
            behs = vlib.parse_behaviours("\n".join(lines))
            recs = run(exes, behs, env)
            mms = vlib.compare(behs, recs, match)
            by = vlib.group_records(recs)
            bad = set()
            for mm in mms:
                bad.add(mm["b"])
                sig = signature(behs[mm["b"]], mm["i"], mm["rec"], mm["why"])
                per_sig[sig] = per_sig.get(sig, 0) + 1
                if per_sig[sig] <= 1:
                    ck.violation(sig, {"binding": "A(replay)", "x19": True, "behaviour": behs[mm["b"]], "step": mm["i"],
                                       "why": mm["why"], "record": mm["rec"]})
            for b, beh in enumerate(behs):
                s_ = src_of(beh)
                k = "%s/%s" % (s_.get("fam"), s_.get("drv"))
                fam[k] = fam.get(k, 0) + 1
                if nontrivial(by.get(b, [])):
                    nt.add(vlib.hashlib.md5(json.dumps([(st["a"], st.get("arg")) for st in beh], sort_keys=True).encode()).digest()[:8])
                # values the design does not predict exactly (thirds, tenths): the meaning decides within the tolerance
                if b not in bad and unpredicted(beh):
                    j = len(unp_behs)
                    unp_behs.append(beh)
                    unp_recs += [dict(r, b=j) for r in by.get(b, [])]
            if mid_sample is None and behs:
                mid_sample = vlib.sample_repr(behs[len(behs) // 2], 8)
            nbeh += len(behs)
            nmm += len(mms)
            if sum(1 for r in recs if r.get("a") == "Hang") >= 3:
                notes["replay_cut_short"] = "hangs pile up; %d behaviours replayed" % nbeh
                break
        os.unlink(gpath)
        vlib.log("x19: drivers done")
        ck.cov["evaluations"] += nbeh
        notes["behaviours_replayed"] = nbeh
        notes["behaviours_by_family"] = fam
        notes["replay_mismatches"] = nmm
        notes["replay_mismatch_kinds"] = per_sig
        if unp_behs:
            notes["tolerance_checked_behaviours"] = len(unp_behs)
            notes["tolerance_checked_events"] = validate(ck, unp_behs, unp_recs, "Trace_ValueFill-T", "A(tolerance)")
        vlib.log("x19: replayed %d behaviours, %d differ, %d with unpredicted values" % (nbeh, nmm, len(unp_behs)))
        behs = recs = by = None

        # binding B: seeded sources (script by TLC + random consumer calls), store histories, mutated files
        gf = fgf.result()
        vlib.log("x19: seeded scenarios scripted by TLC in %.0fs" % gf.wall)
        if gf.error or gf.violation:
            raise vlib.MachineryError("behaviour export (seeded sources) failed: %s %s" % (gf.error, gf.violation))
        os.unlink(spath)
        fb = vlib.parse_behaviours(gf.out)
        # function cases (mpt_values_file, copies) with seeded parameters: the expectation of TLC is compared directly
        direct = [b for b in fb if src_of(b).get("fam") in ("vfile", "copy")]
        fb = [b for b in fb if src_of(b).get("fam") not in ("vfile", "copy")]
        drecs = run(exes, direct, env)
        dmm = vlib.compare(direct, drecs, match)
        for mm in dmm:
            sig = signature(direct[mm["b"]], mm["i"], mm["rec"], mm["why"])
            ck.violation(sig, {"binding": "A(seeded cases)", "x19": True, "behaviour": direct[mm["b"]], "step": mm["i"],
                               "why": mm["why"], "record": mm["rec"]})
        notes["seeded_function_cases"] = sum(len(b) - 1 for b in direct)
        ck.cov["evaluations"] += len(direct)
        hist = []
        for beh in fb:
            hist.append(beh)
            s = src_of(beh)
            tail = consumer_calls(rng, s, s.get("drv", "c"), rng.choice([6, 12, 25]))
            hist.append([{k: v for k, v in beh[0].items() if k != "exp"}] + tail)
        for k in range(cfg["nstore"]):
            hist.append(store_history(rng, "c" if k % 2 else "cxx", cfg["steps"]))
            if k % 3 == 0:
                hist.append(vstore_history(rng, cfg["steps"]))
        creates = [beh[0] for beh in fb if src_of(beh).get("kind") == "file"]
        muts = [unknown_file(rng, rng.choice(creates)["arg"]) for _ in range(cfg["nmut"])] if creates else []
        hrecs = run(exes, hist + muts, env)
        vlib.log("x19: %d histories recorded" % (len(hist) + len(muts)))
        nev = validate(ck, hist + muts, hrecs, "Trace_ValueFill-B", "B(trace)")
        vlib.log("x19: traces validated")
        byh = vlib.group_records(hrecs)
        for b, beh in enumerate(hist):
            if nontrivial(byh.get(b, [])):
                nt.add(vlib.hashlib.md5(json.dumps([(s["a"], s.get("arg")) for s in beh], sort_keys=True).encode()).digest()[:8])
        ck.cov["traces_validated_against_impl"] += len(hist) + len(muts)
        ck.cov["evaluations"] += len(hist) + len(muts)
        ck.cov["distinct_nontrivial"] += len(nt)
        notes["trace_histories"] = {"seeded_sources": len(fb), "with_random_calls": len(fb), "store_histories": len(hist) - 2 * len(fb),
                                    "mutated_files": len(muts),
                                    "longest_source": max([len(src_of(b).get("vals") or []) for b in fb] + [0]),
                                    "calls_skipped_by_driver": sum(1 for r in hrecs if (r.get("obs") or {}).get("ret") == "skipped")}
        notes["trace_events_matched"] = nev
        notes["rule"] = ("A: one behaviour per transition of the TLC state graph of ValueFill (explored families: protocol of file / "
                         "source<T> sources, consumers on one instance, prepare, raw data store in both bindings, value stores) and one "
                         "per complete script (walk family over Iter's parameter tables and file / template sources, mpt_values_file "
                         "cases), replayed into the real code. B: seeded sources (up to some thousand values) scripted by TLC and with "
                         "random consumer calls, random store histories of %d calls, mutated file contents; all validated by TLC. "
                         "Non-trivial = at least two elements visited or stored and an end / refusal / further cycle seen." % cfg["steps"])
        ck.add_tlc(fmc.result(), "exhaustive " + cfg["mc"])
        pool.shutdown()
        if mid_sample:
            ck.cov["samples"] = ck.cov.get("samples", []) + [mid_sample]
        ck.assumptions += ["x19: drv/valuefill.c, drv/valuefill_cxx.cpp project without judgement (classes of return values, doubles "
                           "logged exactly, what the query interface reports after every store call); they walk sources with the "
                           "documented loop where the library has no consumer of its own",
                           "x19: a destination cycle k > 0 means stage k in the C binding and stage k - 1 in the C++ binding",
                           "x19: advance is only explored when the current cycle holds data; modify only with at least one element"]
    finally:
        shutil.rmtree(sdir, ignore_errors=True)
    return ck


def replay(det, path=""):
    """Re-run the behaviour of a violation file written by run_part; returns 0/1/2 like check.py --replay."""
    beh = det.get("behaviour")
    if not beh:
        print(json.dumps(det, indent=1)[:4000])
        return 2
    exes = build()
    sdir = scratch()
    try:
        recs = run(exes, [beh], {"VERIF_X19_DIR": sdir})
        if all("exp" in s for s in beh) and not unpredicted(beh):
            mms = vlib.compare([beh], recs, match)
            for mm in mms:
                print("VIOLATION property=C19 replay=%s  (%s: %s)" % (path, signature(beh, mm["i"], mm["rec"], mm["why"]), mm["why"]))
            return 1 if mms else 0
        ck = vlib.Check("C19", "replay")
        ck.findings = []
        validate(ck, [beh], recs, "Trace_ValueFill-replay", det.get("binding", "replay"))
        for sig, p in ck.violations:
            print("VIOLATION property=C19 replay=%s  (%s)" % (path, sig))
        return 1 if ck.violations else 0
    finally:
        shutil.rmtree(sdir, ignore_errors=True)
