"""X30 (extension of C15) -- the creator overrides of libmpt++ and what the C library does with the objects they hand
out (spec/Creators.tla).

run_part(ck, tier) adds to the vlib.Check of C15:
  * TLC: exhaustive check of Creators (nodes, text metatypes of both makes, the uncounted static metatype; creator
    "c" = libmptcore alone, "cxx" = libmpt++ linked before libmptcore so that its mpt_node_new / mpt_meta_new /
    mpt_meta_buffer interpose the C definitions for every caller),
  * binding A: every transition of the model replayed into drv/creators_c.c (+ creators.cpp) against the shared
    libraries of the tree under test; allocation seam = malloc/free hooks of the sanitizer runtime,
    the transitions with an injected allocation failure (arg.fail) go to a third executable (creators_seam: the allocating
    sources of mptcore compiled in with malloc renamed) and are swept over the allocation that is refused,
  * binding B: seeded call sequences recorded from the real code and validated by TLC against Trace_Creators.
"""
import json
import os
import subprocess
import threading
import vlib
import vseam

TAG = "x30"
CFG = {
    # quick: the creators without path assignment (2 handles, 4 / 3 objects) and, on its own, assignment along the paths
    # "a" and "a.b" below a node (a: 1 handle, 4 objects); thorough: both together (2 handles, 4 / 3 objects)
    "quick":    dict(mc=["MC_Creators.cfg", "MC_Creators_a.cfg"], gen=["Gen_Creators.cfg", "Gen_Creators_a.cfg"], nhist=60, steps=40),
    "thorough": dict(mc=["MC_Creators_t.cfg"], gen=["Gen_Creators_t.cfg"], nhist=600, steps=60),
}
T_NH, T_NOBJ = 4, 24      # constants of Trace_Creators.cfg
VLOCK = threading.Lock()
# sources of mptcore that allocate for the producers (and the producers themselves): compiled into "creators_seam" with
# malloc/realloc/calloc renamed, so that the k-th allocation of a call can be refused
SEAM_SOURCES = ("mptcore/node/node_new.c", "mptcore/node/node_clone.c", "mptcore/node/node_destroy.c", "mptcore/misc/identifier.c",
                "mptcore/meta/meta_new.c", "mptcore/meta/meta_geninfo.c", "mptcore/meta/meta_set.c", "mptcore/array/meta_buffer.c",
                "mptcore/array/buffer_alloc.c", "mptcore/config/node_assign.c")
MAXK = 8      # allocations per call the failure sweep follows


def enabled():
    """Switched on by the marker file checks/x30_creators.accepted or by VERIF_X30=1, off by VERIF_X30=0."""
    env = os.environ.get("VERIF_X30")
    if env is not None:
        return env not in ("0", "")
    return os.path.exists(os.path.join(vlib.ROOT, "checks", "x30_creators.accepted"))


def build():
    """Returns {"c": executable without libmpt++, "cxx": executable with libmpt++ before libmptcore}."""
    bdir = vlib.build_libs(True)
    odir = vlib.ensure(os.path.join(vlib.WORK, "drv-" + vlib.repo_key()))
    inc = ["-I" + vlib.DRV] + ["-I" + os.path.join(vlib.REPO, i) for i in vlib.INCLUDES]
    san = vlib.SAN_FLAGS.split()
    out = {}

    def run(cmd, what):
        r = subprocess.run(cmd, stdout=subprocess.PIPE, stderr=subprocess.STDOUT, text=True)
        if r.returncode:
            raise vlib.MachineryError("x30 %s failed:\n%s" % (what, r.stdout[-4000:]))

    def libs(names):
        fl = []
        for l in names:
            d = os.path.join(bdir, l)
            fl += ["-L" + d, "-Wl,-rpath," + d, "-l" + l]
        return fl
    with vlib.Lock("x30-link-" + vlib.repo_key()):
        pid = os.getpid()
        src = os.path.join(vlib.DRV, "creators_c.c")
        oc = os.path.join(odir, "x30_c-%d.o" % pid)
        ox = os.path.join(odir, "x30_x-%d.o" % pid)
        op = os.path.join(odir, "x30_p-%d.o" % pid)
        try:
            run(["clang"] + san + ["-Wno-unused-function", "-Wno-deprecated", "-c", src, "-o", oc] + inc, "compile (c)")
            run(["clang"] + san + ["-Wno-unused-function", "-Wno-deprecated", "-DX30_CXX", "-c", src, "-o", ox] + inc, "compile (cxx)")
            run(["clang++"] + san + ["-std=c++11", "-Wno-deprecated", "-c", os.path.join(vlib.DRV, "creators.cpp"), "-o", op] + inc,
                "compile (creators.cpp)")
            exe = os.path.join(odir, "creators_c")
            run(["clang"] + san + [oc] + libs(["mptcore"]) + ["-lm", "-ldl", "-o", exe + ".tmp%d" % pid], "link (c)")
            os.replace(exe + ".tmp%d" % pid, exe)
            out["c"] = exe
            exe = os.path.join(odir, "creators")
            # the order is the point: libmpt++ first, so its creators interpose those of libmptcore
            run(["clang++"] + san + [ox, op, "-Wl,--no-as-needed"] + libs(["mpt++", "mptcore"]) + ["-lm", "-ldl", "-o", exe + ".tmp%d" % pid],
                "link (cxx)")
            os.replace(exe + ".tmp%d" % pid, exe)
            out["cxx"] = exe
            # allocation failure: the C creators again, their allocating sources compiled in through the seam
            run(["clang"] + san + ["-Wno-unused-function", "-Wno-deprecated", "-DX30_SEAM", "-c", src, "-o", oc] + inc, "compile (seam)")
            sobjs = vseam.compile_c_objects("x30seam", SEAM_SOURCES)
            try:
                exe = os.path.join(odir, "creators_seam")
                run(["clang"] + san + ["-rdynamic", oc] + sobjs + libs(["mptcore"]) + ["-lm", "-ldl", "-o", exe + ".tmp%d" % pid], "link (seam)")
                os.replace(exe + ".tmp%d" % pid, exe)
                out["seam"] = exe
            finally:
                for o in sobjs:
                    if os.path.exists(o):
                        os.unlink(o)
        finally:
            for o in (oc, ox, op):
                if os.path.exists(o):
                    os.unlink(o)
    return out


def kind_of(beh):
    return (beh[0].get("arg") or {}).get("kind", "?")


def injected(beh):
    return any((st.get("arg") or {}).get("fail") for st in beh)


def exe_of(beh):
    """allocation failures are offered by the seam executable (creator c) only"""
    if injected(beh):
        return "seam" if kind_of(beh) == "c" else None
    return kind_of(beh)


def run_behaviours(exes, behs, nproc=6):
    """Every behaviour goes to the executable of its creator; behaviour ids stay those of the given list."""
    recs = []
    for k, exe in exes.items():
        idx = [b for b, beh in enumerate(behs) if exe_of(beh) == k]
        part = vseam.run_parallel(exe, [behs[b] for b in idx], nproc=nproc)
        for r in part:
            if isinstance(r.get("b"), int) and 0 <= r["b"] < len(idx):
                r["b"] = idx[r["b"]]
            recs.append(r)
    recs.sort(key=lambda r: (r.get("b", -1), r.get("i", 0)))
    return recs


def match(exp, obs, step=None, rec=None, prev=None):
    """Verdict projection: answer class, what every handle refers to, which objects live, which were released by this
    call (order free), what every node holds and hangs under, nothing left when nothing lives."""
    if obs.get("ret") == "baddrv":
        return "driver: step not executable"
    if step is not None and (step.get("arg") or {}).get("fail"):
        # injected allocation failure: judged when it fired and the call answered "refused" (the statement is silent
        # about a call that goes on without the storage; the call without failure is replayed on its own)
        if obs.get("badfree"):
            return "badfree: %s" % obs.get("badfree")
        if not obs.get("fired") or obs.get("ret") != "refused":
            return vlib.STOP
    if exp["ret"] != "any" and obs.get("ret") != exp["ret"]:
        return "ret: expected %s, observed %s" % (exp["ret"], obs.get("ret"))
    if obs.get("alive") != exp["alive"]:
        return "alive: expected %s, observed %s" % (exp["alive"], obs.get("alive"))
    if sorted(obs.get("gone") or []) != sorted(exp["gone"]):
        return "gone: expected released %s, observed %s" % (exp["gone"], obs.get("gone"))
    for k in ("href", "nmeta", "par", "badfree"):
        if obs.get(k) != exp[k]:
            return "%s: expected %s, observed %s" % (k, exp[k], obs.get(k))
    if exp["quiet"] == 0 and obs.get("quiet") != 0:
        return "quiet: nothing lives any more but %s allocation(s) remain" % obs.get("quiet")
    return None


def sig_of(beh, i, why):
    """x30:<creator>:<action>:<argument class>:<differing observation> -- computed from the failing step."""
    st = beh[i]
    arg = st.get("arg") or {}
    cls = arg.get("sz") or arg.get("via") or arg.get("nm") or "-"
    if arg.get("fail"):
        cls += ",nomem"
    if arg.get("p"):
        cls = "%s,%s" % (arg["p"], cls)
    key = why.lower() if why in ("Crash", "Hang", "Garbled", "Missing") else why.split(":")[0].split(" ")[0].lower()
    return "x30:%s:%s:%s:%s" % (kind_of(beh), st["a"], cls, key)


# ---------------------------------------------------------------------------
# binding B: seeded call sequences (inputs only).  The generator keeps the structure an ideal implementation would
# have, only to emit calls whose preconditions hold; every expected value is computed by TLC.
# ---------------------------------------------------------------------------
class Ideal:
    def __init__(self, kind):
        self.k = kind
        self.h = [0] * T_NH
        self.cls = [None] * (T_NOBJ + 2)
        self.cnt = [0] * (T_NOBJ + 2)
        self.nmeta = [0] * (T_NOBJ + 2)
        self.par = [0] * (T_NOBJ + 2)
        self.name = [None] * (T_NOBJ + 2)
        self.made = 0

    def new(self, c):
        self.made += 1
        self.cls[self.made] = c
        self.cnt[self.made] = 1
        return self.made

    def share(self, o):
        return self.k == "cxx" and self.cls[o] == "bufm"

    def lower(self, o):
        if o <= 0:
            return
        if self.cnt[o] <= 1 or not self.share(o):
            self.cnt[o] = 0
        else:
            self.cnt[o] -= 1

    def under(self, o, n):
        while o:
            if o == n:
                return True
            o = self.par[o]
        return False

    def kill(self, nodes):
        for n in nodes:
            self.cnt[n] = 0
            self.lower(self.nmeta[n])
            self.nmeta[n] = 0
        for n in nodes:
            self.par[n] = 0

    def walk(self, cur, path):
        """(deepest existing element, missing rest), or None while two siblings carry the wanted identifier"""
        path = list(path)
        while path:
            s = [c for c in self.nodes() if self.par[c] == cur and self.name[c] == path[0]]
            if len(s) > 1:
                return None
            if not s:
                break
            cur = s[0]
            path.pop(0)
        return cur, path

    def nodes(self):
        return [o for o in range(1, self.made + 1) if self.cls[o] == "node" and self.cnt[o] > 0]


def gen_histories(rng, n, steps):
    behs = []
    for b in range(n):
        k = ("c", "cxx", "cxx")[b % 3]
        m = Ideal(k)
        beh = [{"a": "init", "arg": {"kind": k, "nh": T_NH, "nobj": T_NOBJ}}]
        for _ in range(steps):
            op = rng.choice(["newmeta"] * 4 + ["newnode"] * 3 + ["clonemeta"] * 2 + ["addref"] * 3 + ["takemeta"] * 3 + ["unref"] * 4
                            + ["setvalue"] * 4 + ["movemeta"] * 4 + ["addchild"] * 4 + ["unlink"] * 2 + ["clonenode"] * 3
                            + ["destroy"] * 2 + ["destroyinner", "clear"] + ["assign"] * 5 + ["print"] * 2)
            free = [i for i in range(T_NH) if not m.h[i]]
            metas = [i for i in range(T_NH) if m.h[i] == -1 or (m.h[i] > 0 and m.cls[m.h[i]] != "node")]
            roots = [i for i in range(T_NH) if m.h[i] > 0 and m.cls[m.h[i]] == "node"]
            nodes = m.nodes()
            if op == "newmeta":
                sz = rng.choice(["small", "big", "buf", "small", "big", "buf", "null"])
                if not free or (sz == "null" and k != "cxx") or (sz != "null" and m.made >= T_NOBJ):
                    continue
                i = rng.choice(free)
                beh.append({"a": op, "arg": {"h": i + 1, "sz": sz}})
                m.h[i] = -1 if sz == "null" else m.new("small" if sz == "small" else "bufm")
            elif op == "newnode":
                if not free or m.made >= T_NOBJ:
                    continue
                i = rng.choice(free)
                nm = rng.choice(["short", "long"])
                beh.append({"a": op, "arg": {"h": i + 1, "nm": nm}})
                m.h[i] = m.new("node")
                m.name[m.h[i]] = nm
            elif op == "clonemeta":
                if not free or not metas or m.made >= T_NOBJ:
                    continue
                i, g = rng.choice(metas), rng.choice(free)
                beh.append({"a": op, "arg": {"h": i + 1, "g": g + 1}})
                m.h[g] = -1 if m.h[i] == -1 else m.new(m.cls[m.h[i]])
            elif op in ("addref", "takemeta"):
                if not free:
                    continue
                g = rng.choice(free)
                if op == "addref":
                    if not metas:
                        continue
                    i = rng.choice(metas)
                    t = m.h[i]
                    beh.append({"a": op, "arg": {"h": i + 1, "g": g + 1}})
                else:
                    ns = [o for o in nodes if m.nmeta[o]]
                    if not ns:
                        continue
                    o = rng.choice(ns)
                    t = m.nmeta[o]
                    beh.append({"a": op, "arg": {"n": o, "g": g + 1}})
                if t == -1:
                    m.h[g] = -1
                elif m.share(t):
                    m.cnt[t] += 1
                    m.h[g] = t
            elif op == "unref":
                if not metas:
                    continue
                i = rng.choice(metas)
                beh.append({"a": op, "arg": {"h": i + 1}})
                m.lower(m.h[i])
                m.h[i] = 0
            elif op == "setvalue":
                if not nodes:
                    continue
                o = rng.choice(nodes)
                sz = rng.choice(["small", "big", "null"])
                old = m.nmeta[o]
                if sz == "null":
                    if old > 0 and m.cls[old] == "bufm":
                        continue
                    beh.append({"a": op, "arg": {"n": o, "sz": sz}})
                    m.lower(old)
                    m.nmeta[o] = -1
                else:
                    if m.made >= T_NOBJ:
                        continue
                    beh.append({"a": op, "arg": {"n": o, "sz": sz}})
                    t = m.new("small" if sz == "small" else "bufm")
                    m.lower(old)
                    m.nmeta[o] = t
            elif op == "movemeta":
                if not nodes or not metas:
                    continue
                o, i = rng.choice(nodes), rng.choice(metas)
                via = rng.choice(["cxx", "raw"]) if k == "cxx" else "raw"
                beh.append({"a": op, "arg": {"n": o, "h": i + 1, "via": via}})
                m.lower(m.nmeta[o])
                m.nmeta[o] = m.h[i]
                m.h[i] = 0
            elif op == "addchild":
                if not roots or not nodes:
                    continue
                i = rng.choice(roots)
                ps = [p for p in nodes if not m.under(p, m.h[i])]
                if not ps:
                    continue
                p = rng.choice(ps)
                beh.append({"a": op, "arg": {"p": p, "h": i + 1}})
                m.par[m.h[i]] = p
                m.h[i] = 0
            elif op == "unlink":
                cs = [o for o in nodes if m.par[o]]
                if not cs or not free:
                    continue
                c, g = rng.choice(cs), rng.choice(free)
                beh.append({"a": op, "arg": {"c": c, "g": g + 1}})
                m.par[c] = 0
                m.h[g] = c
            elif op == "clonenode":
                if not nodes or not free:
                    continue
                o, g = rng.choice(nodes), rng.choice(free)
                t = m.nmeta[o]
                if m.made + (2 if t > 0 else 1) > T_NOBJ:
                    continue
                beh.append({"a": op, "arg": {"n": o, "g": g + 1}})
                c = m.new("node")
                m.name[c] = m.name[o]
                m.nmeta[c] = m.new(m.cls[t]) if t > 0 else t
                m.h[g] = c
            elif op == "print":
                if k != "cxx" or not metas:
                    continue
                beh.append({"a": op, "arg": {"h": rng.choice(metas) + 1, "via": "conv"}})
            elif op == "assign":
                if not nodes:
                    continue
                o = rng.choice(nodes)
                p = rng.choice(["a", "b", "a.b", "b.a"])
                sz = rng.choice(["small", "big", "null"])
                w = m.walk(o, p.split("."))
                if w is None:
                    continue
                at, rest = w
                if not rest:
                    old = m.nmeta[at]
                    if sz == "null":
                        if old > 0 and m.cls[old] == "bufm":
                            continue
                        beh.append({"a": op, "arg": {"n": o, "p": p, "sz": sz}})
                        m.lower(old)
                        m.nmeta[at] = -1
                    else:
                        if m.made >= T_NOBJ:
                            continue
                        beh.append({"a": op, "arg": {"n": o, "p": p, "sz": sz}})
                        t = m.new("small" if sz == "small" else "bufm")
                        m.lower(old)
                        m.nmeta[at] = t
                else:
                    if m.made + len(rest) + (sz != "null") > T_NOBJ:
                        continue
                    beh.append({"a": op, "arg": {"n": o, "p": p, "sz": sz}})
                    t = m.new("small" if sz == "small" else "bufm") if sz != "null" else 0
                    for e in rest:
                        c = m.new("node")
                        m.par[c], m.name[c] = at, e
                        at = c
                    m.nmeta[at] = t
            elif op == "destroy":
                if not roots:
                    continue
                i = rng.choice(roots)
                beh.append({"a": op, "arg": {"h": i + 1}})
                m.kill([o for o in nodes if m.under(o, m.h[i])])
                m.h[i] = 0
            elif op == "destroyinner":
                cs = [o for o in nodes if m.par[o]]
                if not cs:
                    continue
                beh.append({"a": op, "arg": {"n": rng.choice(cs)}})
            elif op == "clear":
                if not nodes:
                    continue
                o = rng.choice(nodes)
                beh.append({"a": op, "arg": {"n": o}})
                m.kill([x for x in nodes if x != o and m.under(x, o)])
        beh.append({"a": "teardown", "arg": {"x": 0}})
        behs.append(beh)
    return behs


def nontrivial(recs):
    """the history has a node holding a metatype, an object held twice (or the static held) and a release."""
    held = twice = gone = False
    for r in recs:
        o = r.get("obs") or {}
        if o.get("gone"):
            gone = True
        nm = [x for x in (o.get("nmeta") or []) if x]
        if nm:
            held = True
        refs = [x for x in (o.get("href") or []) if x] + nm
        if len(refs) != len(set(refs)) or -1 in refs:
            twice = True
    return held and twice and gone


def callseq(beh):
    return json.dumps([(s["a"], s.get("arg")) for s in beh], sort_keys=True)


def validate(hist, recs, max_rejects=8):
    events = vlib.merge_trace(hist, recs)
    nev = len(events)
    found, trans, dropped = [], 0, set()
    while True:
        evs = [e for e in events if e["b"] not in dropped]
        if not evs:
            break
        ok, matched, tres = vlib.validate_trace("Trace_Creators", evs, tag="Trace_Creators_x30")
        trans += tres.generated
        if ok:
            break
        ok2, matched2, _ = vlib.validate_trace("Trace_Creators", evs, tag="Trace_Creators_x30")
        if ok2:
            break
        matched = min(matched, matched2)
        ev = evs[matched] if matched < len(evs) else None
        if ev is None:
            found.append(("x30:trace:short", {"x30": True, "binding": "B(trace validation)", "matched_prefix": matched}))
            break
        beh = hist[ev["b"]]
        why = ev["a"] if ev["a"] in ("Crash", "Hang", "Missing", "Garbled") else "rejected"
        found.append((sig_of(beh, ev["i"], why),
                      {"x30": True, "binding": "B(trace validation)", "matched_prefix": matched, "rejected_event": ev,
                       "previous_event": evs[matched - 1] if matched and evs[matched - 1]["b"] == ev["b"] else None,
                       "behaviour": beh[:ev["i"] + 1]}))
        dropped.add(ev["b"])
        if len(dropped) >= max_rejects:
            break
    tdir = os.path.join(vlib.WORK, "traces")
    for f in os.listdir(tdir) if os.path.isdir(tdir) else []:
        if f.startswith("Trace_Creators_x30-%d." % os.getpid()):
            os.unlink(os.path.join(tdir, f))
    return (len(hist) - len(dropped)) if len(dropped) < max_rejects else 0, found, trans, nev


def run_part(ck, tier):
    import random
    import time
    from concurrent.futures import ThreadPoolExecutor
    cfg = CFG[tier]
    t0 = time.time()
    exes = build()
    pool = ThreadPoolExecutor(max_workers=2)
    mcpool = ThreadPoolExecutor(max_workers=2)
    mcjobs = [mcpool.submit(lambda c=c: (c, vlib.tlc("MC_Creators", c, tag="MC_Creators_x30_" + c[:-4], workers=max(4, vlib.NCPU // 2),
                                                     timeout=1200))) for c in cfg["mc"]]

    rng = random.Random(ck.seed * 7919 + 30)          # a stream of its own: the base part's draws stay what they were
    hist = gen_histories(rng, cfg["nhist"], cfg["steps"])

    def trace_job():
        recs2 = run_behaviours(exes, hist, nproc=3)
        acc, found, trans, nev = validate(hist, recs2)
        by2 = vlib.group_records(recs2)
        keys = set(callseq(beh) for b, beh in enumerate(hist) if nontrivial(by2.get(b, [])))
        return acc, found, trans, nev, keys
    tjob = pool.submit(trace_job)

    seen, perkind, samples = {}, {}, []
    nt_inj = set()
    behs = []
    for g in cfg["gen"]:
        path = os.path.join(vlib.ensure(os.path.join(vlib.WORK, "x30")), "%s-%d.out" % (g[:-4], os.getpid()))
        try:
            gen = vlib.tlc_to_file("Gen_Creators", g, path, workers=4 if tier == "quick" else 8, timeout=1200)
            if gen.error:
                raise vlib.MachineryError("x30 behaviour export failed (%s): %s" % (g, gen.error))
            part = vlib.parse_behaviours(open(path, errors="replace").read())
        finally:
            if os.path.exists(path):
                os.unlink(path)
        vlib.log("x30 %s: %d behaviours exported in %.1fs" % (g, len(part), gen.wall))
        behs += part
    allb = behs
    inj = [b for b in allb if injected(b) and exe_of(b)]
    behs = [b for b in allb if not injected(b)]
    recs = run_behaviours(exes, behs, nproc=6)
    by = vlib.group_records(recs)
    mms = []
    # allocation failure sweep: arg.fail = k for every k the call reaches
    todo, fired_total, reached = inj, 0, {}
    for k in range(1, MAXK + 1):
        if not todo:
            break
        cur = [[dict(st, arg=dict(st["arg"], fail=k)) if (st.get("arg") or {}).get("fail") else st for st in beh] for beh in todo]
        r3 = run_behaviours(exes, cur, nproc=6)
        by3 = vlib.group_records(r3)
        for mm in vlib.compare(cur, r3, match):
            beh = cur[mm["b"]]
            sig = sig_of(beh, mm["i"], mm["why"])
            seen[sig] = seen.get(sig, 0) + 1
            if seen[sig] <= 2:
                with VLOCK:
                    ck.violation(sig, {"x30": True, "binding": "A(replay, allocation failure %d)" % k, "behaviour": beh[:mm["i"] + 2],
                                       "step": mm["i"], "why": mm["why"], "record": mm["rec"]})
        nxt = []
        for b, beh in enumerate(cur):
            fs = [r for r in by3.get(b, []) if (r.get("obs") or {}).get("fired")]
            if fs:
                fired_total += 1
                a = fs[0].get("a")
                reached[a] = reached.get(a, 0) + 1
                if (fs[0].get("obs") or {}).get("ret") == "refused":
                    nt_inj.add(callseq(beh))
                nxt.append(todo[b])
        ck.cov["evaluations"] += len(cur)
        todo = nxt
    ck.notes["x30_nomem_behaviours"] = len(inj)
    ck.notes["x30_nomem_failures_met"] = fired_total
    ck.notes["x30_nomem_failures_met_by_action"] = reached
    ck.notes["x30_nomem_sweep_open_at_maxk"] = len(todo)
    vlib.log("x30 allocation failure: %d behaviours, %d failures met %s" % (len(inj), fired_total, reached))
    for mm in vlib.compare(behs, recs, match):
        if mm["why"] != "Hang":                        # a hang may be the machine: once more on its own
            mms.append(mm)
            continue
        r2 = run_behaviours(exes, [behs[mm["b"]]], nproc=1)
        for a in vlib.compare([behs[mm["b"]]], r2, match):
            a["b"] = mm["b"]
            mms.append(a)
    nt = set(callseq(beh) for b, beh in enumerate(behs) if nontrivial(by.get(b, [])))
    for beh in behs:
        perkind[kind_of(beh)] = perkind.get(kind_of(beh), 0) + 1
    if behs:
        samples.append(vlib.sample_repr(behs[len(behs) // 3][:6]))
    for mm in mms:
        beh = behs[mm["b"]]
        sig = sig_of(beh, mm["i"], mm["why"])
        seen[sig] = seen.get(sig, 0) + 1
        if seen[sig] > 2:
            continue
        with VLOCK:
            ck.violation(sig, {"x30": True, "binding": "A(replay)", "behaviour": beh[:mm["i"] + 1], "step": mm["i"],
                               "why": mm["why"], "record": mm["rec"]})
    ck.cov["evaluations"] += len(behs)
    ck.notes["x30_replayed_behaviours"] = len(behs)
    ck.notes["x30_replayed_per_creator"] = perkind
    ck.notes["x30_replay_mismatches"] = len(mms)
    ck.notes["x30_replay_mismatch_signatures"] = seen
    vlib.log("x30 replay: %d behaviours, %d mismatches (t=%.0fs)" % (len(behs), len(mms), time.time() - t0))

    acc, found, trans, nev, keys = tjob.result()
    for sig, det in found:
        with VLOCK:
            ck.violation(sig, det)
    nt |= keys
    nt |= nt_inj
    ck.cov["transitions"] += trans
    ck.cov["evaluations"] += len(hist)
    ck.cov["traces_validated_against_impl"] += acc
    ck.notes["x30_trace_events"] = nev
    ck.notes["x30_traces_accepted"] = acc
    vlib.log("x30 traces: %d histories, %d accepted (t=%.0fs)" % (len(hist), acc, time.time() - t0))

    for c, res in [j.result() for j in mcjobs]:
        ck.add_tlc(res, "x30 exhaustive " + c)
        vlib.log("x30 model checked (%s): %d states, %d transitions, %.1fs" % (c, res.distinct, res.generated, res.wall))
    pool.shutdown()
    mcpool.shutdown()
    ck.cov["distinct_nontrivial"] += len(nt)
    ck.notes["x30_distinct_nontrivial"] = len(nt)
    ck.notes["x30_wall_s"] = round(time.time() - t0, 1)
    ck.cov["rule"] += ("  X30 (Creators): A: one behaviour per transition of the TLC state graph of Creators (nodes and text metatypes "
                       "made by the creators of libmptcore and, interposed, of libmpt++; the uncounted static metatype) replayed into "
                       "the real code; B: seeded histories (4 handles, 24 objects) validated by TLC; non-trivial = the history has a "
                       "node holding a metatype, an object held twice or the static held, and a release.")
    ck.cov["samples"] += samples[:1]
    ck.assumptions += ["x30: drv/creators_c.c (+ creators.cpp) projects the state without judgement; 'released' = the block that "
                       "contains the object went through the free hook of the sanitizer runtime; a pointer that is not a heap block "
                       "is reported as the static (-1)",
                       "x30: creator 'cxx' = executable linked with libmpt++ before libmptcore (ELF interposition, established by "
                       "LD_DEBUG=bindings and checked by the driver at init with dladdr)"]


def replay(det, path):
    beh = det.get("behaviour")
    if not beh:
        print(json.dumps(det, indent=1)[:4000])
        return 2
    exes = build()
    recs = run_behaviours(exes, [beh], nproc=1)
    if all("exp" in s for s in beh):
        rc = 0
        for mm in vlib.compare([beh], recs, match):
            print("VIOLATION property=C15 replay=%s  (%s: %s)" % (path, sig_of(beh, mm["i"], mm["why"]), mm["why"]))
            rc = 1
        return rc
    events = vlib.merge_trace([beh], recs)
    ok, matched, _ = vlib.validate_trace("Trace_Creators", events, tag="Trace_Creators_replay")
    if not ok:
        print("VIOLATION property=C15 replay=%s  (trace rejected at event %d: %s)" % (
            path, matched, json.dumps(events[matched])[:400] if matched < len(events) else "-"))
    return 0 if ok else 1
