"""C05 -- managed elements in typed buffers are finalised exactly once (spec/TypedBuf.tla)."""
import json
import vlib
import c04 as cow

PID = "C05"
MANIFEST = dict(
        spec="TypedBuf.tla (+MC_TypedBuf, Gen_TypedBuf, Trace_TypedBuf)",
        text="TLC checks exhaustively (2 handles, <=2-3 elements, every set/insert/cut/slice/reserve/detach/clone/release with "
             "every position and count, shared/immutable/no-copy buffers, a failing copy constructor) that the design's stated "
             "constructions and destructions balance with the elements actually held by the live buffers (nothing destroyed "
             "twice, nothing left alive, shared buffers copied element-wise) and that last release leaves nothing alive; every "
             "transition of the model's control skeleton is replayed into the real C code with a recording element type (init/fini "
             "calls logged, anomalies counted) and with the library's own array traits (inner reference counts observed), and "
             "into the C++ containers with a tracked class; seeded histories at the production granularity are validated by TLC.",
        note="Trusted: TLC, drv/typedbuf.c and drv/typedbuf_cxx.cpp (bookkeeping of init/fini calls, no judgement), bounded model. "
             "Only traits whose effect is observable through the harness are decided (recording traits, array traits, tracked C++ "
             "class); use-after-destroy inside the library is observed by ASan on the executed calls, not proved.",
        technique="TLA+ spec + TLC exhaustive check; TLC-generated behaviours replayed into the C and C++ code; TLC trace validation of recorded runs",
        design="5/C05")
CFG = {
    "quick":    dict(mc="MC_TypedBuf.cfg",   gen="Gen_TypedBuf.cfg",   nhist=40,  steps=60),
    "thorough": dict(mc="MC_TypedBuf_t.cfg", gen="Gen_TypedBuf_t.cfg", nhist=300, steps=100),
}
REC_KEYS = ("vals", "lens", "typs", "irefs", "nlive", "bad", "dead", "dup", "orph", "refok")
ARR_KEYS = ("vals", "lens", "typs", "irefs", "refok")
IDN_KEYS = ("vals", "lens", "typs", "refok")
CKINDS = ("rec", "arr", "meta", "idn")


def keys_of(api):
    return {"arr": ARR_KEYS, "meta": ARR_KEYS, "idn": IDN_KEYS}.get(api, REC_KEYS)
CAP_OPS = ("bufinsert", "bufset")


def make_match(keys):
    def match(exp, obs):
        for k in keys:
            if k in exp and obs.get(k) != exp[k]:
                return "%s: expected %s, observed %s" % (k, json.dumps(exp[k])[:300], json.dumps(obs.get(k))[:300])
        if exp["ret"] != "any" and obs.get("ret") != exp["ret"]:
            return "ret: expected %s, observed %s" % (exp["ret"], obs.get("ret"))
        return None
    return match


def argclass(step, prev_mdl, prev_exp):
    a, arg = step["a"], step.get("arg") or {}
    h = arg.get("h", 1) - 1
    parts = []
    if prev_mdl and 0 <= h < len(prev_mdl["refs"]):
        used = prev_exp["lens"][h]
        size = prev_mdl["sizes"][h]
        typ = prev_exp["typs"][h]
        if typ == "none":
            parts.append("null")
        else:
            if prev_mdl["refs"][h] > 1:
                parts.append("shared")
            if prev_mdl["imm"][h]:
                parts.append("imm")
            if prev_mdl["nc"][h]:
                parts.append("nocopy")
            if typ == "raw":
                parts.append("raw")
            if used == 0:
                parts.append("empty")
        n = len(arg["data"]) if "data" in arg else arg.get("n", arg.get("len", 0))
        pos = arg.get("pos", arg.get("off"))
        if a == "settyped" and pos is not None and pos < 0:
            pos += used
        if n == 0:
            parts.append("n=0")
        if pos is not None:
            if pos < 0:
                parts.append("pos<0")
            elif pos > used:
                parts.append("pos>used")
            elif pos + n < used and a in ("settyped", "bufset", "bufcut"):
                parts.append("end<used")
            if pos + n > size:
                parts.append("end>size")
        if a in ("reserve", "detach") and arg.get("len", 0) < used:
            parts.append("len<used")
        if a == "reserve" and arg.get("typ") != typ:
            parts.append("retype")
        if arg.get("fail"):
            parts.append("copyfail")
    return ",".join(parts) or "plain"


def collapse(a, why, cls):
    parts = cls.split(",")
    if (a == "reserve" and why in ("vals", "lens", "irefs", "nlive", "rejected") and "nocopy" in parts and "retype" not in parts
            and "null" not in parts and "empty" not in parts and ("shared" in parts or "imm" in parts)):
        return "reserve:content:nocopy,same-type"
    return "%s:%s:%s" % (a, why, cls)


def signature(mm, beh):
    st = beh[mm["i"]]
    prev = beh[mm["i"] - 1] if mm["i"] else None
    why = mm["why"].split(":")[0].lower()
    return collapse(st["a"], why, argclass(st, prev and prev.get("mdl"), prev and prev.get("exp")))


def trace_class(st, prev):
    if not prev or "obs" not in prev or "dbg" not in prev:
        return "first"
    pm = {"sizes": prev["dbg"]["sizes"], "refs": prev["dbg"]["refs"],
          "imm": [f & 1 for f in prev["dbg"]["flags"]], "nc": [f & 2 for f in prev["dbg"]["flags"]]}
    return argclass(st, pm, prev["obs"])


def event_sig(hist, events, k):
    ev = events[k]
    prev = events[k - 1] if k and events[k - 1]["b"] == ev["b"] else None
    why = ev["a"] if ev["a"] in ("Crash", "Hang", "Missing") else "rejected"
    st = hist[ev["b"]][ev["i"]]
    return collapse(st["a"], why.lower(), trace_class(st, prev)), prev


_BUILT = {}


def build(api):
    """driver executable + arguments for an element kind / binding (built once; call before starting threads)"""
    key = "c" if api in CKINDS else "cxx"
    if key not in _BUILT:
        if key == "c":
            _BUILT[key] = vlib.build_driver("typedbuf", ["typedbuf.c"])
        else:
            _BUILT[key] = vlib.build_driver("typedbuf_cxx", ["typedbuf_cxx.cpp", cow.build_seam()], libs=("mptcore", "mpt++"), cxx=True)
    return _BUILT[key], ([api] if key == "c" else [])


def has_fail(beh):
    """needs the recording kind: a failing constructor or the second managed element type"""
    return any((s.get("arg") or {}).get("fail") or (s.get("arg") or {}).get("dfail") or (s.get("arg") or {}).get("typ") == "elemB"
               for s in beh)


def nontrivial(recs):
    """a call destroyed at least one element while other elements stayed alive (recording kind),
    or changed an inner reference count (array kind)."""
    prev = None
    for r in recs:
        d, o = r.get("dbg"), r.get("obs")
        if d and o and prev is not None:
            if d.get("nfini", 0) > 0 and o.get("nlive", 0) > 0:
                return True
            if "nlive" not in o and prev.get("irefs") != o.get("irefs") and sum(o.get("irefs") or []) > len(o.get("irefs") or []):
                return True
        if o:
            prev = o
    return False


def do_replay(api, behs):
    """replay + comparison for one element kind / binding (thread safe: no bookkeeping on the Check)"""
    exe, args = build(api)
    sel = [b for b in behs if api not in ("arr", "meta", "idn") or not has_fail(b)]
    recs, _ = vlib.run_driver(exe, vlib.to_script(sel), timeout=1500, args=args)
    mms, stats = cow.compare(sel, recs, api, make_match(keys_of(api)), CAP_OPS)
    found = []
    for mm in mms:
        beh = sel[mm["b"]]
        found.append((api + ":" + signature(mm, beh),
                      {"binding": "A(replay,%s)" % api, "api": api, "behaviour": beh[:mm["i"] + 1], "step": mm["i"],
                       "why": mm["why"], "record": mm["rec"]}))
    by = vlib.group_records(recs)
    nt = set()
    for b, beh in enumerate(sel):
        if nontrivial(by.get(b, [])):
            nt.add(api + cow.seq_key(beh))
    mid = len(sel) // 2
    return dict(api=api, found=found, nt=nt, note=dict(behaviours=len(sel), mismatches=len(mms), **stats),
                samples=[vlib.sample_repr(b) for b in sel[mid:mid + 1]])


def do_gen(cfgname, tag):
    gen = vlib.tlc("Gen_TypedBuf", cfgname, workers=4, tag="Gen_TypedBuf_" + tag)
    if gen.error or gen.violation:
        raise vlib.MachineryError("behaviour export failed (%s): %s %s" % (cfgname, gen.error, gen.violation or ""))
    behs = vlib.parse_behaviours(gen.out)
    gen.out = ""
    return behs, gen.generated, gen.distinct


def do_gen_replay(api, cfgname):
    behs, ngen, nst = do_gen(cfgname, api)
    r = do_replay(api, behs)
    r["note"].update(transitions=ngen, skeleton_states=nst)
    return r


def absorb(ck, r, nt):
    for sig, detail in r["found"]:
        ck.violation(sig, detail)
    nt |= r["nt"]
    ck.cov["evaluations"] += r["note"]["behaviours"]
    ck.cov["transitions"] += r["note"].get("transitions", 0)
    ck.notes.setdefault("replay", {})[r["api"]] = r["note"]


def replay_kind(ck, api, behs, nt):
    """single threaded variant used by development scripts"""
    r = do_replay(api, behs)
    absorb(ck, r, nt)


# --------------------------------------------------------------------------
# binding B: seeded call sequences (inputs only), production granularity
# --------------------------------------------------------------------------
def gen_histories(ck, n, steps, kind, nh=4, nv=3):
    rng = ck.rng
    caps = [4, 12, 20, 28] if kind in ("rec", "idn") else [8, 24, 40, 56]
    behs = []
    for _ in range(n):
        beh = [{"a": "init", "arg": {"n": nh, "grane": 0, "nv": nv}}]
        est = [0] * nh
        ctr = [0]

        def fresh(k):
            d = [((ctr[0] + i) % nv) + 1 for i in range(k)]
            ctr[0] += k
            return d

        def near(x):
            return max(0, x + rng.choice([-2, -1, 0, 0, 1, 2]))

        def count(h):
            free = [c - est[h] for c in caps if c >= est[h]]
            return min(rng.choice([0, 1, 1, 2, 3, rng.randrange(0, 9)] + [near(f) for f in free[:2]]), 30)

        def position(h):
            return rng.choice([0, 0, 1, near(est[h]), est[h], est[h] // 2, rng.choice(caps), near(rng.choice(caps))])

        def fail(h, k):
            if kind != "rec" or rng.random() < 0.7:
                return 0
            return rng.randrange(1, max(2, est[h] + k + 1))

        for _ in range(steps):
            h = rng.randrange(nh)
            op = rng.choice(["new", "settyped", "settyped", "settyped", "bufset", "bufset", "bufcut", "bufcut", "bufinsert",
                             "insert", "insert", "slice", "reserve", "clone", "clone", "clone", "drop", "detach"])
            z = rng.choice([0, 0, 0, 1])
            if op == "new":
                k = count(h)
                t = rng.choice(["elem"] * 5 + ["raw", "plain"] + (["elemB"] if kind == "rec" else ["raw"]))
                beh.append({"a": op, "arg": {"h": h + 1, "data": fresh(k) if t in ("elem", "elemB") else [9] * k,
                                             "imm": rng.choice([0, 0, 0, 1]), "nc": rng.choice([0, 0, 0, 1]), "typ": t}})
                if est[h] == 0:
                    est[h] = k
            elif op == "settyped":
                k = count(h)
                off = rng.choice([0, 0, 1, -1, -2, near(est[h]), est[h], est[h] // 2, -est[h], -est[h] - 1])
                f = 0 if z else fail(h, k)
                beh.append({"a": op, "arg": {"h": h + 1, "data": [0] * k if z else fresh(k), "off": off, "zero": z,
                                             "fail": f, "fm": 1 if f and rng.random() < 0.3 else 0}})
                p = off + (est[h] if off < 0 else 0)
                if p >= 0:
                    est[h] = max(est[h], p + k)
            elif op == "bufset":
                k, p = count(h), position(h)
                f = 0 if z or kind != "rec" or rng.random() < 0.7 else rng.randrange(1, k + 2)
                beh.append({"a": op, "arg": {"h": h + 1, "pos": p, "data": [0] * k if z else fresh(k), "zero": z,
                                             "fail": f, "fm": 1 if f and rng.random() < 0.3 else 0}})
            elif op == "bufcut":
                p = position(h)
                k = rng.choice([0, 0, 1, 2, max(0, est[h] - p), max(0, est[h] - p) + 1, est[h]])
                beh.append({"a": op, "arg": {"h": h + 1, "off": p, "n": k}})
            elif op == "bufinsert":
                p = position(h)
                beh.append({"a": op, "arg": {"h": h + 1, "pos": p, "data": fresh(count(h)),
                                             "dfail": rng.choice([1, 1, 2, 3]) if kind == "rec" and p > est[h] and rng.random() < 0.5 else 0}})
            elif op == "insert":
                k, p = count(h), position(h)
                beh.append({"a": op, "arg": {"h": h + 1, "pos": p, "data": fresh(k), "fail": fail(h, 0)}})
                est[h] = max(est[h], p) + k
            elif op == "slice":
                k, p = count(h), position(h)
                beh.append({"a": op, "arg": {"h": h + 1, "off": p, "n": k, "fail": fail(h, 0)}})
                est[h] = max(est[h], p + k)
            elif op == "reserve":
                t = rng.choice(["elem"] * 4 + ["raw", "plain"] + (["elemB"] if kind == "rec" else ["elem"]))
                k = rng.choice([0, 1, near(est[h]), est[h], est[h] + 1, rng.choice(caps)])
                beh.append({"a": op, "arg": {"h": h + 1, "len": k, "typ": t, "fail": fail(h, 0)}})
                if t != "elem":
                    est[h] = 0
            elif op in ("clone", "drop"):
                g = 0 if op == "drop" else rng.choice([x for x in range(nh) if x != h]) + 1
                beh.append({"a": "clone", "arg": {"h": h + 1, "from": g}})
                est[h] = est[g - 1] if g else 0
            elif op == "detach":
                k = rng.choice([0, near(est[h]), est[h], est[h] + 1, rng.choice(caps), near(rng.choice(caps))])
                beh.append({"a": op, "arg": {"h": h + 1, "len": k, "fail": fail(h, 0)}})
        # release everything at the end: nothing may stay alive
        for h in range(nh):
            beh.append({"a": "clone", "arg": {"h": h + 1, "from": 0}})
        behs.append(beh)
    return behs


def record_traces(ck, kind, cfg):
    exe, args = build(kind)
    hist = gen_histories(ck, cfg["nhist"], cfg["steps"], kind)
    recs, _ = vlib.run_driver(exe, vlib.to_script(hist), args=args)
    return hist, recs, vlib.merge_trace(hist, recs)


def judge_traces(ck, kind, hist, recs, events, nt):
    tcfg = "Trace_TypedBuf.cfg" if kind in ("rec", "idn") else "Trace_TypedBuf_arr.cfg"
    ok, matched, ngen, cuts = cow.validate_traces(ck, hist, events, "Trace_TypedBuf", tcfg, event_sig, "Trace_TypedBuf_" + kind,
                                                  {"api": kind})
    ck.cov["transitions"] += ngen
    by = vlib.group_records(recs)
    for b, beh in enumerate(hist):
        if nontrivial(by.get(b, [])):
            nt.add("t" + kind + cow.seq_key(beh))
    ck.cov["evaluations"] += len(hist)
    ck.notes.setdefault("trace", {})[kind] = dict(histories=len(hist), events=len(events), matched=matched, accepted=ok,
                                                 behaviours_cut_at_known_finding=cuts)
    return ok


def trace_kind(ck, kind, cfg, nt):
    hist, recs, events = record_traces(ck, kind, cfg)
    return hist, judge_traces(ck, kind, hist, recs, events, nt)


XAPIS = ("xtyped", "xunique")


def run(tier):
    from concurrent.futures import ThreadPoolExecutor
    cfg = CFG[tier]
    ck = vlib.Check(PID, tier)
    sfx = "_t" if tier == "thorough" else ""
    build("rec")
    build("xtyped")
    tkinds = ("rec", "arr") if tier == "quick" else CKINDS
    tr = {k: record_traces(ck, k, cfg) for k in tkinds}       # uses ck.rng: before the threads start
    nt = set()
    with ThreadPoolExecutor(max_workers=4) as ex:
        # 1. constructions and destructions stated by the design balance with the elements held
        mcs = [("exhaustive " + cfg["mc"], ex.submit(vlib.tlc, "MC_TypedBuf", cfg["mc"], 8, tag="MC_TypedBuf_c"))]
        if tier == "thorough":
            for a in XAPIS:
                mcs.append(("exhaustive MC_TypedBuf_%s.cfg" % a,
                            ex.submit(vlib.tlc, "MC_TypedBuf", "MC_TypedBuf_%s.cfg" % a, 4, tag="MC_TypedBuf_" + a)))
        # 2. binding A: every transition of the control skeleton; C with both element kinds, C++ containers
        xreps = [ex.submit(do_gen_replay, a, "Gen_TypedBuf_%s%s.cfg" % (a, sfx)) for a in XAPIS]
        behs, ngen, nst = do_gen(cfg["gen"], "c")
        creps = [ex.submit(do_replay, k, behs) for k in CKINDS]
        results = [f.result() for f in creps + xreps]
        mcres = [(w, f.result()) for w, f in mcs]
    for what, res in mcres:
        ck.add_tlc(res, what)
    ck.cov["transitions"] += ngen
    ck.notes["skeleton_states"] = nst
    samples = []
    for r in results:
        absorb(ck, r, nt)
        samples += r["samples"]

    # 3. binding B: recorded executions at the production granularity
    oks = {k: judge_traces(ck, k, *tr[k], nt) for k in tkinds}
    ck.cov["traces_validated_against_impl"] = sum(len(tr[k][0]) for k in oks if oks[k])
    ck.cov["distinct_nontrivial"] = len(nt)
    ck.cov["exhaustive"] = True
    ck.cov["rule"] = ("A: one behaviour per transition of the TLC state graph of TypedBuf under the view (handle 1: element count, "
                      "capacity, immutable, no-copy, type; other handles: type, shares-with-1), every call with every "
                      "position/count 0..MaxArg and each of the first two copy constructions failing, replayed with the recording "
                      "element type and with the library's array traits (C) and with typed_array/unique_array over a tracked "
                      "class incl. buffer::trim/skip/copy/move (C++); B: seeded histories over 4 handles at the production "
                      "granularity, all handles released at the end, validated by TLC.  Non-trivial = a call destroyed at least one "
                      "element while others stayed alive (fini calls logged by the recording type) resp. changed an inner reference "
                      "count (array kind); distinct by element kind/binding + call sequence.")
    ck.cov["samples"] = samples[:4] + [tr["rec"][0][0][:8]]
    ck.assumptions = ["TLC/SANY and the CommunityModules Json/IOUtils are correct",
                      "drv/typedbuf.c and drv/typedbuf_cxx.cpp record init/fini calls and read slots without judgement",
                      "buffer_alloc.c compiled into the drivers at a scaled granularity is the allocator that ships",
                      "element types other than the recording type, mpt_array_traits and the tracked C++ class are covered only "
                      "as far as they share these code paths",
                      "the exhaustive model is bounded (see MC cfg); beyond it coverage is by the seeded histories"]
    # extension X05: containers of managed elements (checks/x05_containers.py, docs/X05_containers.md)
    import x05_containers
    if x05_containers.enabled():
        x05_containers.run_part(ck, tier)
    return ck.finish()


def replay(path):
    d = json.load(open(path))
    det = d["detail"]
    if det.get("part") == "x05_containers":
        import x05_containers
        return x05_containers.replay(det, path)
    beh = det.get("behaviour")
    if not beh:
        print(json.dumps(det, indent=1)[:4000])
        return 2
    api = det.get("api", "rec")
    exe, args = build(api)
    recs, err = vlib.run_driver(exe, vlib.to_script([beh]), args=args)
    if all("exp" in s for s in beh):
        mms, _ = cow.compare([beh], recs, api, make_match(keys_of(api)), CAP_OPS)
        for mm in mms:
            print("VIOLATION property=%s replay=%s  (%s: %s)" % (PID, path, signature(mm, beh), mm["why"]))
        return 1 if mms else 0
    events = vlib.merge_trace([beh], recs)
    tcfg = "Trace_TypedBuf_arr.cfg" if api in ("arr", "meta") else "Trace_TypedBuf.cfg"
    ok, matched, _ = vlib.validate_trace("Trace_TypedBuf", events, cfg=tcfg, tag="Trace_TypedBuf_replay", xss="1g")
    if not ok:
        print("VIOLATION property=%s replay=%s  (trace rejected at event %d: %s)" %
              (PID, path, matched, json.dumps(events[matched])[:600] if matched < len(events) else "-"))
    return 0 if ok else 1
