"""X23 (extension of C04) -- mapped buffers, bitmaps and array holders under the copy-on-write array statement
(spec/MapBuf.tla = CowArray + buffer kind, spec/BitMap.tla; docs/X23_mapbuf.md)."""
import json
import os
import sys
import time

sys.path.insert(0, os.path.join(os.path.dirname(os.path.abspath(__file__)), "..", "bin"))
import vlib
import c04

PART = "x23_mapbuf"
CFG = {
    "quick":    dict(mc=["MC_MapBuf.cfg"], gen="Gen_MapBuf.cfg", genmeta="Gen_MapBuf_meta.cfg",
                     bmc="MC_BitMap.cfg", bgen="Gen_BitMap.cfg", nhist=10, steps=30, bhist=30, bsteps=40,
                     igen="Gen_MetaIter.cfg", ihist=15, isteps=30),
    "thorough": dict(mc=["MC_MapBuf_t.cfg", "MC_MapBuf_meta.cfg"], gen="Gen_MapBuf_t.cfg", genmeta="Gen_MapBuf_meta_t.cfg",
                     bmc="MC_BitMap_t.cfg", bgen="Gen_BitMap_t.cfg", nhist=60, steps=50, bhist=300, bsteps=80,
                     igen="Gen_MetaIter_t.cfg", ihist=250, isteps=50),
}
MAPPED = 0x10000
PAGE = 4096
HDR = 64


def enabled():
    """The part needs its fix commits (docs/X23_mapbuf.md) in the tree under test: switched on by the marker file
    checks/x23_mapbuf.accepted (created when those commits are integrated) or by VERIF_X23=1, off by VERIF_X23=0."""
    env = os.environ.get("VERIF_X23")
    if env is not None:
        return env not in ("0", "")
    return os.path.exists(os.path.join(vlib.ROOT, "checks", "x23_mapbuf.accepted"))


# --------------------------------------------------------------------------
# signatures: C04's classes of the failing call + the kind of buffer it met (from the driver's own log)
# --------------------------------------------------------------------------
def kind_before(recs_b, i, h):
    """'map' when handle h held a mapped buffer before step i (flag logged by the driver after the previous step)"""
    if i <= 0 or i - 1 >= len(recs_b):
        return "heap"
    fl = ((recs_b[i - 1].get("dbg") or {}).get("flags") or [])
    return "map" if 0 <= h < len(fl) and fl[h] & MAPPED else "heap"


def signature(mm, beh, recs_b):
    st = beh[mm["i"]]
    h = (st.get("arg") or {}).get("h", 1) - 1
    base = c04.signature(mm, beh) if all("mdl" in s for s in beh[:mm["i"]]) else "%s:%s" % (st["a"], mm["why"].split(":")[0].lower())
    if base == "reserve:content:nocopy,same-type":       # C04's open finding (same call path whatever the buffer kind)
        return base
    return "x23:%s:%s" % (kind_before(recs_b, mm["i"], h), base)


_BUILT = {}


def build():
    if "exe" not in _BUILT:
        _BUILT["exe"] = vlib.build_driver("mapbuf", ["mapbuf.c", "mapbuf_seam.c"])
    return _BUILT["exe"]


def with_page(behs, page, meta=None):
    """the driver's page size for the mapped buffers and the first handle standing for a metatype come with the
    init step (model constants Page, Meta)"""
    for beh in behs:
        if beh and beh[0]["a"] == "init":
            arg = dict(beh[0].get("arg") or {}, page=page)
            if meta:
                arg["meta"] = meta
            beh[0] = dict(beh[0], arg=arg)
    return behs


def cfg_meta(cfgname):
    import re
    m = re.search(r"\bMeta\s*=\s*\{\s*(\d*)", open(os.path.join(vlib.SPEC, cfgname)).read())
    return int(m.group(1)) if m and m.group(1) else None


def cfg_const(cfgname, name):
    import re
    m = re.search(r"\b%s\s*=\s*(\d+)" % name, open(os.path.join(vlib.SPEC, cfgname)).read())
    return int(m.group(1))


def nontrivial(recs):
    """a call changed what one handle reads while a MAPPED buffer was shared (reference count > 1) just before"""
    prev = None
    for r in recs:
        d, o = r.get("dbg"), r.get("obs")
        if prev and d and o and prev.get("obs") and prev.get("dbg"):
            pv, cv = prev["obs"].get("vals"), o.get("vals")
            refs = prev["dbg"].get("refs") or []
            fl = prev["dbg"].get("flags") or []
            if pv and cv and len(pv) == len(cv):
                for h in range(len(cv)):
                    if cv[h] != pv[h] and h < len(refs) and refs[h] > 1 and fl[h] & MAPPED:
                        return True
        prev = r
    return False


def do_replay(cfgname, key):
    gen = vlib.tlc("Gen_MapBuf", cfgname, workers=4, tag="Gen_MapBuf-" + key)
    if gen.error or gen.violation:
        raise vlib.MachineryError("behaviour export failed (%s): %s %s" % (cfgname, gen.error, gen.violation or ""))
    behs = with_page(vlib.parse_behaviours(gen.out), cfg_const(cfgname, "Page"), cfg_meta(cfgname))
    gen.out = ""
    exe = build()
    recs, _ = vlib.run_driver(exe, c04.script(behs), timeout=1500, env=c04.DRV_ENV)
    mms, stats = c04.compare(behs, recs, "c")
    by = vlib.group_records(recs)
    found = []
    for mm in mms:
        beh = behs[mm["b"]]
        found.append((signature(mm, beh, by.get(mm["b"], [])),
                      {"part": PART, "binding": "A(replay,%s)" % key, "behaviour": beh[:mm["i"] + 1], "step": mm["i"],
                       "why": mm["why"], "record": mm["rec"]}))
    nt = set()
    for b, beh in enumerate(behs):
        if nontrivial(by.get(b, [])):
            nt.add(key + c04.seq_key(beh))
    note = dict(behaviours=len(behs), mismatches=len(mms), skeleton_states=gen.distinct, transitions=gen.generated, **stats)
    mid = len(behs) // 2
    return dict(key=key, found=found, nt=nt, note=note, samples=[vlib.sample_repr(b) for b in behs[mid:mid + 1]])


# --------------------------------------------------------------------------
# binding B: seeded call sequences (inputs only) at production constants: page 4096, granularity 128
# --------------------------------------------------------------------------
MAPCAPS = [PAGE * k - HDR for k in (1, 2, 3)]          # 4032, 8128, 12224
HEAPCAPS = [64, 192, 320]
NHT = 4                                                   # handles 1..3 arrays, handle 4 stands for a buffer metatype
HUGE, SHUGE = c04.HUGE, c04.SHUGE


def gen_histories(rng, n, steps):
    behs = []
    for hno in range(n):
        big = hno % 3 != 2            # two of three histories work at the page boundaries
        beh = [{"a": "init", "arg": {"n": NHT, "gran": 0, "page": 0, "meta": NHT}}]
        est = [0] * NHT
        typ = ["none"] * NHT
        kind = ["heap"] * NHT
        ctr = [0]

        def fresh(k):
            d = [((ctr[0] + i) % 250) + 1 for i in range(k)]
            ctr[0] += k
            return d

        def near(x):
            return max(0, x + rng.choice([-2, -1, 0, 0, 0, 1, 2]))

        def caps(h):
            return MAPCAPS if kind[h] == "map" else HEAPCAPS

        def length(h):
            free = [e - est[h] for e in caps(h) if e >= est[h]]
            c = [0, 1, 2, 3, rng.randrange(0, 70)] + [near(f) for f in free[:2]] * 2
            if big and kind[h] == "map":
                c += [near(PAGE), near(PAGE - HDR)]
            return min(rng.choice(c), 2 * PAGE + 200)

        def position(h):
            return rng.choice([0, 0, 1, near(est[h]), near(est[h]), est[h], est[h] // 2, near(caps(h)[0])])

        def newlen(t):
            c = [0, 1, 5, near(64), near(PAGE - HDR - 64)] + ([near(PAGE - HDR), near(PAGE - HDR), near(2 * PAGE - HDR), PAGE - HDR - 64,
                                                             PAGE - HDR - 128] if big else [near(128), near(192)])
            k = rng.choice(c)
            return k - k % 2 if t == "n" else k

        if hno % 3 == 0:
            # opening aimed at the print path of a mapped character array: free space a whole number of work chunks,
            # texts that fit / just do not fit (inputs only; what must happen is the specification's business)
            k = rng.choice([1, 1, 2, 3])
            room = 64 * k
            beh.append({"a": "mnew", "arg": {"h": 1, "data": fresh(PAGE - HDR - room), "imm": 0, "nc": 0, "typ": "c"}})
            for n in rng.sample([room, room + 1, room + 64, room - 1], 2) + [rng.choice([room - 1, room, 1])]:
                beh.append({"a": "printf", "arg": {"h": 1, "data": fresh(n)}})
            est[0], typ[0], kind[0] = PAGE - HDR - room, "c", "map"
        for _ in range(steps):
            h = rng.randrange(NHT - 1)
            r = rng.random()
            if r < 0.08:
                g = rng.choice([0, 1, 2, 3, 3])
                beh.append({"a": rng.choice(["meta", "meta", "metaclone"]), "arg": {"h": NHT, "from": g}})
                continue
            if r < 0.12:
                x = rng.choice([HUGE - 1, HUGE - 2, SHUGE, HUGE - max(1, min(est[h], 900))])
                beh.append(rng.choice([
                    {"a": "append", "arg": {"h": h + 1, "data": [], "zero": 1, "hl": x}},
                    {"a": "insert", "arg": {"h": h + 1, "pos": x, "data": fresh(1), "hl": 0}},
                    {"a": "slice", "arg": {"h": h + 1, "off": rng.choice([0, est[h]]), "data": [], "fill": 0, "hl": x}},
                    {"a": "reserve", "arg": {"h": h + 1, "len": x, "typ": typ[h] if typ[h] != "none" else "raw"}},
                ]))
                continue
            op = rng.choice(["mnew", "mnew", "mnew", "new", "append", "append", "append", "insert", "settyped", "slice", "slice",
                             "reserve", "reserve", "clone", "clone", "clone", "clone", "drop", "reduce", "printf", "printf", "printf",
                             "string", "slicewrite", "slicewrite", "bufinsert", "bufcut", "bufcut", "bufset", "encfini"])
            z = rng.choice([0, 0, 0, 1])
            if op in ("mnew", "new"):
                if typ[h] != "none" and rng.random() < 0.7:
                    beh.append({"a": "clone", "arg": {"h": h + 1, "from": 0}})
                    est[h], typ[h], kind[h] = 0, "none", "heap"
                t = rng.choice(["raw", "raw", "raw", "c", "c", "n"])
                k = newlen(t)
                if t == "c" and op == "mnew" and rng.random() < 0.6:
                    k = max(0, PAGE - HDR - 64 * rng.choice([1, 1, 2, 3, 63]))       # free space a whole number of print chunks
                beh.append({"a": op, "arg": {"h": h + 1, "data": fresh(k), "imm": rng.choice([0, 0, 0, 1]),
                                             "nc": rng.choice([0, 0, 0, 0, 1]), "typ": t}})
                if typ[h] == "none":
                    est[h], typ[h], kind[h] = k, t, "map" if op == "mnew" else "heap"
            elif op == "append":
                k = length(h)
                beh.append({"a": op, "arg": {"h": h + 1, "data": [0] * k if z else fresh(k), "zero": z}})
                if typ[h] in ("none", "raw"):
                    est[h] += k
                    typ[h] = "raw"
            elif op == "insert":
                k, p = length(h), position(h)
                beh.append({"a": op, "arg": {"h": h + 1, "pos": p, "data": fresh(k)}})
                est[h] = max(est[h], p) + k
                if typ[h] == "none":
                    typ[h] = "raw"
            elif op == "settyped":
                t = typ[h] if typ[h] in ("c", "n") and rng.random() < 0.8 else rng.choice(["c", "n"])
                e = 2 if t == "n" else 1
                k = length(h)
                if rng.random() < 0.9:
                    k -= k % e
                off = rng.choice([0, 0, 1, -1, -2, near(est[h] // e), est[h] // e, -(est[h] // e), -(est[h] // e) - 1])
                beh.append({"a": op, "arg": {"h": h + 1, "typ": t, "data": [0] * k if z else fresh(k), "off": off, "zero": z}})
                if typ[h] in ("none", t):
                    p = off * e + (est[h] if off < 0 else 0)
                    if p >= 0:
                        est[h] = max(est[h], p + k)
                        typ[h] = t
            elif op == "slice":
                k, p = length(h), position(h)
                f = rng.choice([0, 1, 1])
                beh.append({"a": op, "arg": {"h": h + 1, "off": p, "data": fresh(k) if f else [0] * k, "fill": f}})
                est[h] = max(est[h], p + k)
                if typ[h] == "none":
                    typ[h] = "raw"
            elif op == "reserve":
                t = typ[h] if typ[h] != "none" and rng.random() < 0.8 else rng.choice(["raw", "c", "n"])
                k = rng.choice([0, 1, near(est[h]), est[h], est[h] + 1, near(caps(h)[0]), near(caps(h)[1]), near(caps(h)[1])])
                beh.append({"a": op, "arg": {"h": h + 1, "len": k, "typ": t}})
                if typ[h] != t:
                    est[h] = 0
                typ[h] = t
            elif op in ("clone", "drop"):
                g = 0 if op == "drop" else rng.choice([x for x in range(NHT) if x != h]) + 1
                beh.append({"a": "clone", "arg": {"h": h + 1, "from": g}})
                if g == 0:
                    est[h], typ[h], kind[h] = 0, "none", "heap"
                elif g < NHT and (typ[h] == "none" or typ[g - 1] == "none" or typ[h] == typ[g - 1]):
                    est[h], typ[h], kind[h] = est[g - 1], typ[g - 1], kind[g - 1]
            elif op == "reduce":
                beh.append({"a": op, "arg": {"h": h + 1}})
            elif op == "printf":
                room = min([c - est[h] for c in caps(h) if c >= est[h]] or [0])
                k = rng.choice([0, 1, 5, 62, 63, 64, 65, near(room), near(room), room + 64, near(64 - est[h] % 64)])
                k = max(0, min(k, 300))
                beh.append({"a": op, "arg": {"h": h + 1, "data": fresh(k)}})
                if typ[h] in ("none", "c"):
                    est[h] += k
                    typ[h] = "c"
            elif op == "string":
                beh.append({"a": op, "arg": {"h": h + 1}})
            elif op == "slicewrite":
                off = min(rng.choice([0, 0, 1, est[h] // 2, near(est[h])]), est[h])
                ln = rng.choice([0, est[h] - off, est[h] - off, max(0, est[h] - off - 1), (est[h] - off) // 2])
                esz = rng.choice([1, 1, 2, 3, 8])
                nblk = rng.choice([0, 1, 1, 2, 3, length(h) // esz])
                k = nblk * esz
                beh.append({"a": op, "arg": {"h": h + 1, "off": off, "len": ln, "nblk": nblk, "esz": esz,
                                             "data": [0] * k if z else fresh(k), "zero": z}})
                if typ[h] in ("none", "raw"):
                    typ[h] = "raw"
                    est[h] = max(est[h], off + ln + k)
            elif op == "bufinsert":
                k, p = length(h), position(h)
                beh.append({"a": op, "arg": {"h": h + 1, "pos": p, "data": fresh(k)}})
            elif op == "bufcut":
                p = position(h)
                k = rng.choice([0, 0, 1, 2, max(0, est[h] - p), max(0, est[h] - p) + 1, est[h], est[h] + 1, near(PAGE)])
                beh.append({"a": op, "arg": {"h": h + 1, "off": p, "n": k}})
            elif op == "bufset":
                k, p = length(h), position(h)
                t = typ[h] if typ[h] != "none" and rng.random() < 0.85 else rng.choice(["raw", "c", "n"])
                beh.append({"a": op, "arg": {"h": h + 1, "typ": t, "pos": p, "data": [0] * k if z else fresh(k), "zero": z}})
            elif op == "encfini":
                beh.append({"a": op, "arg": {"h": h + 1}})
                est[h], typ[h], kind[h] = 0, "none", "heap"
        behs.append(beh)
    return behs


def trace_sig(hist, events, k):
    """signature of a rejected trace event: C04's class of the call + kind of the buffer it met (driver's flag log)"""
    ev = events[k]
    prev = events[k - 1] if k and events[k - 1]["b"] == ev["b"] else None
    st = hist[ev["b"]][ev["i"]]
    why = ev["a"].lower() if ev["a"] in ("Crash", "Hang", "Missing") else "rejected"
    h = (st.get("arg") or {}).get("h", 1) - 1
    fl = ((prev or {}).get("dbg") or {}).get("flags") or []
    kind = "map" if 0 <= h < len(fl) and fl[h] & MAPPED else "heap"
    base = c04.collapse(st["a"], why, c04.trace_class(st, prev))
    if base == "reserve:content:nocopy,same-type":
        return base, prev
    return "x23:%s:%s" % (kind, base), prev


def record_traces(ck, cfg):
    exe = build()
    hist = gen_histories(ck.rng, cfg["nhist"], cfg["steps"])
    recs, _ = vlib.run_driver(exe, c04.script(hist), env=c04.DRV_ENV)
    events = vlib.merge_trace(hist, recs)
    return hist, recs, events


def validate_traces(ck, hist, events):
    return c04.validate_traces(ck, hist, events, module="Trace_MapBuf", sigfn=trace_sig, tag="Trace_MapBuf",
                               extra={"part": PART})


# --------------------------------------------------------------------------
# bitmaps (spec/BitMap.tla)
# --------------------------------------------------------------------------
LONGMAX = 499999          # BitMap!LongMax


def bm_script(behs):
    """driver script; positions at the limits of long are written symbolically"""
    out = []
    for beh in behs:
        nb = []
        for st in beh:
            arg = st.get("arg") or {}
            p = arg.get("pos")
            if isinstance(p, int) and p > LONGMAX - 1000:
                st = dict(st, arg=dict(arg, pos="smax-%d" % (LONGMAX - p)))
            elif isinstance(p, int) and p < -(LONGMAX - 1000):
                st = dict(st, arg=dict(arg, pos="smin+%d" % (p + LONGMAX + 1)))
            nb.append(st)
        out.append(nb)
    return vlib.to_script(out)


def bm_match(exp, obs, step=None, rec=None, prev=None):
    if exp.get("ret") == "any":
        return None
    for k in ("ret", "mem"):
        if obs.get(k) != exp.get(k):
            return "%s: expected %s, observed %s" % (k, json.dumps(exp.get(k))[:200], json.dumps(obs.get(k))[:200])
    return None


def bm_class(st, mem_before):
    """class of a bitmap call relative to the map before it (inputs + the driver's own log)"""
    p = (st.get("arg") or {}).get("pos")
    n = 8 * len(mem_before or [])
    if not isinstance(p, int):
        return "first"
    if p < 0:
        return "pos<0"
    if p >= n:
        return "pos>=bits"
    return "bit=%d" % ((mem_before[p // 8] >> (p % 8)) & 1)


def bm_signature(why, beh, i, recs_b):
    mem = ((recs_b[i - 1].get("obs") or {}).get("mem") if 0 < i <= len(recs_b) else None) or []
    return "x23:bitmap:%s:%s:%s" % (beh[i]["a"], why.split(":")[0].lower(), bm_class(beh[i], mem))


def bm_nontrivial(recs):
    """a call changed the map"""
    prev = None
    for r in recs:
        o = r.get("obs") or {}
        if prev is not None and r.get("a") in ("bmset", "bmunset") and o.get("mem") != prev:
            return True
        prev = o.get("mem")
    return False


def do_bm_replay(cfgname):
    gen = vlib.tlc("Gen_BitMap", cfgname, workers=2, tag="Gen_BitMap")
    if gen.error or gen.violation:
        raise vlib.MachineryError("behaviour export failed (%s): %s %s" % (cfgname, gen.error, gen.violation or ""))
    behs = vlib.parse_behaviours(gen.out)
    gen.out = ""
    recs, _ = vlib.run_driver(build(), bm_script(behs), timeout=900, env=c04.DRV_ENV)
    mms = vlib.compare(behs, recs, bm_match)
    by = vlib.group_records(recs)
    found = []
    for mm in mms:
        beh = behs[mm["b"]]
        found.append((bm_signature(mm["why"], beh, mm["i"], by.get(mm["b"], [])),
                      {"part": PART, "bitmap": True, "binding": "A(replay,bitmap)", "behaviour": beh[:mm["i"] + 1],
                       "step": mm["i"], "why": mm["why"], "record": mm.get("rec")}))
    nt = set("bm" + c04.seq_key(beh) for b, beh in enumerate(behs) if bm_nontrivial(by.get(b, [])))
    note = dict(behaviours=len(behs), mismatches=len(mms), skeleton_states=gen.distinct, transitions=gen.generated)
    mid = len(behs) // 2
    return dict(key="bitmap", found=found, nt=nt, note=note, samples=[vlib.sample_repr(b) for b in behs[mid:mid + 1]])


def gen_bm_histories(rng, n, steps):
    behs = []
    for _ in range(n):
        ln = rng.choice([0, 1, 2, 3, 8, 31, 32, 33, rng.randrange(0, 300)])
        fill = rng.choice(["zero", "ones", "rand", "rand"])
        data = [0 if fill == "zero" else 255 if fill == "ones" else rng.randrange(256) for _ in range(ln)]
        beh = [{"a": "init", "arg": {"n": 0}}, {"a": "bminit", "arg": {"data": data}}]
        nb = 8 * ln
        for _ in range(steps):
            p = rng.choice([rng.randrange(0, nb) if nb else 0, rng.randrange(0, nb) if nb else 0, nb - 1, nb, nb + 1, nb + 7, nb + 8,
                            nb - 8, 0, -1, -8, 8 * rng.randrange(0, ln + 2), 8 * rng.randrange(0, ln + 2) - 1,
                            LONGMAX, LONGMAX - 7, -LONGMAX, nb + rng.randrange(0, 100000)])
            beh.append({"a": rng.choice(["bmset", "bmset", "bmunset", "bmunset", "bmget"]), "arg": {"pos": p}})
        behs.append(beh)
    return behs


def bm_record(ck, cfg):
    hist = gen_bm_histories(ck.rng, cfg["bhist"], cfg["bsteps"])
    recs, _ = vlib.run_driver(build(), bm_script(hist), env=c04.DRV_ENV)
    return hist, recs, vlib.merge_trace(hist, recs)


def bm_validate(ck, hist, events):
    """TLC validates the recorded bitmap calls; returns (accepted, matched prefix, transitions)"""
    ok, matched, tres = vlib.validate_trace("Trace_BitMap", events, tag="Trace_BitMap", xss="512m")
    if not ok:
        ok2, matched2, _ = vlib.validate_trace("Trace_BitMap", events, tag="Trace_BitMap", xss="512m")
        if ok2 or matched2 != matched:
            ok, matched = ok2, matched2
    if not ok:
        if matched >= len(events):
            ck.violation("x23:bitmap:trace:short", {"part": PART, "bitmap": True, "matched_prefix": matched})
        else:
            ev = events[matched]
            prev = events[matched - 1] if matched and events[matched - 1]["b"] == ev["b"] else None
            mem = ((prev or {}).get("obs") or {}).get("mem") or []
            why = ev["a"].lower() if ev["a"] in ("Crash", "Hang", "Missing") else "rejected"
            st = hist[ev["b"]][ev["i"]]
            ck.violation("x23:bitmap:%s:%s:%s" % (st["a"], why, bm_class(st, mem)),
                         {"part": PART, "bitmap": True, "binding": "B(trace validation)", "matched_prefix": matched,
                          "rejected_event": ev, "previous_event": prev, "behaviour": hist[ev["b"]][:ev["i"] + 1]})
    return ok, matched, tres.generated


# --------------------------------------------------------------------------
# iterator face of the buffer metatype (spec/MetaIter.tla)
# --------------------------------------------------------------------------
NIT = 4


def it_match(exp, obs, step=None, rec=None, prev=None):
    if exp.get("ret") == "any":
        return None
    for k in ("ts", "ds", "ret"):
        if obs.get(k) != exp.get(k):
            return "%s: expected %s, observed %s" % (k, json.dumps(exp.get(k))[:200], json.dumps(obs.get(k))[:200])
    return None


def it_class(st, prev_obs):
    """class of an iterator/metatype call from the driver's own log before it: what the acting (clone: the cloned)
    instance had as current element"""
    arg = st.get("arg") or {}
    k = arg.get("from", arg.get("i"))
    ts = (prev_obs or {}).get("ts") or []
    if not isinstance(k, int) or not 0 < k <= len(ts):
        return "first"
    return "at-" + ts[k - 1]


def it_signature(why, beh, i, recs_b):
    prev = (recs_b[i - 1].get("obs") if 0 < i <= len(recs_b) else None) or {}
    return "x23:iter:%s:%s:%s" % (beh[i]["a"], why.split(":")[0].lower(), it_class(beh[i], prev))


def it_nontrivial(recs):
    """a call moved one instance while another live instance stood on an element"""
    prev = None
    for r in recs:
        o = r.get("obs") or {}
        ts = o.get("ts")
        if prev and ts and r.get("a") in ("iadv", "ireset") and (ts != prev.get("ts") or o.get("ds") != prev.get("ds")):
            if sum(1 for t in ts if t in ("s", "v")) >= 2 or sum(1 for t in prev.get("ts") if t in ("s", "v")) >= 2:
                return True
        prev = o if ts else prev
    return False


def do_it_replay(cfgname):
    """one TLC run: exhaustive check of MetaIter (the view is the full state) and behaviour export"""
    gen = vlib.tlc("Gen_MetaIter", cfgname, workers=2, tag="Gen_MetaIter")
    if gen.error:
        raise vlib.MachineryError("behaviour export failed (%s): %s" % (cfgname, gen.error))
    behs = vlib.parse_behaviours(gen.out)
    gen.out = gen.out[-6000:]
    recs, _ = vlib.run_driver(build(), vlib.to_script(behs), timeout=900, env=c04.DRV_ENV)
    mms = vlib.compare(behs, recs, it_match)
    by = vlib.group_records(recs)
    found = []
    for mm in mms:
        beh = behs[mm["b"]]
        found.append((it_signature(mm["why"], beh, mm["i"], by.get(mm["b"], [])),
                      {"part": PART, "iter": True, "binding": "A(replay,iter)", "behaviour": beh[:mm["i"] + 1],
                       "step": mm["i"], "why": mm["why"], "record": mm.get("rec")}))
    nt = set("it" + c04.seq_key(beh) for b, beh in enumerate(behs) if it_nontrivial(by.get(b, [])))
    note = dict(behaviours=len(behs), mismatches=len(mms), states=gen.distinct, transitions=gen.generated)
    mid = len(behs) // 2
    return dict(key="iter", found=found, nt=nt, note=note, tlc=gen, samples=[vlib.sample_repr(b) for b in behs[mid:mid + 1]])


def gen_it_histories(rng, n, steps):
    """texts of several NUL-separated segments (empty ones, an unterminated tail, segment lengths around 63/64 and 255,
    totals around the heap granularity), clones taken at random positions, every instance moved/reset/released"""
    behs = []
    for hno in range(n):
        nseg = rng.choice([0, 1, 1, 2, 3, 3, 4, 6])
        text = []
        ctr = hno
        for k in range(nseg):
            ln = rng.choice([0, 1, 2, 5, 5, 8, 62, 63, 64, 65, 127, 254, 255, 256, rng.randrange(0, 40)])
            text += [((ctr + i) % 250) + 1 for i in range(ln)]
            ctr += ln
            if k < nseg - 1 or rng.random() < 0.45:
                text.append(0)
        beh = [{"a": "init", "arg": {"n": NIT, "gran": 0, "page": 0}},
               {"a": "itext", "arg": {"data": text, "map": rng.choice([0, 1])}}]
        live = {1}
        for _ in range(steps):
            r = rng.random()
            free = [i for i in range(1, NIT + 1) if i not in live]
            if r < 0.25 and free and live:
                i = rng.choice(free)
                beh.append({"a": "iclone", "arg": {"i": i, "from": rng.choice(sorted(live))}})
                live.add(i)
            elif r < 0.30:
                beh.append({"a": "iclone", "arg": {"i": rng.randrange(1, NIT + 1), "from": rng.randrange(1, NIT + 1)}})
            elif r < 0.38 and len(live) > 1:
                i = rng.choice(sorted(live))
                beh.append({"a": "iunref", "arg": {"i": i}})
                live.discard(i)
            elif r < 0.50:
                beh.append({"a": "ireset", "arg": {"i": rng.randrange(1, NIT + 1)}})
            else:
                i = rng.choice(sorted(live)) if live and rng.random() < 0.9 else rng.randrange(1, NIT + 1)
                beh.append({"a": "iadv", "arg": {"i": i}})
        behs.append(beh)
    return behs


def it_record(ck, cfg):
    hist = gen_it_histories(ck.rng, cfg["ihist"], cfg["isteps"])
    recs, _ = vlib.run_driver(build(), vlib.to_script(hist), env=c04.DRV_ENV)
    return hist, recs, vlib.merge_trace(hist, recs)


def it_validate(ck, hist, events):
    ok, matched, tres = vlib.validate_trace("Trace_MetaIter", events, tag="Trace_MetaIter", xss="512m")
    if not ok:
        ok2, matched2, _ = vlib.validate_trace("Trace_MetaIter", events, tag="Trace_MetaIter", xss="512m")
        if ok2 or matched2 != matched:
            ok, matched = ok2, matched2
    if not ok:
        if matched >= len(events):
            ck.violation("x23:iter:trace:short", {"part": PART, "iter": True, "matched_prefix": matched})
        else:
            ev = events[matched]
            prev = events[matched - 1] if matched and events[matched - 1]["b"] == ev["b"] else None
            why = ev["a"].lower() if ev["a"] in ("Crash", "Hang", "Missing") else "rejected"
            st = hist[ev["b"]][ev["i"]]
            ck.violation("x23:iter:%s:%s:%s" % (st["a"], why, it_class(st, (prev or {}).get("obs"))),
                         {"part": PART, "iter": True, "binding": "B(trace validation)", "matched_prefix": matched,
                          "rejected_event": ev, "previous_event": prev, "behaviour": hist[ev["b"]][:ev["i"] + 1]})
    return ok, matched, tres.generated


class _Locked:
    """Check facade for worker threads: violation() under a lock"""
    def __init__(self, ck):
        import threading
        self.ck, self.lock = ck, threading.Lock()
        self.known_hit = ck.known_hit

    def violation(self, sig, detail):
        with self.lock:
            return self.ck.violation(sig, detail)


def run_part(ck, tier):
    from concurrent.futures import ThreadPoolExecutor
    t0 = time.time()
    cfg = CFG[tier]
    build()
    hist, recs, events = record_traces(ck, cfg)          # uses ck.rng: before the threads start
    bhist, brecs, bevents = bm_record(ck, cfg)
    ihist, irecs, ievents = it_record(ck, cfg)
    with ThreadPoolExecutor(max_workers=8) as ex:
        mcs = [("mapbuf: exhaustive " + m, ex.submit(vlib.tlc, "MC_MapBuf", m, 6, tag="MC_" + m)) for m in cfg["mc"]]
        mcs.append(("mapbuf: exhaustive " + cfg["bmc"], ex.submit(vlib.tlc, "MC_BitMap", cfg["bmc"], 2, tag="MC_BitMap")))
        reps = [ex.submit(do_replay, cfg["gen"], "map"), ex.submit(do_replay, cfg["genmeta"], "meta"),
                ex.submit(do_bm_replay, cfg["bgen"]), ex.submit(do_it_replay, cfg["igen"])]
        lck = _Locked(ck)
        tv = ex.submit(validate_traces, lck, hist, events)
        tb = ex.submit(bm_validate, lck, bhist, bevents)
        ti = ex.submit(it_validate, lck, ihist, ievents)
        results = [f.result() for f in reps]
        mcres = [(w, f.result()) for w, f in mcs]
        ok, matched, tgen, cuts = tv.result()
        bok, bmatched, btgen = tb.result()
        iok, imatched, itgen = ti.result()
    for what, res in mcres:
        ck.add_tlc(res, what)
    ck.add_tlc(results[-1]["tlc"], "mapbuf: exhaustive + export " + cfg["igen"])
    note = ck.notes.setdefault(PART, {})
    nt = set()
    for r in results:
        for sig, detail in r["found"]:
            ck.violation(sig, detail)
        nt |= r["nt"]
        ck.cov["evaluations"] += r["note"]["behaviours"]
        ck.cov["transitions"] += r["note"]["transitions"]
        note.setdefault("replay", {})[r["key"]] = r["note"]
        ck.cov["samples"] = list(ck.cov.get("samples") or []) + r["samples"][:1]
    ck.cov["transitions"] += tgen + btgen + itgen
    by = vlib.group_records(recs)
    for b, beh in enumerate(hist):
        if nontrivial(by.get(b, [])):
            nt.add("t" + c04.seq_key(beh))
    by = vlib.group_records(brecs)
    for b, beh in enumerate(bhist):
        if bm_nontrivial(by.get(b, [])):
            nt.add("tbm" + c04.seq_key(beh))
    by = vlib.group_records(irecs)
    for b, beh in enumerate(ihist):
        if it_nontrivial(by.get(b, [])):
            nt.add("tit" + c04.seq_key(beh))
    if iok:
        ck.cov["traces_validated_against_impl"] += len(ihist)
    if ok:
        ck.cov["traces_validated_against_impl"] += len(hist)
    if bok:
        ck.cov["traces_validated_against_impl"] += len(bhist)
    ck.cov["evaluations"] += len(hist) + len(bhist) + len(ihist)
    ck.cov["distinct_nontrivial"] += len(nt)
    note["trace"] = dict(histories=len(hist), events=len(events), matched=matched, accepted=ok,
                         behaviours_cut_at_known_finding=cuts)
    note["trace_bitmap"] = dict(histories=len(bhist), events=len(bevents), matched=bmatched, accepted=bok)
    note["trace_iter"] = dict(histories=len(ihist), events=len(ievents), matched=imatched, accepted=iok)
    note["distinct_nontrivial"] = len(nt)
    note["wall_s"] = round(time.time() - t0, 1)
    ck.cov["rule"] = (ck.cov.get("rule") or "") + (
        "  Mapped-buffer part (X23): one behaviour per transition of the TLC state graph of MapBuf (= CowArray with a buffer kind) "
        "under the view (handle 1: used, capacity, immutable, no-copy, type, kind, has-terminator; others: type, kind, shares-with-1) "
        "restricted to histories with a mapped buffer alive resp. with a buffer metatype made, every C call with every offset/length "
        "0..MaxArg and sizes at the limits of size_t, replayed into the real code with buffer_map.c compiled at the scaled page size "
        "(guard page and canary bytes behind every mapping); the same for BitMap (per byte empty/full/mixed, last answer); seeded "
        "histories over 3 arrays + 1 metatype at page 4096 / granularity 128 (lengths around 3968, 4032, 8128 and 64/192) and seeded "
        "bitmap calls on maps of 0..300 bytes validated by TLC.  Non-trivial = a call changed what a handle reads while its mapped "
        "buffer was shared just before, resp. a bitmap call changed the map.  Iterator face of the buffer metatype (MetaIter): every "
        "transition of the complete state graph (texts of NUL-separated segments incl. empty ones and an unterminated tail; per "
        "instance its position; clone taken at every position) replayed into mpt_meta_buffer / clone() / advance / reset / value, the "
        "current element of EVERY instance read after every call; seeded histories over 4 instances on heap and mapped texts (segments "
        "around 63/64/255 bytes) validated by TLC.  Non-trivial there = an instance moved while another one stood on an element.")
    ck.assumptions = list(ck.assumptions or []) + [
        "drv/mapbuf.c (+ the included drv/cowarray.c) and drv/mapbuf_seam.c project the state without judgement; the seam's "
        "mmap wrapper only adds a guard page and canary bytes behind each mapping",
        "a buffer metatype is observed through the buffer it hands out (conversion to TypeBufferPtr)"]
    return ok and bok and iok


def replay(det, path="-"):
    beh = det.get("behaviour")
    if not beh:
        print(json.dumps(det, indent=1)[:4000])
        return 2
    exe = build()
    if det.get("iter"):
        recs, _ = vlib.run_driver(exe, vlib.to_script([beh]), env=c04.DRV_ENV)
        if all("exp" in s for s in beh):
            mms = vlib.compare([beh], recs, it_match)
            for mm in mms:
                print("VIOLATION property=C04 replay=%s  (%s: %s)" % (path, it_signature(mm["why"], beh, mm["i"], recs), mm["why"]))
            return 1 if mms else 0
        events = vlib.merge_trace([beh], recs)
        ok, matched, _ = vlib.validate_trace("Trace_MetaIter", events, tag="Trace_MetaIter_replay")
    elif det.get("bitmap"):
        recs, _ = vlib.run_driver(exe, bm_script([beh]), env=c04.DRV_ENV)
        if all("exp" in s for s in beh):
            mms = vlib.compare([beh], recs, bm_match)
            for mm in mms:
                print("VIOLATION property=C04 replay=%s  (%s: %s)" % (path, bm_signature(mm["why"], beh, mm["i"], recs), mm["why"]))
            return 1 if mms else 0
        events = vlib.merge_trace([beh], recs)
        ok, matched, _ = vlib.validate_trace("Trace_BitMap", events, tag="Trace_BitMap_replay")
    else:
        recs, _ = vlib.run_driver(exe, c04.script([beh]), env=c04.DRV_ENV)
        if all("exp" in s for s in beh):
            mms, _ = c04.compare([beh], recs, "c")
            for mm in mms:
                print("VIOLATION property=C04 replay=%s  (%s: %s)" % (path, signature(mm, beh, recs), mm["why"]))
            return 1 if mms else 0
        events = vlib.merge_trace([beh], recs)
        ok, matched, _ = vlib.validate_trace("Trace_MapBuf", events, tag="Trace_MapBuf_replay", xss="1g")
    if not ok:
        print("VIOLATION property=C04 replay=%s  (trace rejected at event %d: %s)" %
              (path, matched, json.dumps(events[matched])[:600] if matched < len(events) else "-"))
    return 0 if ok else 1


if __name__ == "__main__":
    tier = sys.argv[1] if len(sys.argv) > 1 else "quick"
    if tier == "replay":
        sys.exit(replay(json.load(open(sys.argv[2]))["detail"], sys.argv[2]))
    if tier in ("quick", "thorough"):
        # development entry: runs the part alone, prints violations, writes no evidence
        ck = vlib.Check("C04", tier)
        ck.pid = "X23dev"
        run_part(ck, tier)
        seen = set()
        for sig, f in ck.known_hit.items():
            print("KNOWN-FINDING: %s [%s]" % (f.get("what", "")[:100], sig))
        for sig, path in ck.violations:
            if sig not in seen:
                seen.add(sig)
                print("VIOLATION replay=%s (%s)" % (path, sig))
        print(json.dumps({"cov": {k: v for k, v in ck.cov.items() if k not in ("samples", "rule")}, "notes": ck.notes,
                          "tlc": getattr(ck, "tlc", None)}, indent=1, default=str)[:7000])
        sys.exit(1 if seen else 0)
    if tier == "gen":
        t0 = time.time()
        r = do_replay(sys.argv[2], "dev")
        print(json.dumps(r["note"], indent=1), "%.1fs" % (time.time() - t0))
        from collections import Counter
        c = Counter(s for s, _ in r["found"])
        for s, n in c.most_common(40):
            print(n, s)
        seen = set()
        for s, d in r["found"]:
            if s not in seen and len(seen) < int(os.environ.get("SHOW", "6")):
                seen.add(s)
                print("----", s, d["why"])
                for st in d["behaviour"]:
                    print("   ", st["a"], json.dumps(st.get("arg"))[:200])
                print("    rec:", json.dumps(d["record"])[:600])
        sys.exit(0)
    if tier == "it":
        ck = vlib.Check("C04", "quick")
        ck.pid = "X23dev"
        t0 = time.time()
        r = do_it_replay(sys.argv[2])
        print(json.dumps(r["note"]), len(r["nt"]), r["tlc"].violation, "%.1fs" % (time.time() - t0))
        for s_, d in r["found"][:5]:
            print(s_, d["why"], json.dumps([(x["a"], x.get("arg")) for x in d["behaviour"]])[:400])
        hist, recs, events = it_record(ck, dict(ihist=int(sys.argv[3]), isteps=int(sys.argv[4])))
        from collections import Counter
        print(Counter((e["a"], (e.get("obs") or {}).get("ret")) for e in events).most_common(40))
        print(it_validate(ck, hist, events), len(events), "%.1fs" % (time.time() - t0))
        for sig, path in ck.violations:
            print("VIOLATION", sig, path)
        sys.exit(0)
    if tier == "bm":
        ck = vlib.Check("C04", "quick")
        ck.pid = "X23dev"
        t0 = time.time()
        r = do_bm_replay(sys.argv[2])
        print(json.dumps(r["note"]), len(r["nt"]), "%.1fs" % (time.time() - t0))
        for s_, d in r["found"][:5]:
            print(s_, d["why"], json.dumps(d["behaviour"])[:400])
        hist, recs, events = bm_record(ck, dict(bhist=int(sys.argv[3]), bsteps=int(sys.argv[4])))
        print(bm_validate(ck, hist, events), len(events), "%.1fs" % (time.time() - t0))
        for sig, path in ck.violations:
            print("VIOLATION", sig, path)
        sys.exit(0)
    if tier == "trace":
        ck = vlib.Check("C04", "quick")
        ck.pid = "X23dev"
        cfg = dict(nhist=int(sys.argv[2]), steps=int(sys.argv[3]))
        t0 = time.time()
        hist, recs, events = record_traces(ck, cfg)
        print("recorded", len(events), "events %.1fs" % (time.time() - t0), "bytes", sum(len(json.dumps(e)) for e in events))
        from collections import Counter
        print(Counter((e["a"], (e.get("obs") or {}).get("ret")) for e in events).most_common(80))
        ok, matched, ngen, cuts = validate_traces(ck, hist, events)
        print("ok", ok, "matched", matched, "cuts", cuts, "%.1fs" % (time.time() - t0))
        for sig, path in ck.violations:
            print("VIOLATION", sig, path)
        for sig in ck.known_hit:
            print("KNOWN", sig)
        sys.exit(0)
