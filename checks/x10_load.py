"""X10 -- extension of C10 (spec/ConfigLoad.tla): how values arrive in and leave the configuration other than by
single assignments: mpt_config_load (file / folder, explicit root or MPT_PREFIX), mpt_config_environ,
mpt_config_args, mpt_config_clear, mpt_message_assign, mpt_config_reply, mpt_node_parse / mpt_parse_node on a
node of the process-wide configuration, mpt_path_fputs / mpt_path_data.

run_part(ck, tier) adds its TLC results, replay / trace counts, violations and notes to the given vlib.Check of C10.
All judgement is TLC's: Python transports (text, expected answers) from the specification to the driver and compares
for equality under the projection documented in docs/X10_load.md ([-2] = "empty text or absent", [-3] = "statement
silent")."""
import json
import os
import re
import threading
import vlib
import c14 as common       # chunks(), callkey()

TAG = "X10"
FAST_ENV = {"ASAN_OPTIONS": vlib.ASAN_ENV + ":symbolize=0"}

CFG = {
    # (the hist and p export configurations also carry the invariants and action properties: one TLC run explores,
    # checks and exports; the docs model is checked under the forest view with more prior states than are exported)
    "quick": dict(mc=["MC_ConfigLoad_docs.cfg"],
                  gen=["Gen_ConfigLoad_merge.cfg", "Gen_ConfigLoad_p.cfg", "Gen_ConfigLoad_hist.cfg", "Gen_ConfigLoad_docs.cfg"],
                  nhist=10, steps=40),
    "thorough": dict(mc=["MC_ConfigLoad_docs_t.cfg"],
                     gen=["Gen_ConfigLoad_merge_t.cfg", "Gen_ConfigLoad_hist_t.cfg", "Gen_ConfigLoad_two_t.cfg", "Gen_ConfigLoad_p_t.cfg", "Gen_ConfigLoad_hist3_t.cfg",
                          "Gen_ConfigLoad_docs_t.cfg"],
                     nhist=50, steps=70),
}
CHECKED = ("Gen_ConfigLoad_merge.cfg", "Gen_ConfigLoad_merge_t.cfg", "Gen_ConfigLoad_hist.cfg", "Gen_ConfigLoad_p.cfg", "Gen_ConfigLoad_hist_t.cfg", "Gen_ConfigLoad_p_t.cfg",
           "Gen_ConfigLoad_hist3_t.cfg")
LISTKEYS = ("uni", "rel", "vars", "items", "els", "paths")
PATH_ACTIONS = ("pset", "pnext", "plast", "pdel", "paddelem")
VAGUE, UNKNOWN, ABSENT = [-2], [-3], [-1]


def enabled():
    """The part needs its fix commits (docs/X10_load.md) in the tree under test: it is switched on by the marker file
    checks/x10_load.accepted (created when those commits are integrated) or by VERIF_X10=1, off by VERIF_X10=0."""
    env = os.environ.get("VERIF_X10")
    if env is not None:
        return env not in ("0", "")
    return os.path.exists(os.path.join(vlib.ROOT, "checks", "x10_load.accepted"))


def tmpdir():
    base = os.environ.get("TMPDIR") or os.path.join(vlib.WORK, TAG, "tmp")
    return vlib.ensure(os.path.join(base, "x10-%d" % os.getpid()))


def build():
    return vlib.build_driver("configload", ["configload.c"])


# ---------------------------------------------------------------------------
# script language (transport only)
def hexs(b):
    if b == [0]:
        return "00"
    return "".join("%02x" % x for x in b) or "-"


def fmt_step(st, quiet):
    toks = [st["a"]]
    for k, v in (st.get("arg") or {}).items():
        if k == "docs":
            continue
        if k in LISTKEYS:
            toks.append("%s=%s" % (k, ";".join(hexs(x) for x in v) or "none"))
        elif v == ABSENT and k in ("file", "dir"):
            toks.append("%s=none" % k)
        else:
            toks.append("%s=%s" % (k, vlib.fmt_val(v)))
    if quiet:
        toks.append("q=1")
    return " ".join(toks)


def script(behs, quiet_prefix=True):
    lines = []
    for i, beh in enumerate(behs):
        lines.append("B %d" % i)
        for j, st in enumerate(beh):
            lines.append(fmt_step(st, quiet_prefix and j < len(beh) - 1))
    return "\n".join(lines) + "\n"


def sim(e, o):
    """expected answer of one path against the observed one: equality, except the two markers of the specification"""
    return e == o or e == UNKNOWN or (e == VAGUE and o in ([], ABSENT))


def match(exp, obs, step, rec, prev):
    """Verdict projection: the answers of every path of the universe (from the root and through the view); for a query
    message its answer; for the path object its elements / printed text / data behind the path."""
    if not exp:
        return None
    a = step["a"]
    if a in PATH_ACTIONS:
        keys = ("els",)
    elif a == "pfputs":
        keys = ("text",)
    elif a == "pdata":
        keys = ("post",)
    else:
        keys = ("all", "rel") + (("vals",) if a == "msgget" else ())
    for k in keys:
        if k not in obs:
            return "%s: missing" % k
        if k in ("all", "rel"):
            if len(exp[k]) != len(obs[k]):
                return "%s: %d answers for %d paths" % (k, len(obs[k]), len(exp[k]))
            diff = [i for i, (x, y) in enumerate(zip(exp[k], obs[k])) if not sim(x, y)]
            if diff:
                return "%s: paths %s: expected %s, observed %s" % (k, diff[:6], json.dumps([exp[k][i] for i in diff[:6]]),
                                                                   json.dumps([obs[k][i] for i in diff[:6]]))
        elif obs[k] != exp[k]:
            return "%s: expected %s, observed %s" % (k, json.dumps(exp[k])[:300], json.dumps(obs[k])[:300])
    if not exp.get("anyret") and obs.get("ret") != exp.get("ret"):
        return "ret: expected %s, observed %s" % (json.dumps(exp.get("ret")), json.dumps(obs.get("ret")))
    return None


def arg_class(st):
    """discriminating condition of a failing step, computed from its arguments"""
    arg = st.get("arg") or {}
    a = st["a"]
    cl = []
    for k in ("cfg", "via", "how"):
        if k in arg:
            cl.append(str(arg[k]))
    if a == "load":
        cl.append("+".join(k for k in ("file", "dir") if arg.get(k) != ABSENT))
    if a == "environ":
        cl.append("pat=default" if arg.get("pat") == [0] else "pat")
        cl.append("sep=%s" % arg.get("sep"))
    if a == "args":
        cl.append("log=%s" % arg.get("log"))
        cl.append("no_eq" if any(61 not in x for x in arg.get("items", [])) else "all_eq")
    if a == "msgset":
        cl.append("hdr=%s" % arg.get("hdr"))
        cl.append("els=%d" % min(len(arg.get("els", [])), 2))
        cl.append("cut" if arg.get("split", 1000) < 1000 else "whole")
        n = len(arg.get("val", []))
        cl.append("value_len>=250" if n >= 250 else "value_len=0" if n == 0 else "value")
    if a == "msgget":
        cl.append("sep=%s" % arg.get("sep"))
        cl.append("paths=%d" % min(len(arg.get("paths", [])), 2))
    if a in ("nodeparse", "parsenode"):
        f = arg.get("fmt") or [0]
        cl.append("fmt=default" if f == [0] else "fmt=%s" % "".join(chr(x) for x in f[:3]))
    if "val" in arg and a == "assign":
        n = len(arg["val"])
        cl.append("value_len>=250" if n >= 250 else "value_len=0" if n == 0 else "value")
    if "seps" in arg:
        cl.append("seps=default" if arg["seps"] == [0] else "seps")
    if "elem" in arg:
        n = len(arg["elem"])
        cl.append("elem_len>255" if n > 255 else "elem_len=0" if n == 0 else "elem")
    return ",".join(cl) or "-"


def signature(mm, label, beh=None):
    st = mm["step"]
    why = mm["why"]
    if why in ("Crash", "Hang"):
        return "x10:%s:%s:%s:%s" % (label, st["a"], why.lower(), arg_class(st))
    key = why.split(":")[0]
    # an option written with an empty value over a value of 250 bytes and more (class of the failing step: every
    # differing path expects the marker "empty or absent"; class of the history: such a value was assigned before)
    if st["a"] == "load" and key in ("all", "rel") and beh and mm.get("rec"):
        exp, obs = st["exp"][key], (mm["rec"].get("obs") or {}).get(key) or []
        diff = [x for x, y in zip(exp, obs) if not sim(x, y)]
        longv = any(len((s.get("arg") or {}).get("val") or []) >= 250 for s in beh[:mm["i"]])
        if diff and all(x == VAGUE for x in diff) and longv and len(exp) == len(obs):
            return "x10:%s:load:%s:empty_option_over_value_len>=250" % (label, key)
    return "x10:%s:%s:%s:%s" % (label, st["a"], key, arg_class(st))


def nontrivial_a(beh):
    """store: a value arrived through a route other than a single call at a path that held or later received another
    value, or next to other stored paths; path object: changed at least twice, or printed / asked after a change"""
    acts = [s["a"] for s in beh]
    if beh[-1]["a"] in PATH_ACTIONS + ("pfputs", "pdata"):
        return len([a for a in acts if a in PATH_ACTIONS]) >= 2
    routes = [a for a in acts[1:] if a not in ("assign", "remove")]
    return len(routes) >= 1 and len(acts) >= 3


# ---------------------------------------------------------------------------
# binding A
def export(gencfg, out):
    wdir = vlib.ensure(os.path.join(vlib.WORK, TAG))
    tag = gencfg.replace(".cfg", "")
    path = os.path.join(wdir, "behav-%s-%d.txt" % (tag, os.getpid()))
    if os.path.exists(path):
        os.unlink(path)
    try:
        out[gencfg] = (path, vlib.tlc("Gen_ConfigLoad", gencfg, workers=3, extra=("-userFile", path), tag="Gen_ConfigLoad-" + tag,
                                      xss="64m"))
    except Exception as e:
        out[gencfg] = (path, e)


def binding_a(ck, exe, gencfg, nt, samples, path, gen, env):
    tag = gencfg.replace(".cfg", "")
    if isinstance(gen, Exception):
        raise vlib.MachineryError("X10 behaviour export failed: %s" % gen)
    if gen.error:
        raise vlib.MachineryError("X10 behaviour export failed: %s" % gen.error)
    if gencfg in CHECKED or gen.violation:          # this run also checked invariants and action properties
        ck.add_tlc(gen, "x10 exhaustive+export " + gencfg)
    label = tag.replace("Gen_ConfigLoad_", "").replace("_t", "")
    total = nmm = crashes = 0
    failed = {}
    cut = False
    seen = set()
    dups = 0
    for ch in common.chunks(path, 8000):
        behs = []
        for beh in vlib.parse_behaviours("".join(ch)):
            # the same calls reached through different draft documents (single calls made before a document is used)
            if all(s["a"] in ("init", "assign", "remove") for s in beh):
                k = common.callkey(beh)
                if k in seen:
                    dups += 1
                    continue
                seen.add(k)
            behs.append(beh)
        if not behs:
            continue
        recs, _ = vlib.run_driver(exe, script(behs), env=env, timeout=900)
        for mm in vlib.compare(behs, recs, match):
            failed[common.callkey(behs[mm["b"]])] = behs[mm["b"]]
            nmm += 1
            crashes += mm["why"] in ("Crash", "Hang")
        total += len(behs)
        if crashes > 300:
            cut = True
            break
        for beh in behs:
            if nontrivial_a(beh):
                nt.add(label + common.callkey(beh))
        if len(samples) < 3:
            samples.append({"impl": "x10:" + label, "behaviour": vlib.sample_repr(behs[len(behs) // 2])})
    os.unlink(path)
    rootb = []
    for key, beh in sorted(failed.items(), key=lambda kv: len(kv[1])):
        calls = json.loads(key)
        if any(json.dumps(calls[:k]) in failed for k in range(1, len(calls))):
            continue
        rootb.append(beh)
    roots = 0
    persig = {}
    if rootb:      # once more, fully logged, before reporting
        e2 = dict(env)
        e2.pop("ASAN_OPTIONS", None)
        recs, _ = vlib.run_driver(exe, script(rootb[:400], quiet_prefix=False), env=e2)
        for mm in vlib.compare(rootb[:400], recs, match):
            roots += 1
            sig = signature(mm, label, rootb[mm["b"]])
            persig[sig] = persig.get(sig, 0) + 1
            if persig[sig] <= 2:
                ck.violation(sig, {"binding": "A(replay)", "part": "x10", "behaviour": rootb[mm["b"]], "step": mm["i"],
                                   "why": mm["why"], "record": mm["rec"]})
    # draft steps are transitions but not calls: fewer lines than transitions
    if not cut and not (1 <= total + dups <= gen.generated):
        raise vlib.MachineryError("X10 behaviour export incomplete: %d lines for %d transitions" % (total, gen.generated))
    ck.cov["evaluations"] += total
    ck.notes.setdefault("x10_replay", []).append({"cfg": gencfg, "behaviours": total, "mismatches": nmm,
                                                  "mismatches_without_failed_prefix": roots, "signatures": persig,
                                                  "cut_after_crashes": cut, "tlc_generated": gen.generated, "same_calls_skipped": dups,
                                                  "tlc_wall_s": round(gen.wall, 1)})
    return total


# ---------------------------------------------------------------------------
# binding B: seeded histories mixing all arrival routes, recorded and validated by TLC
BASE = [[118], [119, 119]]           # "v", "ww": Base of Trace_ConfigLoad.cfg
GAPS = ["none", "sp", "tab", "nl", "blank", "crlf", "com", "spcom"]
BLANKS = ["none", "sp", "tab", "sp2", "mix"]
FORMATS = [([0], [0]), (list(b"[*] = "), list(b"ENSWensw")), (list(b"[ ] = #"), list(b"ENSWensw")),
           (list(b"{*} =;!# `"), list(b"ENSWensw")), (list(b"<x> = "), [0])]


def runs_of(bs):
    out = []
    for b in bs:
        if out and out[-1][0] == b:
            out[-1][1] += 1
        else:
            out.append([b, 1])
    return out


def bjoin(elems, sep):
    out = []
    for i, e in enumerate(elems):
        if i:
            out.append(sep)
        out += e
    return out


class Hist:
    """generator of one history: call sequence only (no expectation)"""

    def __init__(self, rng, steps):
        self.rng = rng
        r = rng
        # option / element names (lower case: the environment route folds case), section names (letters only)
        longn = [107] * r.choice([254, 255, 256, 300])
        self.names = [[97], [98], [99, 49], [100, 120], longn, [97, 98]]
        self.sects = [[115], [116, 116], [117] * r.choice([3, 255, 256]), []]
        # (a history has either values of 250 bytes and more or options written with an empty value, not both:
        # known finding empty_option_over_value_len>=250, decided by the replay of the exported behaviours)
        self.long = r.random() < 0.5
        self.vals = [[], [120], list(b"y z"), list(b"q=1"), list(b" lead"), list(b"a\"b"),
                     [118] * (r.choice([250, 255, 256, 300]) if self.long else r.choice([200, 248, 249])), list(b"x #c"), [200, 255, 1]]
        self.paths = []
        for _ in range(7):
            d = r.choice([1, 1, 2, 2, 3])
            self.paths.append([r.choice(self.names + [[109, 112, 116]]) for _ in range(d)])
        self.paths += [[[109, 112, 116], [97]], [[109, 112, 116], [115], [97]], BASE + [[97]], BASE + [[115], [98]], [[97]],
                       [[97], [115]], [[97], [115], [98]], BASE, [[109, 112, 116]]]
        self.events = []
        self.steps = steps
        self.hot = []          # paths some call of this history assigned to (query messages ask mostly for these)

    def path(self):
        return self.rng.choice(self.paths)

    def note(self, p):
        if p:
            self.hot.append(p)
        if p and p not in self.paths and len(self.paths) < 40:
            self.paths.append(p)

    def val(self):
        return list(self.rng.choice(self.vals))

    def deco(self, kind):
        r = self.rng
        d = {"g": r.choice(GAPS), "g2": r.choice(GAPS), "b1": r.choice(BLANKS), "b2": r.choice(BLANKS),
             "b3": r.choice(BLANKS), "term": r.choice(["nl", "nl", "com", "eof"])}
        if d["term"] == "com" and d["b3"] == "none":
            d["b3"] = "sp"
        if kind == "open":
            d["g2"] = r.choice(["none", "none", "nl", "blank", "spcom"])
            if r.random() < 0.5:
                d["b1"] = "none"
        return d

    def doc(self, base, names, nitems):
        """items of one document; every name at most once (a name written twice: statement silent)"""
        r = self.rng
        names = list(names)
        sects = list(self.sects)
        r.shuffle(names)
        r.shuffle(sects)
        items = []
        cur = list(base)
        depth = 0
        for _ in range(nitems):
            k = r.choice(["opt", "opt", "opt", "open", "close"])
            if k == "opt" and names:
                n = names.pop()
                v = self.val()
                while self.long and not v:
                    v = self.val()
                v = [c for c in v if c != 10]
                items.append({"k": "opt", "n": runs_of(n), "v": runs_of(v), "q": r.choice([1] * 6 + [2] * 2 + [0, 34, 39]),
                              "d": self.deco("opt")})
                self.note(cur + [n])
            elif k == "open" and sects and depth < 2:
                n = sects.pop()
                items.append({"k": "open", "n": runs_of(n), "v": [], "q": 0, "d": self.deco("open")})
                cur = cur + [n]
                depth += 1
            elif k == "close" and depth:
                items.append({"k": "close", "n": [], "v": [], "q": 0, "d": self.deco("close")})
                cur = cur[:-1]
                depth -= 1
        return items

    def cfg(self, allow_null=True):
        return self.rng.choice(["top", "view"] + (["null"] if allow_null else []))

    def cbase(self, cfg, route):
        return BASE if cfg == "view" else [[109, 112, 116]] if (cfg == "null" and route == "load") else []

    def gen(self):
        r = self.rng
        for _ in range(self.steps):
            x = r.random()
            if x < 0.14:
                p = self.path()
                via = "view" if p[:2] == BASE and len(p) > 2 and r.random() < 0.7 else "top"
                s = bjoin(p[2:] if via == "view" else p, 46)
                self.events.append({"a": "assign", "arg": {"via": via, "path": s, "sep": 46, "end": 0, "val": [c for c in self.val() if c]}})
                self.hot.append(p)
            elif x < 0.22:
                p = self.path()
                self.events.append({"a": "remove", "arg": {"via": "top", "path": bjoin(p, 46), "sep": 46}})
            elif x < 0.36:
                cfg = self.cfg()
                where = r.choice(["file", "dir", "both"])
                how = r.choice(["root", "root", "prefix"])
                b = self.cbase(cfg, "load")
                half = len(self.names) // 2
                docs = [self.doc(b, self.names, r.randrange(0, 6))] if where != "both" else \
                    [self.doc(b, self.names[:half], r.randrange(0, 4)), self.doc(b, self.names[half:], r.randrange(0, 4))]
                self.events.append({"a": "load", "arg": {"cfg": cfg, "how": how, "where": where, "docs": docs}})
            elif x < 0.48:
                cfg = self.cfg()
                sep = r.choice([0, 0, 95, 46, 58])
                s = 95 if sep == 0 else sep
                how = r.choice(["array", "array", "environ"])
                pat = r.choice([[0], [0], list(b"mpt%c*" % s), list(b"*"), list(b"?*%ca" % s), list(b"a*")])
                vs, seen = [], set()
                for _ in range(r.randrange(0, 5)):
                    p = [e for e in self.path() if e and s not in e and 61 not in e]
                    if not p or (len(p) < 2 and r.random() < 0.5):
                        p = [[109, 112, 116]] + p
                    name = bjoin(p, s)
                    if len(name) > 900:
                        continue
                    shown = [c - 32 if 97 <= c <= 122 and r.random() < 0.6 else c for c in name]
                    if bytes(name) in seen and how == "environ":
                        continue
                    seen.add(bytes(name))
                    vs.append(shown + [61] + [c for c in self.val() if c])
                    self.note(self.cbase(cfg, "environ") + p)
                if how == "array" and r.random() < 0.3:
                    vs.insert(r.randrange(0, len(vs) + 1), list(b"mpt_noequal"))
                self.events.append({"a": "environ", "arg": {"cfg": cfg, "how": how, "pat": pat, "sep": sep, "vars": vs}})
            elif x < 0.58:
                cfg = self.cfg(False)
                items = []
                for _ in range(r.randrange(1, 5)):
                    p = [e for e in self.path() if 46 not in e and 61 not in e]
                    if r.random() < 0.15:
                        items.append(bjoin(p, 46))          # no '='
                    else:
                        items.append(bjoin(p, 46) + [61] + [c for c in self.val() if c])
                        self.note(self.cbase(cfg, "args") + p)
                self.events.append({"a": "args", "arg": {"cfg": cfg, "log": r.choice([0, 1]), "items": items}})
            elif x < 0.66:
                cfg = self.cfg(False)
                items = [bjoin(self.path(), 46) if r.random() < 0.85 else [] for _ in range(r.randrange(1, 4))]
                self.events.append({"a": "clear", "arg": {"cfg": cfg, "items": items}})
            elif x < 0.76:
                cfg = self.cfg()
                p = [e for e in self.path()] if r.random() < 0.92 else []
                v = [c for c in self.val() if c]
                if r.random() < 0.3:                      # the terminator sent along with the value (and bytes behind it)
                    v = v + [0] + r.choice([[], [], [122]])
                if sum(len(e) + 1 for e in p) + len(v) > 1000:
                    v = v[:20]
                    p = p[:1]
                if sum(len(e) + 1 for e in p) + len(v) > 1000:
                    continue
                self.note(self.cbase(cfg, "msgset") + p)
                self.events.append({"a": "msgset", "arg": {"cfg": cfg, "hdr": r.choice([0, 1]), "split": r.choice([1000000, 0, 1, 2, 3, 5, 300]),
                                                           "els": p, "val": v}})
            elif x < 0.86:
                cfg = self.cfg()
                sep = r.choice([0, 0, 32])
                ps = []
                for _ in range(r.choice([1, 2, 3, 3, 4])):
                    p = None if ps and r.random() < 0.25 else r.choice(self.hot[-12:]) if self.hot and r.random() < 0.8 else self.path()
                    if p is None:
                        ps.append(list(r.choice(ps)))
                        continue
                    b = self.cbase(cfg, "msgget")
                    if p[:len(b)] == b and len(p) > len(b):
                        p = p[len(b):]
                    s = bjoin(p, 46)
                    if s and 32 not in s and 34 not in s and 39 not in s:
                        ps.append(s)
                if ps:
                    self.events.append({"a": "msgget", "arg": {"cfg": cfg, "sep": sep, "split": r.choice([1000000, 0, 1, 3]), "paths": ps}})
            else:
                kind = r.choice(["nodeparse", "parsenode", "parsenode"])
                base = r.choice([[[97]], [[109, 112, 116]], [[97], [115]], BASE, [[109, 112, 116], [97]]])
                fmt, acc = r.choice(FORMATS)
                if kind == "nodeparse" and acc == [0]:
                    acc = list(b"ENSWensw")
                short = [n for n in self.names if len(n) < 10]
                if r.random() < 0.6:
                    # an existing tree below the base first: several elements on one level (some with children), in any
                    # order, through one argument list; the text then names some of them, others not, and new ones
                    lvl = r.sample(short, r.choice([2, 3, 3, 4]))
                    items = []
                    for n in lvl:
                        q = base + [n] + ([r.choice(short)] if r.random() < 0.4 else [])
                        items.append(bjoin(q, 46) + [61] + [c for c in self.val() if c])
                        self.note(q)
                    self.events.append({"a": "args", "arg": {"cfg": "top", "log": 0, "items": items}})
                self.events.append({"a": kind, "arg": {"base": bjoin(base, 46), "bsep": 46, "fmt": fmt, "acc": acc,
                                                       "docs": [self.doc(base, short if r.random() < 0.7 else self.names, r.randrange(0, 6))]}})
                for _ in range(r.choice([0, 1, 1, 2])):      # what the merge left behind an element shows after its removal
                    self.events.append({"a": "remove", "arg": {"via": "top", "path": bjoin(base + [r.choice(short)], 46), "sep": 46}})
        uni = [bjoin(p, 46) for p in self.paths if p]
        rel = [[0]] + [bjoin(p[2:], 46) for p in self.paths if p[:2] == BASE and len(p) > 2]
        init = {"a": "init", "arg": {"base": bjoin(BASE, 46), "sep": 46, "uni": uni, "rel": rel}}
        return [init] + self.events


def gen_path_history(rng, steps):
    hist = [{"a": "init", "arg": {"base": bjoin(BASE, 46), "sep": 46, "uni": [], "rel": []}}]
    lens = [0, 1, 1, 2, 3, 7, 60, 254, 255, 256, 300]

    def elem(sep):
        n = rng.choice(lens)
        return [rng.choice([97, 98, 47, 58, 46, 32]) for _ in range(n)] if n <= 3 else [97] * (n - 1) + [rng.choice([97, 98])]
    sep = 46
    for _ in range(steps):
        r = rng.random()
        if r < 0.22:
            sep = rng.choice([46, 47, 58])
            asg = rng.choice([0, 61, 61])
            s = bjoin([[c for c in elem(sep) if c not in (sep, 61)] for _ in range(rng.choice([1, 2, 3, 5]))], sep)
            if asg and rng.random() < 0.7:
                s = s + [61] + [rng.choice([120, 61, sep, 32]) for _ in range(rng.choice([0, 1, 4, 300]))]
            hist.append({"a": "pset", "arg": {"str": s, "sep": sep, "asg": asg}})
        elif r < 0.32:
            hist.append({"a": "pnext", "arg": {"x": 0}})
        elif r < 0.38:
            hist.append({"a": "plast", "arg": {"x": 0}})
        elif r < 0.46:
            hist.append({"a": "pdel", "arg": {"x": 0}})
        elif r < 0.62:
            hist.append({"a": "paddelem", "arg": {"elem": [c for c in elem(sep) if c not in (0, 61, sep)]}})
        elif r < 0.9:
            hist.append({"a": "pfputs", "arg": {"seps": rng.choice([[0], [47], [58, 58], [], [46]])}})
        else:
            hist.append({"a": "pdata", "arg": {"x": 0}})
    # pdata is specified right after pset only
    out = []
    for i, e in enumerate(hist):
        if e["a"] == "pdata" and hist[i - 1]["a"] != "pset":
            continue
        out.append(e)
    return out


def trace_signature(ev, call=None):
    if ev is None:
        return "x10:trace:short"
    if ev["a"] in ("Crash", "Hang", "Garbled", "Missing"):
        return "x10:trace:%s:%s:%s" % (call["a"] if call else "?", ev["a"].lower(), arg_class(call) if call else "-")
    return "x10:trace:%s:rejected:%s" % (ev["a"], arg_class(ev))


def nontrivial_b(hist):
    acts = [s["a"] for s in hist]
    if "pset" in acts:
        return "pfputs" in acts and len([a for a in acts if a in PATH_ACTIONS]) >= 5
    return len(set(acts) & {"load", "environ", "args", "msgset", "nodeparse", "parsenode"}) >= 4 and \
        ("clear" in acts or "remove" in acts)


def render_texts(hists, tag):
    """pass 1: TLC renders the documents of the events that carry item lists; the texts go into the events"""
    events = []
    for b, h in enumerate(hists):
        for i, st in enumerate(h):
            events.append({"a": st["a"], "arg": st["arg"], "b": b, "i": i})
    tdir = vlib.ensure(os.path.join(vlib.WORK, "traces"))
    path = os.path.join(tdir, "%s-pass1-%d.ndjson" % (tag, os.getpid()))
    with open(path, "w") as f:
        for e in events:
            f.write(json.dumps(e, separators=(",", ":")) + "\n")
    res = vlib.tlc("Trace_ConfigLoad", "Trace_ConfigLoad.cfg", workers=1, env={"TRACE": path}, xss="1g", tag=tag + "-pass1")
    if res.error or res.violation:
        raise vlib.MachineryError("X10 rendering pass failed: %s %s\n%s" % (res.error, res.violation, res.out[-2500:]))
    m = re.findall(r'<<"MATCHED", (\d+)>>', res.out)
    if not m or int(m[-1]) != len(events):
        raise vlib.MachineryError("X10 rendering pass stopped at event %s of %d\n%s" % (m[-1] if m else "?", len(events), res.out[-2500:]))
    os.unlink(path)
    n = 0
    for ln in res.out.splitlines():
        mm = re.match(r'<<"TEXT", (\d+), (".*")>>$', ln)
        if not mm:
            continue
        ev = events[int(mm.group(1)) - 1]
        t = json.loads(json.loads(mm.group(2)))
        arg = ev["arg"]
        if ev["a"] == "load":
            arg["file"] = ABSENT if arg["where"] == "dir" else t["doc"]
            arg["dir"] = ABSENT if arg["where"] == "file" else t["doc"] if arg["where"] == "dir" else t["doc2"]
        else:
            arg["text"] = t["doc"]
        n += 1
    want = sum(1 for e in events if "docs" in e["arg"])
    if n != want:
        raise vlib.MachineryError("X10 rendering pass: %d texts for %d documents" % (n, want))
    return res


def binding_b(rng, exe, n, steps, env):
    """runs beside binding A in a thread: returns what is to be added to the Check (no shared state is touched)"""
    out = {"violations": [], "nt": set(), "transitions": 0, "good": 0, "n": 0, "notes": {}, "sample": None}
    hists = [Hist(rng, steps).gen() for _ in range(n)] + [gen_path_history(rng, steps) for _ in range(max(2, n // 5))]
    r1 = render_texts(hists, "Trace_ConfigLoad")
    e2 = dict(env)
    e2.pop("ASAN_OPTIONS", None)
    recs, _ = vlib.run_driver(exe, script(hists, quiet_prefix=False), env=e2)
    events = vlib.merge_trace(hists, recs)
    ok, matched, tres = vlib.validate_trace("Trace_ConfigLoad", events, cfg="Trace_ConfigLoad.cfg", tag="Trace_ConfigLoad", xss="1g")
    out["transitions"] = tres.generated + r1.generated
    if not ok:
        ok2, matched2, _ = vlib.validate_trace("Trace_ConfigLoad", events, cfg="Trace_ConfigLoad.cfg", tag="Trace_ConfigLoad", xss="1g")
        if not ok2 and matched2 == matched:
            ev = events[matched] if matched < len(events) else None
            beh = hists[ev["b"]][:ev["i"] + 1] if ev else None
            out["violations"].append((trace_signature(ev, beh[-1] if beh else None),
                                      {"binding": "B(trace validation)", "part": "x10", "matched_prefix": matched, "rejected_event": ev,
                                       "behaviour": beh, "tlc_tail": tres.out[-1500:]}))
        else:
            ok = ok2
    bad_b = events[matched]["b"] if (not ok and matched < len(events)) else None
    for b, h in enumerate(hists):
        if nontrivial_b(h):
            out["nt"].add("x10b" + common.callkey([{"a": s["a"], "arg": {k: v for k, v in s["arg"].items() if k != "docs"}} for s in h]))
        if ok or (bad_b is not None and b < bad_b):
            out["good"] += 1
    out["n"] = len(hists)
    acts = {}
    for e in events:
        acts[e["a"]] = acts.get(e["a"], 0) + 1
    out["notes"] = {"histories": len(hists), "events": len(events), "events_matched": matched, "by_action": acts,
                    "render_wall_s": round(r1.wall, 1), "validate_wall_s": round(tres.wall, 1)}
    out["sample"] = [{"a": s["a"], "arg": {k: v for k, v in s["arg"].items() if k not in ("docs", "uni", "rel")}} for s in hists[0][:6]]
    return out


# ---------------------------------------------------------------------------
def run_part(ck, tier):
    cfg = CFG[tier]
    exe = build()
    tdir = tmpdir()
    env = dict(FAST_ENV, VERIF_X10_TMP=tdir)
    mcres = []

    def model_check(mc):
        try:
            mcres.append((mc, vlib.tlc("MC_ConfigLoad", mc, tag="MC_ConfigLoad-" + mc, workers=max(2, vlib.NCPU // 4), xss="64m")))
        except Exception as e:
            mcres.append((mc, e))
    mths = [threading.Thread(target=model_check, args=(mc,)) for mc in cfg["mc"]]
    for t in mths:
        t.start()
    nt = set()
    samples = []
    exports = {}
    gths = [threading.Thread(target=export, args=(g, exports)) for g in cfg["gen"]]
    for t in gths:
        t.start()
    replayed = 0
    bres = {}

    def traces():
        try:
            bres["out"] = binding_b(brng, exe, cfg["nhist"], cfg["steps"], env)
        except Exception as e:
            bres["out"] = e
    import random
    brng = random.Random(ck.rng.randrange(1 << 30))
    bth = threading.Thread(target=traces)
    bth.start()
    try:
        for g, t in zip(cfg["gen"], gths):
            t.join()
            replayed += binding_a(ck, exe, g, nt, samples, *exports[g], env=env)
    finally:
        for t in gths + mths + [bth]:
            t.join()
    b = bres.get("out")
    if isinstance(b, Exception) or b is None:
        raise b if isinstance(b, vlib.MachineryError) else vlib.MachineryError("X10 trace validation: %r" % (b,))
    for sig, det in b["violations"]:
        ck.violation(sig, det)
    nt |= b["nt"]
    ck.cov["transitions"] += b["transitions"]
    ck.cov["traces_validated_against_impl"] += b["good"]
    ck.cov["evaluations"] += b["n"]
    ck.notes["x10_trace"] = b["notes"]
    sample_b = b["sample"]
    try:
        os.rmdir(tdir)
    except OSError:
        pass
    if len(mcres) != len(cfg["mc"]):
        raise vlib.MachineryError("X10 model checking run did not finish")
    for mc, res in sorted(mcres, key=lambda x: x[0]):
        if isinstance(res, Exception):
            raise vlib.MachineryError("X10 model checking %s: %s" % (mc, res))
        ck.add_tlc(res, "x10 exhaustive " + mc)
    ck.cov["distinct_nontrivial"] = ck.cov.get("distinct_nontrivial", 0) + len(nt)
    ck.cov["samples"] = list(ck.cov.get("samples") or [])[:4] + samples[:1] + [{"impl": "x10 (recorded history)", "calls": sample_b}]
    ck.cov["rule"] += ("  X10 (ConfigLoad): A: one behaviour per call transition of the TLC graph of ConfigLoad (documents of up to "
                       "2 [3] items written by the ConfText generator, loaded as file / folder / both through mpt_config_load, "
                       "replaced or merged into a node; environments, argument lists, removal lists, set and query messages from "
                       "curated sets; up to 2 [3] calls per behaviour); B: seeded histories mixing all routes, documents rendered and "
                       "the recorded answers judged by TLC.  Non-trivial (A) = a call of an arrival route after at least one other "
                       "call; (B) = at least four different arrival routes and a removal in one history.")
    ck.assumptions += ["X10: the configuration language is the ConfText generator's (C09); fnmatch is modelled for patterns of "
                       "literals, '*' and '?'; environment names are folded with the C locale's tolower",
                       "X10: drv/configload.c projects without judgement; files are written below $TMPDIR or _work/X10/tmp"]
    ck.notes["x10"] = {"behaviours_replayed": replayed, "tmpdir": tdir}


def replay(det, path="-"):
    """re-run one recorded violation of this part (called by c10.replay)"""
    beh = det.get("behaviour")
    if not beh:
        print(json.dumps(det, indent=1)[:4000])
        return 2
    exe = build()
    tdir = tmpdir()
    try:
        recs, _ = vlib.run_driver(exe, script([beh], quiet_prefix=False), env={"VERIF_X10_TMP": tdir})
    finally:
        try:
            os.rmdir(tdir)
        except OSError:
            pass
    if not any("exp" in st for st in beh):
        events = vlib.merge_trace([beh], recs)
        ok, matched, _ = vlib.validate_trace("Trace_ConfigLoad", events, cfg="Trace_ConfigLoad.cfg", tag="Trace_ConfigLoad-replay", xss="1g")
        if not ok:
            print("VIOLATION property=C10 replay=%s  (x10 trace rejected at event %d: %s)" %
                  (path, matched, json.dumps(events[matched])[:600] if matched < len(events) else "-"))
        return 0 if ok else 1
    mms = vlib.compare([beh], recs, match)
    for mm in mms:
        print("VIOLATION property=C10 replay=%s  (%s: %s)" % (path, signature(mm, "replay"), mm["why"]))
    return 1 if mms else 0
