"""C02 extension X29 -- the message stream over a child process's pipes and log entries over a connection
(spec/PipeLog.tla).

run_part(ck, tier) adds to the C02 check: exhaustive TLC run of PipeLog (scaled log limit, all segmentations of the
bounded model), replay of TLC-generated behaviours into mpt_stream_pipe / mpt_connection_push / mpt_connection_log /
mpt_stream_poll / mpt_stream_dispatch / mpt_stream_close (drv/pipelog.c: the stream talks to an echoing child) with
every shipped framing, and TLC trace validation of seeded longer histories (chunked echo, /bin/cat, children that exit
in the middle of a frame, messages larger than the pipe buffer with a slow reader and a non-blocking descriptor).
Python generates call sequences only and compares for equality."""
import json
import os
import time
import vlib

PID = "C02"
PART = "x29_pipelog"
ENV = {"ASAN_OPTIONS": vlib.ASAN_ENV + ":symbolize=0"}
KINDS = ["cobs", "cobs_r", "zpe", "zpe_r"]
UNL = 1000000
CFG = {
    "quick":    dict(mcs=["MC_PipeLog.cfg"], gens=[("Gen_PipeLog.cfg", 220), ("Gen_PipeLog_ls.cfg", 160), ("Gen_PipeLog_l1.cfg", 60)], nhist=30, steps=30, nbig=2),
    "thorough": dict(mcs=["MC_PipeLog.cfg", "MC_PipeLog_t.cfg"], gens=[("Gen_PipeLog.cfg", 0), ("Gen_PipeLog_l.cfg", 1400), ("Gen_PipeLog_lt1.cfg", 400)],
                     nhist=220, steps=60, nbig=8),
}


def enabled():
    """Needs its fix commits (docs/X29_pipelog.md) in the tree under test: switched on by the marker file
    checks/x29_pipelog.accepted or by VERIF_X29=1, off by VERIF_X29=0."""
    env = os.environ.get("VERIF_X29")
    if env is not None:
        return env not in ("0", "")
    return os.path.exists(os.path.join(vlib.ROOT, "checks", "x29_pipelog.accepted"))


def build():
    return vlib.build_driver("pipelog", ["pipelog.c"], libs=("mptio", "mptcore"))


def logclass(arg):
    def c(n):
        return "0" if n == 0 else "s" if n < 200 else "L"
    return "f%s.t%s%s" % (c(arg["fn"]) if arg.get("fp") else "-", c(arg["tn"]) if arg.get("tp") else "-",
                          ".fcn" if arg.get("ty", 0) & 0x800 else "")


def signature(step, why, beh=None, i=0):
    key = why.lower() if why in ("Crash", "Hang", "Garbled", "Missing") else why.split(":")[0].split(" ")[0]
    ctx = "-"
    if step["a"] == "log":
        ctx = logclass(step.get("arg") or {})
    elif beh:
        op = [s for s in beh[:i + 1] if s["a"] == "open"]
        if op:
            a = op[-1].get("arg") or {}
            ctx = ("lim" if a.get("qk", UNL) < UNL else "cat" if a.get("cat") else "nb" if a.get("nb") else "echo")
            if any(s["a"] == "log" for s in beh[:i + 1]):
                ctx += "+log"
    return "x:pipelog:%s:%s:%s" % (step["a"], key, ctx)


def run(exe, behs, timeout=900):
    recs, _ = vlib.run_driver(exe, vlib.to_script(behs), env=dict(ENV), timeout=timeout)
    return recs


def key_of(beh):
    return json.dumps([(s["a"], s.get("arg") if s["a"] != "start" else len(s["arg"]["data"])) for s in beh], sort_keys=True)


def nontrivial(recs):
    """a message was handed out after its bytes came back through the pipes"""
    back = got = False
    for r in recs:
        o = r.get("obs") or {}
        back = back or bool(o.get("r"))
        got = got or o.get("ret") == "msg"
    return back and got


def rnd_msg(rng, big=False):
    if big:
        n = rng.choice([70000, 100000, 140000])
        zero = rng.choice([0, 0.002, 0.2])
        return [0 if rng.random() < zero else rng.randrange(1, 256) for _ in range(n)]
    n = rng.choice([0, 1, 2, 5, 30, 253, 254, 255, 600])
    mode = rng.choice(["rnd", "rnd", "zero", "nz"])
    return [0 if mode == "zero" else rng.randrange(1, 256) if mode == "nz" else rng.choice([0, 0, 1, 7, 200, 255]) for _ in range(n)]


def rnd_log(rng):
    fp = rng.choice([0, 1, 1])
    tp = rng.choice([0, 1, 1])
    ty = rng.choice([0, 3, 4, 8, 0x800 | 4, 0x800 | 0x10, 0x20 | 3, 0x800 | 0x7f])
    fn = rng.choice([0, 0, 1, 8, 100, 249, 250, 251, 252, 253, 254, 300]) if fp else 0
    # text lengths around the place where the entry is full (the generator aims at the limit; TLC decides)
    edge = 256 - (3 if fp and ty & 0x800 else 2) - fn - 1
    tn = rng.choice([0, 0, 1, 2, 40, 200, 248, 249, 250, 251, 252, 253, 254, 500] + [max(0, edge - 1), max(0, edge), max(0, edge + 1)] * 3) if tp else 0
    return {"fp": fp, "fc": rng.choice([65, 97, 200]), "fn": fn, "tp": tp, "tc": rng.choice([66, 120, 233]), "tn": tn, "ty": ty}


def gen_histories(ck, n, steps, nbig):
    """call sequences only (no expected values).  The generator keeps the CALL state (descriptor open, message
    started, bytes handed over) to form legal sequences; what comes back is TLC's business."""
    rng = ck.rng
    behs = []
    for h in range(n + nbig):
        big = h >= n
        beh = [{"a": "init", "arg": {"kind": rng.choice(KINDS)}}]
        lim = (not big) and rng.random() < 0.3
        opn = {"qk": rng.choice([0, 1, 1, 2, 3]) if lim else UNL, "qj": rng.choice([0, 1, 2, 6]) if lim else 0,
               "chunk": rng.choice([1, 2, 7, 64, 4096, 65536]) if not big else rng.choice([4096, 65536, 1000]),
               "delay": 0, "nb": 0, "cat": 0}
        if big:
            opn["nb"] = rng.choice([1, 1, 0])
            opn["delay"] = rng.choice([0, 30, 120])
        elif not lim and rng.random() < 0.2:
            opn["cat"] = 1
        elif rng.random() < 0.2:
            opn["nb"] = 1
        if rng.random() < 0.5:
            beh.append({"a": "openbad", "arg": {"how": rng.choice(["missing", "noexec", "null", "nofork"])}})
        beh.append({"a": "open", "arg": opn})
        on, left, sent = False, 0, 0

        def settle():
            beh.append({"a": "deliver", "arg": {"x": 0}})
            for _ in range(sent + 1):
                beh.append({"a": "recv", "arg": {"x": 0}})

        if big:
            m = rnd_msg(rng, True)
            if opn["nb"] == 0:
                m = m[:90000]     # a blocking descriptor: both pipes and the child's buffer take the whole frame
            pre = rng.random() < 0.5
            if pre:
                beh += [{"a": "log", "arg": rnd_log(rng)}]
                sent += 1
            beh.append({"a": "start", "arg": {"data": m}})
            cut = rng.choice([len(m), len(m) // 2, 65536, 1])
            beh.append({"a": "push", "arg": {"n": cut}})
            if cut < len(m):
                beh.append({"a": "push", "arg": {"n": len(m) - cut}})
            beh.append({"a": "end", "arg": {"x": 0}})
            sent += 1
            if rng.random() < 0.5:
                beh += [{"a": "start", "arg": {"data": [1, 0, 2]}}, {"a": "push", "arg": {"n": 3}}, {"a": "end", "arg": {"x": 0}}]
                sent += 1
            if rng.random() < 0.5:
                beh += [{"a": "log", "arg": rnd_log(rng)}]
                sent += 1
            for _ in range(6):
                beh.append({"a": rng.choice(["deliver", "deliver", "poll"]), "arg": {"x": 0}})
                if rng.random() < 0.3:
                    beh.append({"a": "recv", "arg": {"x": 0}})
                beh.append({"a": rng.choice(["flush", "pollout"]), "arg": {"x": 0}})
            settle()
            beh.append({"a": "close", "arg": {"x": 0}})
            behs.append(beh)
            continue
        for _ in range(rng.randrange(steps // 2, steps)):
            op = rng.choice(["start", "start", "push", "push", "push", "end", "end", "log", "log", "poll", "poll", "deliver",
                             "recv", "recv", "recv", "openbad", "flush", "pollout", "reopen"])
            if op == "start" and not on:
                m = rnd_msg(rng)
                beh.append({"a": "start", "arg": {"data": m}})
                on, left = True, len(m)
            elif op == "push" and on and left:
                k = rng.choice([1, 1, 2, left, left, max(1, left // 2)])
                k = min(k, left)
                beh.append({"a": "push", "arg": {"n": k}})
                left -= k
            elif op == "end" and on:
                if left:
                    beh.append({"a": "push", "arg": {"n": left}})
                beh.append({"a": "end", "arg": {"x": 0}})
                on, left = False, 0
                sent += 1
            elif op == "log":
                beh.append({"a": "log", "arg": rnd_log(rng)})
                sent += 1        # an upper bound (a refused entry is none): only the number of final recv calls
            elif op in ("poll", "deliver", "recv", "flush", "pollout"):
                beh.append({"a": op, "arg": {"x": 0}})
            elif op == "openbad":
                beh.append({"a": "openbad", "arg": {"how": rng.choice(["missing", "noexec", "null"])}})
            elif op == "reopen" and not on and not lim and rng.random() < 0.4:
                # the stream already has descriptors: after everything was received, or after a close
                settle()
                if rng.random() < 0.5:
                    beh.append({"a": "close", "arg": {"x": 0}})
                beh.append({"a": "open", "arg": dict(opn, chunk=rng.choice([1, 5, 4096]))})
        if on:
            if left:
                beh.append({"a": "push", "arg": {"n": left}})
            beh.append({"a": "end", "arg": {"x": 0}})
            sent += 1
        settle()
        beh.append({"a": "close", "arg": {"x": 0}})
        beh.append({"a": "openbad", "arg": {"how": rng.choice(["missing", "noexec", "null", "nofork"])}})
        behs.append(beh)
    return behs


def events_of(behs, recs):
    evs = vlib.merge_trace(behs, recs)
    for e in evs:
        if e["a"] in ("Crash", "Hang", "Garbled", "Missing"):
            e["of"] = behs[e["b"]][e["i"]]["a"]
        e.pop("dbg", None)
    return evs


def validate(ck, events, what, behs, binding):
    ok, matched, tres = vlib.validate_trace("Trace_PipeLog", events, tag="Trace_PipeLog_" + what, xss="1g", timeout=1200)
    ck.cov["transitions"] += tres.generated
    if not ok:
        ev = events[matched] if matched < len(events) else None
        beh = behs[ev["b"]] if ev and ev.get("b") is not None and ev["b"] < len(behs) else None
        if ev is None:
            sig = "x:pipelog:trace:short"
        elif ev["a"] in ("Crash", "Hang", "Garbled", "Missing"):
            sig = "x:pipelog:trace:" + signature({"a": ev.get("of", "?"), "arg": (beh[ev["i"]].get("arg") if beh else {})}, ev["a"], beh, ev["i"])[10:]
        else:
            sig = "x:pipelog:trace:" + signature(ev, "rejected", beh, ev["i"])[10:]
        small = lambda e: None if e is None else {k: (v if k != "obs" else {a: (b if not isinstance(b, list) or len(b) < 600 else b[:40] + ["...", len(b)])
                                                                      for a, b in v.items()}) for k, v in e.items() if k != "arg" or len(json.dumps(v)) < 3000}
        ck.violation(sig, {"x29": 1, "binding": binding, "matched_prefix": matched, "rejected_event": small(ev),
                           "previous_event": small(events[matched - 1]) if matched else None,
                           "behaviour": beh[:ev["i"] + 1] if beh and ev else beh, "tlc": (tres.violation or "")[:3000], "part": PART})
    return ok, matched


def run_part(ck, tier):
    cfg = CFG[tier]
    notes = ck.notes.setdefault(PART, {})
    t0 = time.time()
    exe = build()
    # 1. model
    for mc in cfg["mcs"]:
        res = vlib.tlc("MC_PipeLog", mc, tag="MC_PipeLog_" + mc.split(".")[0][3:])
        ck.add_tlc(res, "exhaustive " + mc)
    notes["model_check_s"] = round(time.time() - t0, 1)
    # 2. binding A: behaviours of the specification replayed into the code, framings in rotation
    behs = []
    ngen = 0
    for g, sample in cfg["gens"]:
        gen = vlib.tlc("Gen_PipeLog", g, workers=1, tag="Gen_PipeLog_" + g.split(".")[0][4:])
        if gen.error or gen.violation:
            raise vlib.MachineryError("behaviour export failed (%s): %s %s" % (g, gen.error, gen.violation))
        bs = vlib.parse_behaviours(gen.out)
        ngen += len(bs)
        if sample and len(bs) > sample:
            # a seeded sample of the generated behaviours; of the one-entry configurations (full-state view) every
            # behaviour that follows a log entry up to its reception is kept
            keep = [b for b in bs if g.endswith("1.cfg") and b[-1]["a"] == "recv" and b[-1]["exp"]["ret"] == "msg"]
            rest = [b for b in bs if not (g.endswith("1.cfg") and b[-1]["a"] == "recv" and b[-1]["exp"]["ret"] == "msg")]
            bs = keep + ck.rng.sample(rest, min(sample, len(rest)))
        behs += bs
    for i, b in enumerate(behs):
        b[0]["arg"]["kind"] = KINDS[i % 4]
    notes["behaviours_generated"] = ngen
    recs = run(exe, behs)
    mms = vlib.compare(behs, recs)
    per_sig = {}
    for mm in mms:
        sig = signature(mm["step"], mm["why"] if mm["rec"] else "Missing", behs[mm["b"]], mm["i"])
        per_sig[sig] = per_sig.get(sig, 0) + 1
        if per_sig[sig] <= 2:
            ck.violation(sig, {"x29": 1, "binding": "A(replay)", "behaviour": behs[mm["b"]][:mm["i"] + 1], "step": mm["i"],
                               "why": mm["why"], "record": mm["rec"], "part": PART})
    nt = set()
    by = vlib.group_records(recs)
    for b, beh in enumerate(behs):
        if nontrivial(by.get(b, [])):
            nt.add(key_of(beh))
    ck.cov["evaluations"] += len(behs)
    notes["behaviours_replayed"] = len(behs)
    notes["replay_mismatches"] = len(mms)
    notes["replay_mismatch_kinds"] = per_sig
    if behs:
        ck.cov["samples"] = ck.cov.get("samples", []) + [vlib.sample_repr(behs[len(behs) // 2])]
    notes["replay_s"] = round(time.time() - t0, 1)
    # 3. binding B: seeded histories validated by TLC
    hist = gen_histories(ck, cfg["nhist"], cfg["steps"], cfg["nbig"])
    recs2 = run(exe, hist)
    events = events_of(hist, recs2)
    ok, matched = validate(ck, events, "hist", hist, "B(trace validation)")
    by2 = vlib.group_records(recs2)
    for b, beh in enumerate(hist):
        if nontrivial(by2.get(b, [])):
            nt.add(key_of(beh))
    ck.cov["traces_validated_against_impl"] += len(hist) if ok else 0
    ck.cov["evaluations"] += len(hist)
    ck.cov["distinct_nontrivial"] += len(nt)
    notes["trace_events"] = len(events)
    notes["trace_events_matched"] = matched
    notes["short_writes_seen"] = sum(1 for r in recs2 if r.get("a") in ("end", "flush", "pollout") and (r.get("dbg") or {}).get("wdone", 0) > 0
                                     and (r.get("obs") or {}).get("w"))
    notes["messages_received_in_traces"] = sum(1 for r in recs2 if (r.get("obs") or {}).get("ret") == "msg")
    notes["log_entries_in_traces"] = sum(1 for r in recs2 if r.get("a") == "log" and (r.get("obs") or {}).get("ret") == "ok")
    notes["part_wall_s"] = round(time.time() - t0, 1)
    notes["rule"] = ("A: one behaviour per transition of the TLC state graph of PipeLog under the view (open, child quota, composing, "
                     "messages sent, delimiters in the pipe / input queue, messages received) replayed into the code, the four framings "
                     "in rotation; B: seeded histories (chunked echo, /bin/cat, children exiting inside a frame, frames larger than the "
                     "pipe buffer on a non-blocking descriptor with a slow reader, log entries of all length classes) validated by TLC; "
                     "nontrivial = bytes came back through the pipes and a message was handed out")
    ck.assumptions += ["drv/pipelog.c projects without judgement (records the bytes the library writes to / reads from the pipe "
                       "descriptors through its own read/readv/write/writev, counts /proc/self/fd, counts zero bytes); the echo helper "
                       "is the environment (forwards unaltered, in order)"]


def replay(det, path="-"):
    beh = det.get("behaviour")
    if not beh:
        print(json.dumps(det, indent=1)[:4000])
        return 2
    exe = build()
    recs = run(exe, [beh])
    if all("exp" in s for s in beh):
        mms = vlib.compare([beh], recs)
        for mm in mms:
            print("VIOLATION property=%s replay=%s  (%s)" % (PID, path, mm["why"]))
        return 1 if mms else 0
    events = events_of([beh], recs)
    ok, matched, _ = vlib.validate_trace("Trace_PipeLog", events, tag="Trace_PipeLog_replay", xss="1g")
    if not ok:
        print("VIOLATION property=%s replay=%s  (trace rejected at event %d: %s)" % (
            PID, path, matched, json.dumps(events[matched])[:600] if matched < len(events) else "-"))
    return 0 if ok else 1
