"""C02 -- message stream integrity under arbitrary segmentation (spec/Stream.tla)."""
import json
import os
import vlib

PID = "C02"
MANIFEST = dict(
    spec="Stream.tla (+MC_Stream, Fair_Stream, Gen_Stream, Trace_Stream)",
    text="TLC checks on the stream model (sender pieces, finished-frame flush, arbitrary wire cuts, receive) that the received "
         "list is always a prefix of the sent list, every finished frame is in exactly one place, a receive answers 'none' only "
         "without a complete frame, and (with fairness) everything sent is eventually received.  Every transition of the bounded "
         "model (2 messages, block code 5, several ring shapes incl. wrapped start offsets, piece sizes 1/2/all) is replayed into the "
         "real encode_queue/decode_queue code driven by the unmodified COBS sources compiled at block code 5 (flushed bytes, delivered "
         "bytes, received messages compared), and seeded schedules with the four shipped framings, messages of 0..800 bytes and "
         "single-byte / after-code / after-delimiter cuts are recorded from the real code and validated by TLC against the same spec.",
    note="Trusted: TLC, drv/stream.c (follows mpt_stream_push/flush/poll/dispatch call for call, in-memory wire), C01 for the byte-level "
         "correctness of COBS/R and ZPE frames (here only delimiter counting for them).  File descriptors/poll are not exercised.",
    technique="TLA+ spec + TLC (safety exhaustive, liveness under fairness); replay of TLC behaviours into the C queues with a scaled codec; "
              "TLC trace validation of recorded runs with the shipped codecs",
    design="5/C02")

CFG = {
    "quick":    dict(mc="MC_Stream.cfg",   gen="Gen_Stream.cfg",   nhist=40,  nmsg=6),
    "thorough": dict(mc="MC_Stream_t.cfg", gen="Gen_Stream_t.cfg", nhist=300, nmsg=10),
}
ALL = 1000000
KINDS = ["cobs", "cobs_r", "zpe", "zpe_r", "s5", "s5r"]


def signature(st, why):
    a = st["a"]
    return "%s:%s" % (a, why.split(":")[0])


def gen_message(rng, kind):
    """run-structured message: non-zero runs around the block limits, zero runs 0..3."""
    lim = 5 if kind.startswith("s5") else (223 if kind.startswith("zpe") else 255)
    runs = [0, 1, 2, lim - 2, lim - 1, lim, lim + 1, 2 * lim - 2, 2 * lim - 1, 2 * lim]
    if lim > 5:
        runs += [29, 30, 31, 32]
    msg = []
    for _ in range(rng.choice([0, 1, 1, 2, 3, 4])):
        n = rng.choice(runs)
        msg += [rng.choice([1, 2, lim - 1, lim, (lim + 1) % 256 or 1, 0xDF, 0xE0, 0xFF, rng.randrange(1, 256)]) for _ in range(n)]
        msg += [0] * rng.choice([0, 0, 1, 1, 2, 3])
    if msg and rng.random() < 0.5:
        msg[-1] = rng.choice([1, 2, lim - 1, lim, 0xDF, 0xE0, 0xFF])
    return msg[:900]


def flush_arg(rng, io, k):
    """mptio variant: a flush moves everything finished; it is reached directly or through mpt_stream_poll(POLLOUT)."""
    if not io:
        return {"n": k}
    arg = {"n": ALL, "via": rng.choice(["flush", "flush", "poll", "poll0"])}
    if rng.random() < 0.3:
        arg["hold"] = rng.choice([1, 2, 3])     # flush calls while the peer is not reading (short writes / EAGAIN)
    return arg


def gen_histories(ck, n, nmsg, io=False):
    """io=True: schedules for the mptio variant (shipped codecs only, a flush moves everything finished)."""
    rng = ck.rng
    behs = []
    for h in range(n):
        kind = KINDS[h % (4 if io else len(KINDS))]
        small = kind.startswith("s5")
        caps = [0, 8, 16, 24] if small else [0, 8, 16, 64, 256, 300, 512]
        wcap, rcap = rng.choice(caps), rng.choice(caps)
        beh = [{"a": "init", "arg": {"kind": kind, "wcap": wcap, "woff": rng.randrange(wcap) if wcap else 0,
                                      "rcap": rcap, "roff": rng.randrange(rcap) if rcap else 0,
                                      "grow": rng.choice([1, 2, 8, 64, 256])}}]
        if io and h % 3 == 0:
            beh[0]["arg"]["sndbuf"] = 2048      # small socket buffer: finished data exceeds what one write takes
        sizes = [1, 1, 2, 3, ALL] if small else [1, 1, 2, 3, 5, 254, 255, 256, ALL]
        style = rng.choice(["bytewise", "mixed", "mixed", "bulk"])
        pend = 0
        for _ in range(rng.randrange(1, nmsg + 1)):
            msg = gen_message(rng, kind)
            beh.append({"a": "start", "arg": {"data": msg}})
            left = len(msg)
            while left:
                k = min(left, rng.choice(sizes))
                arg = {"n": k}
                if io and rng.random() < 0.3:
                    # same bytes as a fragment list (incl. empty fragments) through mpt_stream_append
                    cuts = sorted(rng.randrange(k + 1) for _ in range(rng.randrange(0, 4)))
                    arg["frags"] = [b - a for a, b in zip([0] + cuts, cuts + [k])]
                beh.append({"a": "push", "arg": arg})
                left -= k
                if rng.random() < 0.2:
                    beh.append({"a": "flush", "arg": flush_arg(rng, io, rng.choice(sizes))})
            beh.append({"a": "end", "arg": {"x": 0}})
            pend += 1
            for _ in range(rng.randrange(0, 6)):
                op = rng.choice(["flush", "deliver", "deliver", "recv"])
                if op == "recv":
                    beh.append({"a": "recv", "arg": {"x": 0}})
                else:
                    k = 1 if style == "bytewise" else (ALL if style == "bulk" else rng.choice(sizes))
                    beh.append({"a": op, "arg": flush_arg(rng, io, k) if op == "flush" else {"n": k}})
        # drain: everything flushed, delivered (bytewise or not) and received
        beh.append({"a": "flush", "arg": {"n": ALL}})
        if style == "bytewise":
            for _ in range(200):
                beh.append({"a": "deliver", "arg": {"n": 1}})
                beh.append({"a": "recv", "arg": {"x": 0}})
        beh.append({"a": "deliver", "arg": {"n": ALL}})
        for _ in range(pend + 1):
            beh.append({"a": "recv", "arg": {"x": 0}})
            beh.append({"a": "deliver", "arg": {"n": ALL}})
        behs.append(beh)
    return behs


def gen_sweep(io=False):
    """Deterministic sweep: every start offset of small reader and writer rings, so that every frame of a short
    message sequence starts at every storage position (incl. the last byte of the storage) once, delivered in
    bulk, bytewise and frame-by-frame."""
    behs = []
    msgs = [[1, 2, 3], [], [0, 0, 5], [7, 0, 8, 9]]
    kinds = KINDS[:4] if io else KINDS
    for kind in kinds:
        for cap in (8, 16):
            for off in range(cap):
                for style in ("bulk", "bytewise", "write-read"):
                    beh = [{"a": "init", "arg": {"kind": kind, "wcap": cap, "woff": (off * 3 + 1) % cap, "rcap": cap, "roff": off, "grow": 2}}]
                    for m in msgs:
                        beh.append({"a": "start", "arg": {"data": m}})
                        if m:
                            beh.append({"a": "push", "arg": {"n": len(m)}})
                        beh.append({"a": "end", "arg": {"x": 0}})
                        if style == "write-read":
                            beh += [{"a": "flush", "arg": {"n": ALL}}, {"a": "deliver", "arg": {"n": ALL}}, {"a": "recv", "arg": {"x": 0}}]
                    beh.append({"a": "flush", "arg": {"n": ALL}})
                    if style == "bytewise":
                        for _ in range(24):
                            beh += [{"a": "deliver", "arg": {"n": 1}}, {"a": "recv", "arg": {"x": 0}}]
                    beh.append({"a": "deliver", "arg": {"n": ALL}})
                    for _ in range(len(msgs) + 1):
                        beh.append({"a": "recv", "arg": {"x": 0}})
                    behs.append(beh)
    return behs


def gen_exactfill(io=False):
    """Finished frames fill the writer storage exactly, a partial flush frees its front, further messages follow:
    the encoder then continues in the part before the offset while the finished data ends at the storage end
    (second branch of mpt_queue_push), which neither the replay shapes (2 messages) nor a growing queue reach."""
    behs = []
    for kind in (KINDS[:4] if io else KINDS):
        for cap in (8, 16, 32):
            half = cap // 2 - 2                      # a message of n non-zero bytes (n small) makes a frame of n + 2
            for k in (1, 2, 3, cap // 2, cap - 2, cap - 1):
                beh = [{"a": "init", "arg": {"kind": kind, "wcap": cap, "woff": 0, "rcap": cap, "roff": 3, "grow": 2}}]
                for m in ([11] * half, [12] * half):
                    beh += [{"a": "start", "arg": {"data": m}}, {"a": "push", "arg": {"n": len(m)}}, {"a": "end", "arg": {"x": 0}}]
                beh.append({"a": "flush", "arg": ({"n": ALL, "via": "flush"} if io else {"n": k})})
                for m in ([7, 0, 8], [], [9] * min(k, 3)):
                    beh.append({"a": "start", "arg": {"data": m}})
                    if m:
                        beh.append({"a": "push", "arg": {"n": len(m)}})
                    beh.append({"a": "end", "arg": {"x": 0}})
                    if not io:
                        beh.append({"a": "flush", "arg": {"n": 1}})
                beh += [{"a": "flush", "arg": ({"n": ALL, "via": "flush"} if io else {"n": ALL})}, {"a": "deliver", "arg": {"n": ALL}}]
                for _ in range(6):
                    beh += [{"a": "recv", "arg": {"x": 0}}, {"a": "deliver", "arg": {"n": ALL}}]
                behs.append(beh)
    return behs


def gen_backpressure():
    """mptio variant: more finished data than the socket takes while the peer does not read (short writes, EAGAIN)."""
    behs = []
    for kind in KINDS[:4]:
        for size in (1500, 3000):
            beh = [{"a": "init", "arg": {"kind": kind, "wcap": 0, "woff": 0, "rcap": 0, "roff": 0, "grow": 256, "sndbuf": 2048}}]
            for m in range(5):
                msg = [((i * 7 + m) % 254) + 1 if (i % 97) else 0 for i in range(size + m)]
                beh += [{"a": "start", "arg": {"data": msg}}, {"a": "push", "arg": {"n": len(msg)}}, {"a": "end", "arg": {"x": 0}}]
                if m == 2:
                    beh.append({"a": "flush", "arg": {"n": ALL, "via": "flush", "hold": 3}})
            beh.append({"a": "flush", "arg": {"n": ALL, "via": "flush", "hold": 2}})
            beh.append({"a": "deliver", "arg": {"n": ALL}})
            for _ in range(6):
                beh += [{"a": "recv", "arg": {"x": 0}}, {"a": "deliver", "arg": {"n": ALL}}]
            behs.append(beh)
    return behs


def nontrivial(recs):
    """at least one message was received and the reader or writer ring was wrapped at some step."""
    got = wrapped = False
    for r in recs:
        d = r.get("dbg") or {}
        if (r.get("obs") or {}).get("ret") == "msg":
            got = True
        if d and ((d["rlen"] and d["roff"] + d["rlen"] > d["rmax"]) or (d["wlen"] and d["woff"] + d["wlen"] > d["wmax"])):
            wrapped = True
    return got and wrapped


def fix_kind(beh):
    beh[0]["arg"]["kind"] = "s5"


def build():
    return vlib.build_driver("stream", ["stream.c"])


def run(tier):
    cfg = CFG[tier]
    ck = vlib.Check(PID, tier)
    exe = build()

    res = vlib.tlc("MC_Stream", cfg["mc"])
    ck.add_tlc(res, "safety " + cfg["mc"])
    fair = vlib.tlc("MC_Stream", "Fair_Stream.cfg", tag="Fair_Stream")
    ck.add_tlc(fair, "liveness Fair_Stream.cfg")

    # A: every transition of the bounded model replayed (scaled codec s5), streamed in parallel chunks
    dump = os.path.join(vlib.ensure(os.path.join(vlib.WORK, PID)), "gen-%d.out" % os.getpid())
    try:
        gen = vlib.tlc_to_file("Gen_Stream", cfg["gen"], dump)
        if gen.error:
            raise vlib.MachineryError("behaviour export failed: %s" % gen.error)
        rp = vlib.replay_file(dump, exe, fix=fix_kind, nontrivial=nontrivial)
    finally:
        if os.path.exists(dump):
            os.unlink(dump)
    for mm in rp["details"]:
        ck.violation(signature(mm["st"], mm["why"]), {"binding": "A(replay)", "behaviour": mm["behaviour"], "step": mm["step"],
                                                     "why": mm["why"], "record": mm["record"]})
    nt = set(rp["nontrivial"])
    ck.cov["evaluations"] += rp["n"]
    ck.cov["transitions"] += gen.generated
    ck.notes["replayed_behaviours"] = rp["n"]
    ck.notes["replay_mismatches"] = rp["mismatches"]
    if not rp["n"]:
        raise vlib.MachineryError("no behaviours exported")

    # B: recorded runs with the shipped codecs validated by TLC
    hist = gen_sweep() + gen_exactfill() + gen_histories(ck, cfg["nhist"], cfg["nmsg"])
    recs2, _ = vlib.run_driver(exe, vlib.to_script(hist), timeout=1200)
    events = vlib.merge_trace(hist, recs2)
    for e in events:
        e.pop("dbg", None)
    ok, matched, tres = vlib.validate_trace("Trace_Stream", events, tag="Trace_Stream", xss="1g")
    ck.cov["transitions"] += tres.generated
    if not ok:
        ok2, matched2, _ = vlib.validate_trace("Trace_Stream", events, tag="Trace_Stream", xss="1g")
        if not ok2 and matched2 == matched:
            ev = events[matched] if matched < len(events) else None
            beh = hist[ev["b"]] if ev else None
            why = ev["a"] if ev and ev["a"] in ("Crash", "Hang", "Missing") else "rejected:" + str((ev or {}).get("obs", {}).get("ret"))
            kind = beh[0]["arg"]["kind"] if beh else "-"
            ck.violation("trace:%s:%s:%s" % (kind, ev["a"] if ev else "short", why),
                         {"binding": "B(trace validation)", "matched_prefix": matched, "rejected_event": ev,
                          "previous_event": events[matched - 1] if matched else None,
                          "behaviour": beh[: (ev["i"] + 1)] if ev else None, "tlc_tail": tres.out[-1500:]})
    # B2: the same through mptio: struct stream on socket pairs (push/flush/poll/dispatch)
    exe_io = vlib.build_driver("stream_io", ["stream_io.c"], libs=("mptcore", "mptio"))
    hist_io = gen_sweep(io=True) + gen_backpressure() + gen_histories(ck, cfg["nhist"] // 2, cfg["nmsg"], io=True)
    recs3, _ = vlib.run_driver(exe_io, vlib.to_script(hist_io), timeout=1200)
    events3 = vlib.merge_trace(hist_io, recs3)
    for e in events3:
        e.pop("dbg", None)
    ok3, matched3, tres3 = vlib.validate_trace("Trace_Stream", events3, tag="Trace_Stream_io", xss="1g")
    ck.cov["transitions"] += tres3.generated
    if not ok3:
        ok4, matched4, _ = vlib.validate_trace("Trace_Stream", events3, tag="Trace_Stream_io", xss="1g")
        if not ok4 and matched4 == matched3:
            ev = events3[matched3] if matched3 < len(events3) else None
            beh = hist_io[ev["b"]] if ev else None
            why = ev["a"] if ev and ev["a"] in ("Crash", "Hang", "Missing") else "rejected:" + str((ev or {}).get("obs", {}).get("ret"))
            ck.violation("trace-io:%s:%s:%s" % (beh[0]["arg"]["kind"] if beh else "-", ev["a"] if ev else "short", why),
                         {"binding": "B(trace validation, mptio)", "io": True, "matched_prefix": matched3, "rejected_event": ev,
                          "previous_event": events3[matched3 - 1] if matched3 else None,
                          "behaviour": beh[: (ev["i"] + 1)] if ev else None})
    ck.cov["evaluations"] += len(hist_io)
    ck.notes["io_trace_events"] = len(events3)
    ck.notes["io_trace_events_matched"] = matched3
    by3 = vlib.group_records(recs3)
    for b, beh in enumerate(hist_io):
        if nontrivial(by3.get(b, [])):
            nt.add("IO%d" % b + json.dumps(beh[0]["arg"], sort_keys=True))
    by2 = vlib.group_records(recs2)
    for b, beh in enumerate(hist):
        if nontrivial(by2.get(b, [])):
            nt.add("B%d" % b + json.dumps(beh[0]["arg"], sort_keys=True))
    ck.cov["traces_validated_against_impl"] = (len(hist) if ok else 0) + (len(hist_io) if ok3 else 0)
    ck.cov["evaluations"] += len(hist)
    ck.notes["trace_events"] = len(events)
    ck.notes["trace_events_matched"] = matched
    ck.notes["messages_received_in_traces"] = sum(1 for r in recs2 if (r.get("obs") or {}).get("ret") == "msg")
    ck.cov["distinct_nontrivial"] = len(nt)
    ck.cov["exhaustive"] = True
    ck.cov["rule"] = ("A: one behaviour per transition of the TLC state graph of Stream (2 messages from a fixed set incl. empty, zero-only, "
                      "block-filling and block-crossing ones; piece sizes; ring shapes) replayed into the real queues with the block-code-5 "
                      "codec; B: seeded schedules (bytewise / mixed / bulk cuts) with the shipped framings recorded and validated by TLC. "
                      "Non-trivial = at least one message was received and one of the two rings was wrapped at some step; distinct by schedule.")
    ck.cov["samples"] = rp["samples"][:1] + [[(s["a"], (s["arg"] if s["a"] != "start" else {"len": len(s["arg"]["data"])})) for s in hist[0][:14]]]
    ck.assumptions = ["TLC/SANY, CommunityModules Json/IOUtils", "drv/stream.c reproduces the call sequences of mpt_stream_push/flush/poll/dispatch",
                      "frames of COBS/R and ZPE framings are judged by delimiter counting here (byte-level: C01)",
                      "bounded model: 2 messages, block code 5"]
    # extension X02: unframed queue paths, peek, file streams (checks/x02_raw.py, docs/X02_raw.md)
    import x02_raw
    if x02_raw.enabled():
        x02_raw.run_part(ck, tier)
    # extension X29: the stream over a child's pipes, log entries over a connection (checks/x29_pipelog.py, docs/X29_pipelog.md)
    import x29_pipelog
    if x29_pipelog.enabled():
        x29_pipelog.run_part(ck, tier)
    return ck.finish()


def replay(path):
    d = json.load(open(path))
    if d["detail"].get("x02"):
        import x02_raw
        return x02_raw.replay(d["detail"], path)
    if d["detail"].get("x29"):
        import x29_pipelog
        return x29_pipelog.replay(d["detail"], path)
    beh = d["detail"].get("behaviour")
    if not beh:
        print(json.dumps(d["detail"], indent=1)[:4000])
        return 2
    io = bool(d["detail"].get("io"))
    exe = vlib.build_driver("stream_io", ["stream_io.c"], libs=("mptcore", "mptio")) if io else build()
    recs, _ = vlib.run_driver(exe, vlib.to_script([beh]))
    if all("exp" in s for s in beh):
        mms = vlib.compare([beh], recs)
        for mm in mms:
            print("VIOLATION property=%s replay=%s  (%s)" % (PID, path, mm["why"]))
        return 1 if mms else 0
    events = vlib.merge_trace([beh], recs)
    for e in events:
        e.pop("dbg", None)
    ok, matched, _ = vlib.validate_trace("Trace_Stream", events, tag="Trace_Stream_replay", xss="1g")
    if not ok:
        print("VIOLATION property=%s replay=%s  (trace rejected at event %d)" % (PID, path, matched))
    return 0 if ok else 1
