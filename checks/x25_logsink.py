"""X25 (extension of C17) -- the sinks that receive a message in pieces through push(len, data) (spec/LogSink.tla).

run_part(ck, tier) adds to the vlib.Check of C17:
  * TLC: exhaustive check of LogSink (sink configurations x heads x texts x every cut into pieces = every path of
    Push(k) steps x abandon / level change / logger call / producer call at every point): what the push state machine
    answers and writes is what the meaning says from the contiguous message alone,
  * binding A: every path exported by TLC (the pieces are part of the view: every cut of every message up to its end)
    replayed into drv/logsink.c (mpt_logfile_push, mpt_history_push, the output / logger / object of mpt_output_local,
    mpt_output_vlog, mpt_logfile_log, mpt_logfile_set), all expected keys compared for equality,
  * binding B: seeded messages of production size (texts up to 9000 bytes, sizes around the 256 byte buffer of
    mpt_output_vlog and the stdio buffers), each in several cuts (inside the head, behind it, single bytes, many pieces),
    abandoned messages followed by others, level changes, logger calls -- recorded from the real code and validated
    by TLC against the same operators (Trace_LogSink).
"""
import concurrent.futures
import glob
import hashlib
import json
import os
import random
import sys
import time

sys.path.insert(0, os.path.join(os.path.dirname(os.path.dirname(os.path.abspath(__file__))), "bin"))
import vlib  # noqa: E402

TAG = "x25"
CFG = {
    "quick": dict(mc=[("MC_LogSink_p.cfg", 3), ("MC_LogSink_r.cfg", 3), ("MC_LogSink_o.cfg", 3), ("MC_LogSink_y.cfg", 2),
                      ("MC_LogSink_h.cfg", 2), ("MC_LogSink_v.cfg", 1)],
                  gen=["Gen_LogSink_p.cfg", "Gen_LogSink_r.cfg", "Gen_LogSink_o.cfg", "Gen_LogSink_h.cfg", "Gen_LogSink_l.cfg",
                       "Gen_LogSink_y.cfg",
                       "Gen_LogSink_v.cfg"],
                  nexec=24, shards=2, ncxx=6),
    "thorough": dict(mc=[("MC_LogSink_pt.cfg", 4), ("MC_LogSink_rt.cfg", 4), ("MC_LogSink_ot.cfg", 4), ("MC_LogSink_yt.cfg", 3),
                         ("MC_LogSink_r.cfg", 2), ("MC_LogSink_ht.cfg", 3), ("MC_LogSink_vt.cfg", 1),
                         ("MC_LogSink_asfound.cfg", 1)],
                     gen=["Gen_LogSink_pt.cfg", "Gen_LogSink_rt.cfg", "Gen_LogSink_ot.cfg", "Gen_LogSink_ht.cfg", "Gen_LogSink_lt.cfg",
                          "Gen_LogSink_yt.cfg", "Gen_LogSink_vt.cfg"],
                     nexec=180, shards=6, ncxx=30),
}
FAST_ASAN = {"ASAN_OPTIONS": vlib.ASAN_ENV + ":symbolize=0"}
JVM = {"JAVA_TOOL_OPTIONS": "-XX:ParallelGCThreads=2"}
CHUNK = 6000
CXX_ACTIONS = {"open", "msg", "push", "end", "abort", "drop", "finish", "giveup", "vlog"}
CXX_CFGS = ("_p.cfg", "_r.cfg", "_pt.cfg", "_rt.cfg", "_o.cfg", "_ot.cfg")
SMALL_LOGMAX = 12       # MPT_OUTPUT_LOGMSG_MAX of the small-buffer driver (Gen_LogSink_v*.cfg: LogMax = 12)


def enabled():
    """The part needs its fix commits (docs/X25_logsink.md) in the tree under test: it is switched on by the marker file
    checks/x25_logsink.accepted (created when those commits are integrated) or by VERIF_X25=1, off by VERIF_X25=0."""
    env = os.environ.get("VERIF_X25")
    if env is not None:
        return env not in ("0", "")
    return os.path.exists(os.path.join(vlib.ROOT, "checks", "x25_logsink.accepted"))


def build():
    libs = ("mptplot", "mptio", "mptcore")
    exe = vlib.build_driver("logsink", ["logsink.c"], libs=libs)
    # source seam: mpt_output_vlog compiled into the driver with a 12 byte message buffer
    exs = vlib.build_driver("logsink_s", ["logsink.c"], libs=libs, defines=("LOGSINK_SMALL=%d" % SMALL_LOGMAX,))
    # the same sink made of the mpt++ types (mpt::output + mpt::logfile, output::message)
    exx = vlib.build_driver("logsink_cxx", ["logsink_cxx.cpp"], libs=("mpt++",) + libs, cxx=True)
    return exe, exs, exx


def cxx_able(beh):
    """behaviours the C++ sink can run: a plain log file without terminal, pushes / ends / producer calls only"""
    o = beh[0].get("arg") or {}
    return (beh[0]["a"] == "open" and o.get("kind") == "logfile" and not o.get("tty") and o.get("file") in ("mem", "none")
            and all(s["a"] in CXX_ACTIONS for s in beh))


def match(exp, obs, step=None, rec=None, prev=None):
    return vlib.default_match(exp, obs, step, rec, prev)


# --------------------------------------------------------------------------
# signatures: from the arguments of the behaviour up to the failing step only
# --------------------------------------------------------------------------
def head_class(data):
    if not data:
        return "empty"
    c = data[0]
    if c == 0:
        if len(data) < 2:
            return "short"
        return "rich" if data[1] >= 128 else "plain"
    if c == 1:
        return "answer" if len(data) >= 2 else "short"
    if c == 9:
        return "values"
    if c == 8:
        return "rawvalues"
    return "other"


def msg_context(beh, i):
    """(sink kind, head class, cut class, earlier message abandoned, head class of the message before) of the message
    the step i belongs to."""
    kind, data, pieces, aborted, before = "?", [], [], False, None
    for st in beh[:i + 1]:
        a = st["a"]
        if a == "open":
            kind = st["arg"].get("kind", "?") + ("+pass" if st["arg"].get("pass") else "") + ("+tty" if st["arg"].get("tty") else "")
            aborted = False
        elif a == "msg":
            before = head_class(data) if data else None
            data, pieces = st["arg"]["data"], []
        elif a == "push":
            pieces.append(len(st["arg"]["data"]))
        elif a in ("abort", "giveup"):
            aborted = True
    if not pieces:
        cut = "no-piece"
    elif len(pieces) == 1 and pieces[0] == len(data) and head_class(data) != "rawvalues":
        cut = "one-piece"
    elif head_class(data) == "rawvalues":
        # raw values: does a piece that completes the 4 byte head (message type + value source) carry values as well?
        pos, cut = 0, "head|values"
        for n in pieces:
            if pos < 4 < pos + n:
                cut = "head+values"
            pos += n
    elif pieces[0] < 2:
        cut = "cut-in-head"
    else:
        cut = "pieces"
    size = ",len>4096" if len(data) > 4096 else ",len>256" if len(data) > 256 else ""
    return kind, head_class(data), cut + size, aborted, before


def signature(beh, i, why):
    """x25:<sink>:<action>:<differing observation>:<head class>:<cut class>[:after-abort]"""
    kind, hc, cut, aborted, before = msg_context(beh, i)
    a = beh[i]["a"]
    key = why.split(":")[0].split(" ")[0]
    if a in ("log", "vlog", "set"):
        arg = beh[i].get("arg") or {}
        n = len(arg.get("text") or []) + len(arg.get("from") or [])
        extra = "long" if n >= 200 else "short"
        return "x25:%s:%s:%s:%s%s" % (kind, a, key, extra, ":after-abort" if aborted and a != "set" else "")
    tail = ":after-abort" if aborted and a not in ("abort", "giveup") else ""
    if hc in ("values", "rawvalues") and before in ("plain", "rich", "answer"):
        tail += ":after-text"            # rows of a value message behind a text message (printed or filtered)
    return "x25:%s:%s:%s:%s:%s%s" % (kind, a, key, hc, cut, tail)


def case_key(beh):
    return hashlib.sha1(json.dumps([(s["a"], s.get("arg")) for s in beh], sort_keys=True).encode()).digest()[:8]


def nontrivial(beh):
    """some message of the behaviour went to the sink in at least two pieces, or was abandoned, or came from the producer."""
    n = 0
    for st in beh:
        if st["a"] == "msg":
            n = 0
        elif st["a"] == "push":
            n += 1
            if n >= 2:
                return True
        elif st["a"] in ("abort", "giveup", "vlog"):
            return True
    return False


def maximal(behs):
    """TLC exports one behaviour per transition; a behaviour that is the beginning of another one is replayed with it."""
    keys = [tuple(json.dumps((s["a"], s.get("arg")), sort_keys=True) for s in b) for b in behs]
    prefixes = set()
    for k in keys:
        for n in range(1, len(k)):
            prefixes.add(hash(k[:n]))
    return [b for b, k in zip(behs, keys) if hash(k) not in prefixes]


def run_chunks(exe, behs):
    recs = []
    for lo in range(0, len(behs), CHUNK):
        r, _ = vlib.run_driver(exe, vlib.to_script(behs[lo:lo + CHUNK]), env=FAST_ASAN, timeout=1200)
        for x in r:
            if isinstance(x.get("b"), int):
                x["b"] += lo
        recs += r
    return recs


def replay_cases(exe, behs):
    recs = run_chunks(exe, behs)
    kept = []
    for mm in vlib.compare(behs, recs, match):
        # a fault or time-out is re-run alone once before it is reported
        if mm["why"] in ("Crash", "Hang", "no record (driver stopped)"):
            recs1, _ = vlib.run_driver(exe, vlib.to_script([behs[mm["b"]]]), env=FAST_ASAN)
            again = vlib.compare([behs[mm["b"]]], recs1, match)
            if not again:
                continue
            mm = dict(again[0], b=mm["b"])
        kept.append(mm)
    return kept


def gen_job(a):
    cfg, exe, exs, exx = a
    t0 = time.time()
    gen = vlib.tlc("Gen_LogSink", cfg, workers=2, env=JVM, tag="Gen_LogSink-" + cfg)
    if gen.error or gen.violation:
        return dict(kind="gen", cfg=cfg, error="behaviour export failed: %s %s" % (gen.error, gen.violation))
    allb = vlib.parse_behaviours(gen.out)
    generated = gen.generated
    gen.out = ""
    behs = maximal(allb)
    use = exs if "_v" in cfg else exe
    out, seen = [], {}
    nmm = 0
    runs = [(use, behs, "")]
    bx = [b for b in behs if cxx_able(b)] if cfg.endswith(CXX_CFGS) else []
    if bx:
        runs.append((exx, bx, ":cxx"))
    for drv, bl, lang in runs:
        for mm in replay_cases(drv, bl):
            nmm += 1
            beh = bl[mm["b"]]
            sig = signature(beh, mm["i"], mm["why"]) + lang
            seen[sig] = seen.get(sig, 0) + 1
            if seen[sig] <= 2:
                out.append(dict(sig=sig, behaviour=beh, step=mm["i"], why=mm["why"], record=mm["rec"],
                                drv="small" if drv == exs else "cxx" if drv == exx else "c"))
    nt = set(case_key(b) for b in behs if nontrivial(b))
    acts = {}
    for b in behs:
        for s in b:
            acts[s["a"]] = acts.get(s["a"], 0) + 1
    mid = len(behs) // 2
    return dict(kind="gen", cfg=cfg, error=None, n=len(behs) + len(bx), ncxx=len(bx), ncases=len(allb), nmm=nmm, mms=out,
                sigcount=seen, nt=nt, generated=generated, wall=time.time() - t0, wall_tlc=gen.wall, acts=acts,
                steps=sum(len(b) for b in behs) + sum(len(b) for b in bx),
                samples=[vlib.sample_repr(b) for b in behs[mid:mid + 1]])


def mc_job(a):
    cfg, workers = a
    res = vlib.tlc("MC_LogSink", cfg, workers=workers, tag="MC_LogSink-" + cfg, env=JVM)
    return dict(kind="mc", cfg=cfg, distinct=res.distinct, generated=res.generated, depth=res.depth, wall=res.wall,
                error=res.error, violation=res.violation, tail=res.out[-6000:] if (res.violation or res.error) else "")


# --------------------------------------------------------------------------
# binding B: seeded executions -- call sequences only, no expected values
# --------------------------------------------------------------------------
SINKS = [dict(kind="logfile", file="mem", ignore=0, color=0, **{"pass": 0}, tty=0),
         dict(kind="logfile", file="none", ignore=8, color=0, **{"pass": 0}, tty=0),
         dict(kind="logfile", file="path", ignore=8, color=1, **{"pass": 0}, tty=0),
         dict(kind="history", file="mem", ignore=8, color=0, **{"pass": 0}, tty=0),
         dict(kind="history", file="none", ignore=0, color=0, **{"pass": 0}, tty=0),
         dict(kind="local", file="stdout", ignore=8, color=1, **{"pass": 1}, tty=0),
         dict(kind="local", file="mem", ignore=8, color=1, **{"pass": 0}, tty=0),
         dict(kind="local", file="mem", ignore=16, color=1, **{"pass": 1}, tty=0),
         dict(kind="logfile", file="mem", ignore=0, color=1, **{"pass": 0}, tty=1),
         dict(kind="local", file="stdout", ignore=8, color=1, **{"pass": 0}, tty=1)]
PLAIN_HEADS = [[0, 0], [0, 3], [0, 3], [0, 4], [0, 8], [0, 16], [0, 35], [0, 35], [0, 32], [0, 40], [0, 67], [0, 1], [0, 2],
               [1, 0], [1, 5], [1, 255], [1, 128], [1, 127]]
RICH_HEADS = [[0, 128], [0, 131], [0, 131], [0, 163], [0, 136], [0, 144], [0, 195], [0, 255]]
OTHER_HEADS = [[4, 0], [4, 32], [5, 46], [6, 1], [12, 0], [255, 255], [16, 0], [2, 3], [13, 7]]
WORDS = [b"solver", b"step", b"t=1.5e-3", b"\xc3\xa4\xc3\xb6\xc3\xbc", b"\xe2\x82\xac", b"failed:", b"line\nbreak", b"tab\there",
         b"nul\0in", b"\x1b[1m", b"100%", b"path/to/file.c", b"mpt_logfile_push", b"\xff\xfe", b"\r\n", b"..."]
# sizes: tiny; around the 256 byte buffer of mpt_output_vlog; around stdio buffers (4096 / 8192); clearly larger
PLAIN_SIZES = [0, 1, 2, 3, 7, 40, 120, 250, 251, 252, 253, 254, 255, 256, 257, 258, 300, 1023, 1024, 1025, 4094, 4095, 4096, 4097,
               8191, 8192, 8193, 9000]
RICH_SIZES = [0, 1, 2, 3, 9, 40, 120, 254, 255, 256, 257, 600, 1500]


def rand_text(rng, n, rich):
    out = bytearray()
    while len(out) < n:
        r = rng.random()
        if rich and r < 0.3:
            out += bytes([rng.choice([0, 1, 2, 3, 4, 2, 3])])
        elif r < 0.4:
            out += bytes(rng.randrange(256) for _ in range(rng.randrange(1, 5)))
        else:
            out += rng.choice(WORDS) + (b" " if rng.random() < 0.7 else b"")
    return list(out[:n])


def rich_text(rng, n):
    """the form mpt_output_vlog produces (function, text), sometimes damaged"""
    fcn = rng.choice([b"mpt_solver_step", b"f", b"", b"ns::cls::method"])
    body = bytes(rand_text(rng, max(n - len(fcn) - 3, 0), False))
    body = body.replace(b"\0", b"0")
    seq = rng.choice([b"\1" + fcn + b"\2" + body + b"\3", fcn + b"\2" + body + b"\3", b"\1" + fcn + b"\4",
                      b"\1" + fcn + b"\2" + body, fcn + b"\0" + body])
    return list(seq[:n]) if rng.random() < 0.3 else list(seq)


def rand_cut(rng, total, maxp):
    """piece lengths (all > 0)"""
    if total <= 1:
        return [total] if total else []
    k = rng.choice([2, 2, 3, 3, 4, rng.randrange(1, maxp + 1)])
    pts = set()
    for _ in range(k - 1):
        pts.add(rng.choice([1, 2, 3, total - 1, rng.randrange(1, total), rng.randrange(1, total), min(total - 1, rng.randrange(1, 6))]))
    pts = [0] + sorted(p for p in pts if 0 < p < total) + [total]
    return [pts[i + 1] - pts[i] for i in range(len(pts) - 1) if pts[i + 1] > pts[i]]


def cuts_of(rng, total, extra, limits=()):
    """one piece; the head byte alone; the head alone; single bytes in front; borders at buffer limits; random cuts"""
    cuts = [[total]]
    if total >= 2:
        cuts.append([1, total - 1])
    if total >= 3:
        cuts.append([2, total - 2])
        cuts.append([1, 1, total - 2])
    if 4 <= total <= 40:
        cuts.append([1] * total)
    for b in limits:
        if 2 < b < total:
            cuts.append([b, total - b])
    for _ in range(extra):
        c = rand_cut(rng, total, 12)
        if c:
            cuts.append(c)
    return cuts


def push_steps(data, cut):
    steps, pos = [{"a": "msg", "arg": {"data": data}}], 0
    for n in cut:
        steps.append({"a": "push", "arg": {"data": data[pos:pos + n]}})
        pos += n
    return steps


def call_arg(rng, big):
    fn = rng.choice([b"", b"f", b"mpt_init", b"a::b", b"x" * rng.choice([10, 100, 247, 248, 249, 250, 251, 252, 253, 254, 260])
                     if big else b"fcn"])
    n = rng.choice([0, 1, 5, 40, 200, 238, 239, 240, 241, 242, 243, 244, 245, 246, 247, 248, 249, 250, 251, 252, 253, 254, 255, 256,
                    257, 300, 700]) if big else rng.choice([0, 1, 5, 40])
    text = bytes(b for b in rand_text(rng, n, False) if b != 0)
    typ = rng.choice([0, 1, 2, 3, 3, 4, 8, 16, 24, 35, 32, 40]) | rng.choice([0, 0, 0x100, 0x800, 0x900])
    return {"from": list(fn), "hasfrom": rng.choice([1, 1, 0]), "type": typ, "text": list(text), "hastext": rng.choice([1, 1, 1, 0])}


def rand_message(rng, fam):
    if fam == "plain":
        data = rng.choice(PLAIN_HEADS) + rand_text(rng, rng.choice(PLAIN_SIZES), False)
    elif fam == "rich":
        n = rng.choice(RICH_SIZES)
        data = rng.choice(RICH_HEADS) + (rich_text(rng, n) if rng.random() < 0.6 else rand_text(rng, n, True))
    elif fam == "values":
        # signed byte elements: format list of k columns, inline formats, or raw behind a value source head
        vals = [rng.randrange(256) for _ in range(rng.choice([0, 1, 2, 3, 5, 7, 40, 300]))]
        form = rng.choice(["list", "list", "inline", "raw", "raw"])
        if form != "list":
            vals = vals[:200]      # one row: its position counter is a byte (beyond 255 values the code glues numbers, for every cut)
        if form == "list":
            k = rng.choice([1, 2, 3, 5])
            data = [9, k] + [224] * k + vals
        elif form == "inline":
            data = [9, 0] + [b for v in vals for b in (224, v)]
        else:
            data = [8, rng.randrange(256), rng.randrange(256), 224] + vals
        if rng.random() < 0.1:
            data = data[:rng.randrange(1, min(len(data), 6) + 1)]      # ends inside its head
    elif fam == "filtered":
        data = [0, rng.choice([16, 20, 24, 31, 144, 152])] + rand_text(rng, rng.choice([0, 1, 5, 40]), False)
    else:
        data = rng.choice(OTHER_HEADS) + rand_text(rng, rng.choice([0, 1, 5, 300]), False)
    if rng.random() < 0.06:
        data = data[:1]
    return data


CXX_SINKS = [s for s in SINKS if s["kind"] == "logfile" and not s["tty"] and s["file"] in ("mem", "none")]


def gen_traces(rng, nexec, tier, cxx=False):
    """Executions on one sink each: a main message in several cuts, one after the other, with one or two messages of
    other kinds (other head class / other route / values / a producer call) pushed between them -- what a message leaves
    behind must depend on nothing that went before; abandoned messages, level changes and logger calls between."""
    full = tier != "quick"
    behs = []
    for m in range(nexec):
        sink = dict(rng.choice(CXX_SINKS if cxx else SINKS))
        fams = ["plain", "plain", "rich", "rich", "other", "values", "values", "vlog"]
        fam = rng.choice(fams)
        values_ok = not (sink["file"] == "none" and sink["kind"] != "logfile")   # such a history discards values (not modelled)
        if fam == "values" and not values_ok:
            sink["file"] = "mem"
            values_ok = True
        beh = [{"a": "open", "arg": sink}]
        if fam == "vlog":
            for _ in range(6 if full else 4):
                beh.append({"a": "vlog", "arg": call_arg(rng, True)})
                if rng.random() < 0.3 and not sink["tty"] and not cxx:
                    beh.append({"a": "log", "arg": call_arg(rng, False)})
            behs.append(beh)
            continue
        data = rand_message(rng, fam)
        # the messages that go between: short ones of the other kinds
        others = []
        for f2 in rng.sample([f for f in ("plain", "rich", "other", "values", "filtered", "filtered")
                              if f != fam and (f != "values" or values_ok)], 2):
            d2 = rand_message(rng, f2)
            keep = 6 if f2 == "values" else 2          # a value message keeps its head
            others.append(d2[:keep + min(len(d2) - keep, rng.choice([0, 3, 30]))] if len(d2) > keep else d2)
        cuts = cuts_of(rng, len(data), 3 if full else 2, limits=(255, 256, 257, 4096, 4097, 8192))
        if len(data) > 2000:
            cuts = cuts[:1] + rng.sample(cuts[1:], min(len(cuts) - 1, 3 if full else 2))
        for cut in cuts:
            r = rng.random()
            if r < 0.2:
                # abandoned after some pieces
                k = rng.randrange(1, len(cut) + 1)
                beh += push_steps(data, cut)[:k + 1] + [{"a": "giveup", "arg": {"x": 0}}]
            elif r < 0.3 and not cxx:
                beh.append({"a": "set", "arg": rng.choice([
                    {"name": "s:ignore", "usenum": 1, "num": rng.choice([0, 1, 3, 4, 8, 16, 32, 64]), "val": "-"},
                    {"name": "s:level", "usenum": 0, "num": 0, "val": rng.choice(["s:error", "s:info", "s:debug2", "s:debug3",
                                                                                 "s:none", "s:fatal", "s:warning", "s:loud"])}])})
            elif r < 0.65:
                # a message of another kind between, complete or abandoned
                d2 = rng.choice(others)
                c2 = rng.choice(cuts_of(rng, len(d2), 1))
                st2 = push_steps(d2, c2)
                if rng.random() < 0.4:
                    beh += st2[:rng.randrange(1, len(st2)) + 1] + [{"a": "giveup", "arg": {"x": 0}}]
                else:
                    beh += st2 + [{"a": "finish", "arg": {"x": 0}}]
            elif r < 0.72:
                beh.append({"a": "vlog", "arg": call_arg(rng, False)})
            steps = push_steps(data, cut)
            if rng.random() < 0.15 and not sink["tty"] and not cxx and len(steps) > 2:
                steps.insert(rng.randrange(2, len(steps)), {"a": "log", "arg": call_arg(rng, False)})
            beh += steps + [{"a": "finish", "arg": {"x": 0}}]
        behs.append(beh)
    return behs


def trace_job(a):
    seed, nexec, tier, exe, lang = a
    t0 = time.time()
    rng = random.Random(seed)
    hist = gen_traces(rng, nexec, tier, cxx=(lang == "cxx"))
    recs, _ = vlib.run_driver(exe, vlib.to_script(hist), env=FAST_ASAN, timeout=1200)
    events = vlib.merge_trace(hist, recs)
    tag = "Trace_LogSink-%s-%d" % (lang, seed)
    ok, matched, tres = vlib.validate_trace("Trace_LogSink", events, tag=tag, extra_env=JVM, xss="1g")
    bad = None
    if not ok:
        ok2, matched2, _ = vlib.validate_trace("Trace_LogSink", events, tag=tag, extra_env=JVM, xss="1g")
        if ok2:
            ok, matched = ok2, matched2
        elif matched2 == matched:
            ev = events[matched] if matched < len(events) else None
            beh = hist[ev["b"]] if ev else None
            why = ev["a"] if ev and ev["a"] in ("Crash", "Hang", "Missing", "Garbled") else "rejected"
            bad = dict(event=ev, previous=events[matched - 1] if matched else None,
                       behaviour=beh[:ev["i"] + 1] if ev else None, matched=matched,
                       lang=lang, sig="trace:" + (signature(beh, ev["i"], why) if ev else "x25:short") + (":cxx" if lang == "cxx" else ""))
        else:
            raise vlib.MachineryError("trace validation is not repeatable (%s / %s events matched)" % (matched, matched2))
    nt = set(case_key(b) for b in hist if nontrivial(b))
    nmsgs = sum(1 for b in hist for s in b if s["a"] in ("msg", "vlog"))
    return dict(kind="trace", ok=ok, n=len(hist), nmsgs=nmsgs, events=len(events), matched=matched, generated=tres.generated,
                bad=bad, nt=nt, lang=lang, samples=[vlib.sample_repr(hist[0][:5])], wall=time.time() - t0, wall_tlc=tres.wall)


def cleanup():
    for p in glob.glob("/tmp/x25-*.log"):
        try:
            os.unlink(p)
        except OSError:
            pass


def run_part(ck, tier):
    cfg = CFG[tier]
    exe, exs, exx = build()
    jobs = [(mc_job, (c, w)) for c, w in cfg["mc"]]
    jobs += [(gen_job, (c, exe, exs, exx)) for c in cfg["gen"]]
    ns = cfg["shards"]
    for s in range(ns):
        jobs.append((trace_job, (ck.seed * 1000 + 250 + s, cfg["nexec"] // ns, tier, exe, "c")))
    jobs.append((trace_job, (ck.seed * 1000 + 259, cfg["ncxx"], tier, exx, "cxx")))
    results = []
    with concurrent.futures.ProcessPoolExecutor(max_workers=7 if tier == "quick" else 8) as ex:
        futs = [ex.submit(f, a) for f, a in jobs]
        for fu in futs:
            results.append(fu.result())
    cleanup()

    notes = ck.notes.setdefault("x25_logsink", {})
    nt = set()
    replayed = cases = mism = traces = tmsgs = tevents = tmatched = steps = 0
    acts, sigs = {}, {}
    samples = []
    for r in results:
        if r["kind"] == "mc":
            res = vlib.TlcResult()
            res.rc, res.distinct, res.generated, res.depth, res.wall = 0, r["distinct"], r["generated"], r["depth"], r["wall"]
            res.error, res.violation, res.out = r["error"], r["violation"], r["tail"]
            if r["cfg"].endswith("_asfound.cfg"):
                # the design with the defects of the code as found switched in: TLC has to reject it (the model bites)
                if res.error or not res.violation:
                    raise vlib.MachineryError("MC_LogSink_asfound.cfg: the as-found design was not rejected (%s)" % res.error)
                notes["asfound_design_rejected"] = res.violation
                res.violation = None
            ck.add_tlc(res, "x25 exhaustive " + r["cfg"])
        elif r["kind"] == "gen":
            if r["error"]:
                raise vlib.MachineryError(r["error"])
            replayed += r["n"]
            cases += r["ncases"]
            steps += r["steps"]
            mism += r["nmm"]
            nt |= r["nt"]
            ck.cov["transitions"] += r["generated"]
            samples += r["samples"]
            for k, v in r["acts"].items():
                acts[k] = acts.get(k, 0) + v
            for k, v in r["sigcount"].items():
                sigs[k] = sigs.get(k, 0) + v
            for mm in r["mms"]:
                ck.violation(mm["sig"], {"binding": "A(replay)", "part": "x25", "cfg": r["cfg"], "drv": mm["drv"],
                                         "behaviour": mm["behaviour"], "step": mm["step"], "why": mm["why"],
                                         "record": mm["record"], "cases_with_this_signature": r["sigcount"][mm["sig"]]})
        else:
            traces += r["n"] if r["ok"] else 0
            tmsgs += r["nmsgs"]
            tevents += r["events"]
            tmatched += r["matched"]
            nt |= r["nt"]
            ck.cov["transitions"] += r["generated"]
            samples += r["samples"]
            if r["bad"]:
                b = r["bad"]
                ck.violation(b["sig"], {"binding": "B(trace validation)", "part": "x25", "matched_prefix": b["matched"],
                                        "drv": "cxx" if b["lang"] == "cxx" else "c",
                                        "rejected_event": b["event"], "previous_event": b["previous"],
                                        "behaviour": b["behaviour"]})
    ck.cov["evaluations"] += steps + tevents
    ck.cov["traces_validated_against_impl"] += traces
    ck.cov["distinct_nontrivial"] += len(nt)
    ck.cov["samples"] = ck.cov.get("samples", []) + samples[:2]
    notes["transitions_generated"] = cases
    notes["behaviours_replayed"] = replayed
    notes["behaviours_replayed_cxx"] = sum(r.get("ncxx", 0) for r in results if r["kind"] == "gen")
    notes["steps_replayed"] = steps
    notes["steps_by_action"] = acts
    notes["replay_mismatches"] = mism
    notes["replay_mismatch_kinds"] = sigs
    notes["wall_s"] = {"gen": {r["cfg"]: [round(r["wall"], 1), round(r["wall_tlc"], 1)] for r in results if r["kind"] == "gen"},
                       "trace": [round(r["wall"], 1) for r in results if r["kind"] == "trace"],
                       "trace_tlc": [round(r["wall_tlc"], 1) for r in results if r["kind"] == "trace"]}
    notes["trace_executions"] = traces
    notes["trace_messages"] = tmsgs
    notes["trace_events"] = tevents
    notes["trace_events_matched"] = tmatched
    notes["rule"] = ("A: TLC exports one behaviour per transition of LogSink with the pieces of the message in progress in "
                     "the view (sink configurations x heads x all texts over the configured alphabets up to MaxText x every "
                     "cut into pieces x abandon / level change / logger call / producer call at every point); behaviours "
                     "that are the beginning of another one are replayed with it; every step's expected keys are compared. "
                     "B: seeded executions on one sink each (messages up to 9000 bytes, each in 4..9 cuts one after the "
                     "other, abandoned messages, level changes, logger calls, producer calls around the 256 byte buffer), "
                     "value messages (signed bytes as format list / inline / raw) behind filtered and printed text messages, "
                     "recorded from the real code and validated by TLC.  Non-trivial = a message went to the sink in >= 2 "
                     "pieces, was abandoned, or came from the producer; distinct by call sequence.")
    ck.assumptions += ["x25: drv/logsink.c is the pusher (offers again what a push did not take, keeps what 'missing data' "
                       "refused for the next piece, ends with push(0,0), abandons with push(1,0)) and projects without "
                       "judgement (bytes written to stdout / stderr / the log file / the next output are attributed to the "
                       "call that wrote them; return codes become ok / missing / refused)",
                       "x25: what a contiguous message looks like in the file (intro, element separators, colour codes on "
                       "a terminal) is the specification's, calibrated on one-piece runs of the same code; the rows of value "
                       "messages are compared for elements of one signed byte (format list, inline, raw value source); "
                       "the other element formats are x17's"]
    return ck


def replay(det, path=""):
    """Re-run the behaviour of a violation file written by run_part; returns 0/1/2 like check.py --replay."""
    beh = det.get("behaviour")
    if not beh:
        print(json.dumps(det, indent=1)[:4000])
        return 2
    exe, exs, exx = build()
    use = {"small": exs, "cxx": exx}.get(det.get("drv"), exe)
    recs, err = vlib.run_driver(use, vlib.to_script([beh]))
    cleanup()
    if all("exp" in s for s in beh):
        mms = vlib.compare([beh], recs, match)
        for mm in mms:
            print("VIOLATION property=C17 replay=%s  (%s: %s)" % (path, signature(beh, mm["i"], mm["why"]), mm["why"]))
            if mm["why"] in ("Crash", "Hang"):
                print(err[-3000:])
        return 1 if mms else 0
    events = vlib.merge_trace([beh], recs)
    ok, matched, _ = vlib.validate_trace("Trace_LogSink", events, tag="Trace_LogSink_replay", xss="1g")
    if not ok:
        print("VIOLATION property=C17 replay=%s  (x25 trace rejected at event %d: %s)" % (
            path, matched, json.dumps(events[matched])[:600] if matched < len(events) else "-"))
    return 0 if ok else 1


if __name__ == "__main__":
    # standalone runner of the part (development): python3 checks/x25_logsink.py [quick|thorough]
    tier = sys.argv[1] if len(sys.argv) > 1 else "quick"
    ck = vlib.Check("C17", tier)
    ck.pid = "C17x25"
    t0 = time.time()
    run_part(ck, tier)
    print(json.dumps({k: v for k, v in ck.notes.items()}, indent=1, default=str)[:6000])
    print("states", ck.cov["states"], "transitions", ck.cov["transitions"], "evaluations", ck.cov["evaluations"],
          "nontrivial", ck.cov["distinct_nontrivial"])
    for sig, f in ck.known_hit.items():
        print("KNOWN-FINDING:", sig)
    seen = set()
    for sig, p in ck.violations:
        if sig not in seen:
            print("VIOLATION", sig, p)
            seen.add(sig)
    print("wall %.1fs" % (time.time() - t0))
