"""X02 (extension of C02) -- byte stream paths without framing, and peek on the framed input queue
(spec/RawStream.tla, spec/FramedPeek.tla; docs/X02_raw.md).

run_part(ck, tier) adds to the vlib.Check of C02:
  * TLC: exhaustive check of RawStream (unframed queue pipe; file streams with write buffer / read-ahead as design
    freedom) and the invariants of Stream on the framed model extended by Peek,
  * binding A: every transition of the bounded models replayed into drv/rawstream.cpp
    (sections framed / raw / file; C functions and the mpt++ wrappers),
  * binding B: seeded longer histories (shipped framings with peeks, unframed queues, file sessions with sizes
    around the 8 / 64 / 256 byte buffer steps) recorded from the real code and validated by TLC.
"""
import concurrent.futures
import json
import os
import shutil
import subprocess
import vlib

TAG = "x02"
ALL = 1000000
CFG = {
    "quick":    dict(mc="MC_RawStream.cfg", gen=[("Gen_FramedPeek", "Gen_FramedPeek.cfg"),
                                                  ("Gen_RawStream", "Gen_RawStream.cfg")],
                     nframed=16, nmsg=5, nraw=16, rawsteps=60, nfile=24, sessions=3, fsteps=14),
    "thorough": dict(mc="MC_RawStream_t.cfg", gen=[("Gen_FramedPeek", "Gen_FramedPeek_t.cfg"),
                                                    ("Gen_RawStream", "Gen_RawStream_t.cfg")],
                     nframed=120, nmsg=8, nraw=120, rawsteps=150, nfile=200, sessions=5, fsteps=30),
}
STEPS = [1, 2, 3, 7, 8, 9, 15, 16, 17, 63, 64, 65, 255, 256, 257, 300]


def enabled():
    """The part needs its fix commits (docs/X02_raw.md) in the tree under test: it is switched on by the marker file
    checks/x02_raw.accepted (created when those commits are integrated) or by VERIF_X02=1, off by VERIF_X02=0."""
    env = os.environ.get("VERIF_X02")
    if env is not None:
        return env not in ("0", "")
    return os.path.exists(os.path.join(vlib.ROOT, "checks", "x02_raw.accepted"))


def build():
    """drv/rawstream.cpp (C++) + drv/rawstream_seam.c (the repository's COBS sources at block code 5, compiled as C)."""
    vlib.build_libs(True)
    odir = vlib.ensure(os.path.join(vlib.WORK, "drv-" + vlib.repo_key()))
    obj = os.path.join(odir, "rawstream_seam.o")
    cmd = ["clang"] + vlib.SAN_FLAGS.split() + ["-c", "-I" + vlib.DRV] + ["-I" + os.path.join(vlib.REPO, i) for i in vlib.INCLUDES]
    cmd += [os.path.join(vlib.DRV, "rawstream_seam.c"), "-o", obj + ".tmp%d" % os.getpid()]
    r = subprocess.run(cmd, stdout=subprocess.PIPE, stderr=subprocess.STDOUT, text=True)
    if r.returncode:
        raise vlib.MachineryError("seam build failed:\n" + r.stdout[-3000:])
    os.replace(obj + ".tmp%d" % os.getpid(), obj)
    return vlib.build_driver("rawstream", ["rawstream.cpp", obj], libs=("mpt++", "mptio", "mptcore"), cxx=True)


def match(exp, obs, step=None, rec=None, prev=None):
    """Key-wise equality with the expected observation computed by TLC; "any" matches everything; the key peek_in
    holds the SET of permitted (length, bytes) answers of a peek: the observed pair must be an element."""
    for k, v in exp.items():
        if k == "peek_in":
            got = [obs.get("n"), obs.get("data")]
            if got not in v:
                return "peek: observed %s is none of the permitted answers %s" % (json.dumps(got)[:200], json.dumps(v)[:300])
            continue
        if v == "any":
            continue
        if k not in obs:
            return "missing observation %r" % k
        if obs[k] != v:
            return "%s: expected %s, observed %s" % (k, json.dumps(v)[:300], json.dumps(obs[k])[:300])
    return None


def section(beh):
    return (beh[0].get("arg") or {}).get("sec", "framed")


def arg_class(beh, i):
    """discriminating class of the failing step's arguments (computed from the step, no free text)"""
    st = beh[i] if i < len(beh) else {"a": "?"}
    a, arg = st["a"], st.get("arg") or {}
    if section(beh) == "file":
        op = {}
        for s in beh[:i + 1]:
            if s["a"] == "open":
                op = s.get("arg") or {}
        cls = "m=%s,buf=%s,nl=%s,fl=%s" % (op.get("m"), op.get("buf"), op.get("nl"), op.get("fl"))
        if a in ("write", "read", "zeros"):
            cls += ",part%s1" % ("=" if arg.get("part", 1) == 1 else ">")
        if a == "seek":
            cls += ",wh=%s" % arg.get("wh")
        return cls
    if a == "peek":
        return "dst=%s" % arg.get("dst")
    if a == "discard":
        return "n=%s" % arg.get("n")
    return "via=%s" % (beh[0].get("arg") or {}).get("via")


def signature(beh, i, why):
    """x02:<section>:<action>:<differing observation>:<argument class>"""
    key = why.lower() if why in ("Crash", "Hang", "Garbled") else why.split(":")[0].split(" ")[0]
    a = beh[i]["a"] if i < len(beh) else "?"
    return "x02:%s:%s:%s:%s" % (section(beh), a, key, arg_class(beh, i))


def dump_tlc(module, cfg, path, workers=4, timeout=3000):
    """like vlib.tlc_to_file, with a metadir of its own per configuration (two exports of one module run side by side)"""
    import re
    import time
    md = os.path.join(vlib.WORK, "tlc-%s-%d" % (cfg, os.getpid()))
    shutil.rmtree(md, ignore_errors=True)
    vlib.ensure(md)
    cmd = ["java", "-XX:+UseParallelGC", "-Xmx8g", "-cp", vlib.TLA_CP, "tlc2.TLC", "-metadir", md,
           "-noGenerateSpecTE", "-workers", str(workers), "-config", cfg, module + ".tla"]
    t0 = time.time()
    with open(path, "w") as f:
        try:
            r = subprocess.run(cmd, cwd=vlib.SPEC, stdout=f, stderr=subprocess.STDOUT, timeout=timeout)
        except subprocess.TimeoutExpired:
            raise vlib.MachineryError("TLC dump timed out: " + cfg)
        finally:
            shutil.rmtree(md, ignore_errors=True)
    tail = subprocess.run("grep -v '^<<\"BEHAV' %s | tail -n 40" % path, shell=True, stdout=subprocess.PIPE, text=True).stdout
    res = vlib.TlcResult()
    res.rc = r.returncode
    res.out = tail
    res.wall = time.time() - t0
    m = re.findall(r"(\d[\d,]*) states generated, (\d[\d,]*) distinct states found", tail)
    if m:
        res.generated = int(m[-1][0].replace(",", ""))
        res.distinct = int(m[-1][1].replace(",", ""))
    if r.returncode != 0:
        if "is violated" in tail:
            res.violation = tail[-2500:]
        else:
            res.error = "TLC dump failed rc=%s\n%s" % (r.returncode, tail)
    return res


# ---------------------------------------------------------------------------
# binding B inputs: call sequences only, no expected values
# ---------------------------------------------------------------------------
def gen_framed(ck, cfg):
    """the schedules of the base check (shipped framings, all cut styles) with peeks spread over them"""
    import c02
    rng = ck.rng
    behs = c02.gen_histories(ck, cfg["nframed"], cfg["nmsg"])
    out = []
    for h, beh in enumerate(behs):
        beh[0]["arg"].update({"sec": "framed", "via": "cxx" if h % 2 else "c"})
        nb = [beh[0]]
        for st in beh[1:]:
            nb.append(st)
            if rng.random() < 0.25:
                nb.append({"a": "peek", "arg": {"max": rng.choice([0, 1, 2, 5, 254, 255, 256, 1000]), "dst": rng.choice([1, 1, 1, 0])}})
        out.append(nb)
    return out


def rbytes(rng, n):
    style = rng.choice(["rand", "rand", "lines", "count"])
    if style == "count":
        return [(i * 7 + n) % 256 for i in range(n)]
    if style == "lines":
        return [rng.choice([10, 13, 13, 10, 32, 65, 66, 0]) for _ in range(n)]
    return [rng.randrange(256) for _ in range(n)]


def gen_raw(ck, cfg):
    rng = ck.rng
    behs = []
    for h in range(cfg["nraw"]):
        caps = [0, 8, 16, 64, 256, 300]
        wcap, rcap = rng.choice(caps), rng.choice(caps)
        via = "cxx" if h % 2 else "c"
        beh = [{"a": "init", "arg": {"sec": "raw", "via": via, "wcap": wcap, "woff": rng.randrange(wcap) if wcap else 0,
                                      "rcap": rcap, "roff": rng.randrange(rcap) if rcap else 0, "grow": rng.choice([1, 2, 8, 64, 256])}}]
        for _ in range(rng.randrange(10, cfg["rawsteps"])):
            op = rng.choice(["push"] * 4 + ["done"] * 2 + ["discard"] + ["flush"] * 3 + ["deliver"] * 3 + ["recv"] * 3 + ["peek"] * 2 + ["shift", "overtrim"])
            if op == "push":
                beh.append({"a": "push", "arg": {"data": rbytes(rng, rng.choice(STEPS))}})
            elif op == "done":
                beh.append({"a": "done", "arg": {"x": 0}})
            elif op == "discard":
                beh.append({"a": "discard", "arg": {"n": rng.choice([1, 1, 1, 2, 300])}})
            elif op in ("flush", "deliver"):
                beh.append({"a": op, "arg": {"n": rng.choice(STEPS + [ALL, ALL, ALL])}})
            elif op == "recv":
                beh.append({"a": "recv", "arg": {"x": 0}})
            elif op == "peek":
                beh.append({"a": "peek", "arg": {"max": rng.choice([0, 1, 2, 8, 9, 64, 65, 256, 1000]), "dst": rng.choice([1, 1, 0])}})
            elif op == "shift":
                beh.append({"a": "shift", "arg": {"x": 0}})
            elif via == "cxx":
                beh.append({"a": "overtrim", "arg": {"n": rng.choice([1, 2, 64])}})
        beh += [{"a": "done", "arg": {"x": 0}}, {"a": "flush", "arg": {"n": ALL}}, {"a": "deliver", "arg": {"n": ALL}},
                {"a": "recv", "arg": {"x": 0}}, {"a": "peek", "arg": {"max": 4, "dst": 1}}, {"a": "recv", "arg": {"x": 0}}]
        behs.append(beh)
    return behs


def gen_file(ck, cfg):
    """sessions on one file: write / append / push-style sessions followed by read sessions.  `size` and `pos` are
    rough guesses used to pick offsets that are mostly inside the file (the model is total: any offset is an input)."""
    rng = ck.rng
    behs = []
    for h in range(cfg["nfile"]):
        size = rng.choice([0, 0, 1, 7, 8, 9, 63, 64, 65, 255, 256, 257, 600])
        beh = [{"a": "init", "arg": {"sec": "file", "pre": rbytes(rng, size)}}]
        for sidx in range(rng.randrange(2, cfg["sessions"] + 1)):
            via = rng.choice(["c", "cxx"])
            kind = rng.choice(["w", "w", "a", "push", "r", "r"]) if sidx else rng.choice(["w", "a", "push", "r"])
            nl = rng.choice(["-", "u", "m", "n"])
            if kind == "r":
                buf = rng.choice([1, 1, 0])
                beh.append({"a": "open", "arg": {"m": "r", "nl": nl, "fl": 0, "buf": buf, "via": via, "re": 0}})
                pos = 0
                for _ in range(rng.randrange(3, cfg["fsteps"])):
                    op = rng.choice(["read"] * 4 + ["getc"] * 2 + ["skip", "seek", "seek"] + (["peekr"] if buf else []))
                    if op == "read":
                        part = rng.choice([1, 1, 1, 2, 3, 8])
                        n = rng.choice([1, 2, 3, 7, 8, 9, 21, 64, 65, 256, 300])
                        beh.append({"a": "read", "arg": {"n": n, "part": part}})
                        pos = min(size, pos + n * part)
                    elif op == "getc":
                        beh.append({"a": "getc", "arg": {"x": 0}})
                        pos = min(size, pos + 1)
                    elif op == "skip":
                        n = rng.choice([1, 2, 7, 8, 9, 64, 100])
                        beh.append({"a": "skip", "arg": {"n": n}})
                        pos = min(size, pos + n)
                    elif op == "peekr":
                        beh.append({"a": "peekr", "arg": {"n": rng.choice([1, 2, 7, 8, 9, 63, 64, 65, 300])}})
                    else:
                        wh = rng.choice(["set", "cur", "cur", "end"])
                        if wh == "set":
                            off = rng.choice([0, rng.randrange(size + 1), size, size + 3])
                        elif wh == "cur":
                            off = rng.choice([0, 0, -1, 1, -rng.randrange(pos + 1), rng.randrange(max(size - pos, 0) + 1), -pos - 1])
                        else:
                            off = rng.choice([0, -1, -rng.randrange(size + 1), -size - 1, 2])
                        beh.append({"a": "seek", "arg": {"off": off, "wh": wh}})
                        pos = max(0, {"set": off, "cur": pos + off, "end": size + off}[wh])
                beh.append({"a": "close", "arg": {"x": 0}})
                continue
            m = "a" if kind == "a" else ("w" if kind == "w" else rng.choice(["w", "a"]))
            fl = rng.choice([0, 1]) if nl != "-" else 0
            buf = 1 if kind == "push" else rng.choice([1, 1, 1, 0])
            beh.append({"a": "open", "arg": {"m": m, "nl": nl, "fl": fl, "buf": buf, "via": via, "re": 0}})
            pos = size if m == "a" else 0
            for _ in range(rng.randrange(2, cfg["fsteps"])):
                if kind == "push":
                    op = rng.choice(["push"] * 4 + ["end"] * 3 + ["drop", "flush", "seek"])
                    if op == "push":
                        n = rng.choice(STEPS)
                        beh.append({"a": "push", "arg": {"data": rbytes(rng, n)}})
                    elif op == "seek":
                        beh.append({"a": "seek", "arg": {"off": 0, "wh": "cur"}})
                    else:
                        beh.append({"a": op, "arg": {"x": 0}})
                    continue
                op = rng.choice(["write"] * 5 + ["endl", "zeros", "flush", "seek", "reopen"])
                if op == "reopen":
                    # the same object is opened again without close: the old stream's data must be in the file
                    size = max(size, pos)
                    m, nl = rng.choice(["w", "a"]), rng.choice(["-", "u", "m", "n"])
                    fl = rng.choice([0, 1]) if nl != "-" else 0
                    buf = rng.choice([1, 1, 0])
                    beh.append({"a": "open", "arg": {"m": m, "nl": nl, "fl": fl, "buf": buf, "via": via, "re": 1}})
                    pos = size if m == "a" else 0
                    continue
                if op == "write":
                    part = 1 if not buf else rng.choice([1, 1, 1, 2, 3, 8])
                    n = rng.choice(STEPS)
                    n -= n % part
                    if not n:
                        n = part
                    beh.append({"a": "write", "arg": {"data": rbytes(rng, n), "part": part}})
                    pos += n
                elif op == "zeros" and buf:
                    n, part = rng.choice([1, 3, 8, 9, 64, 65]), rng.choice([1, 2, 8])
                    beh.append({"a": "zeros", "arg": {"n": n, "part": part}})
                    pos += n * part
                elif op == "endl" and (buf or nl != "n"):
                    beh.append({"a": "endl", "arg": {"x": 0}})
                    pos += 2 if nl == "n" else 1
                elif op == "flush":
                    beh.append({"a": "flush", "arg": {"x": 0}})
                elif op == "seek":
                    size = max(size, pos)
                    wh = rng.choice(["set", "cur", "end"])
                    off = {"set": rng.choice([0, rng.randrange(size + 1), size, size + 2]),
                           "cur": rng.choice([0, -1, -rng.randrange(pos + 1), -pos - 2]),
                           "end": rng.choice([0, -1, -rng.randrange(size + 1)])}[wh]
                    beh.append({"a": "seek", "arg": {"off": off, "wh": wh}})
                    if m != "a":
                        pos = max(0, {"set": off, "cur": pos + off, "end": size + off}[wh])
                size = max(size, pos)
            beh.append({"a": "close", "arg": {"x": 0}})
            size += 700 if kind == "push" else 0       # rough: pushed lines are not counted exactly
        beh.append({"a": "open", "arg": {"m": "r", "nl": "-", "fl": 0, "buf": 1, "via": "c"}})
        for _ in range(40):
            beh.append({"a": "read", "arg": {"n": 97, "part": 1}})
        beh.append({"a": "getc", "arg": {"x": 0}})
        beh.append({"a": "close", "arg": {"x": 0}})
        behs.append(beh)
    return behs


def gen_file_wrap():
    """deterministic: raw pushes with a flush in the middle of a line, so that the write buffer (grown in 256 byte steps)
    is emptied from the front and the following data wraps around its end before the next flush"""
    behs = []
    for via in ("c", "cxx"):
        for first, more in ((200, 150), (250, 170), (255, 100), (56, 420)):
            beh = [{"a": "init", "arg": {"sec": "file", "pre": []}},
                   {"a": "open", "arg": {"m": "w", "nl": "u", "fl": 0, "buf": 1, "via": via}},
                   {"a": "push", "arg": {"data": [(i * 3 + 1) % 251 for i in range(first)]}},
                   {"a": "end", "arg": {"x": 0}},
                   {"a": "push", "arg": {"data": [(i * 5 + 2) % 253 for i in range(100)]}},
                   {"a": "flush", "arg": {"x": 0}},
                   {"a": "push", "arg": {"data": [(i * 7 + 3) % 249 for i in range(100)]}},
                   {"a": "push", "arg": {"data": [(i * 11 + 4) % 247 for i in range(more)]}},
                   {"a": "end", "arg": {"x": 0}},
                   {"a": "flush", "arg": {"x": 0}},
                   {"a": "push", "arg": {"data": [9, 9, 9]}},
                   {"a": "close", "arg": {"x": 0}},
                   {"a": "open", "arg": {"m": "r", "nl": "-", "fl": 0, "buf": 1, "via": via}},
                   {"a": "read", "arg": {"n": 300, "part": 1}},
                   {"a": "read", "arg": {"n": 200, "part": 2}},
                   {"a": "close", "arg": {"x": 0}}]
            behs.append(beh)
    return behs


def gen_read_sweep():
    """deterministic: records whose size does not divide the read buffer (the buffered data wraps around the storage
    end after some of them), with a position query or a small relative move after every count of records, then
    reads that show where the stream really is"""
    behs = []
    pre = [(i * 7 + 3) % 251 for i in range(41)]
    i = 0
    for part in (2, 3, 5, 7):
        for k in range(1, 7):
            for d in (0, -1, 2):
                via, buf = ("cxx" if i % 2 else "c"), (0 if i % 5 == 4 else 1)
                i += 1
                beh = [{"a": "init", "arg": {"sec": "file", "pre": pre}},
                       {"a": "open", "arg": {"m": "r", "nl": "-", "fl": 0, "buf": buf, "via": via, "re": 0}}]
                beh += [{"a": "read", "arg": {"n": 1, "part": part}} for _ in range(k)]
                beh += [{"a": "seek", "arg": {"off": d, "wh": "cur"}}, {"a": "read", "arg": {"n": 4, "part": 1}},
                        {"a": "getc", "arg": {"x": 0}}, {"a": "seek", "arg": {"off": 0, "wh": "cur"}},
                        {"a": "close", "arg": {"x": 0}}]
                behs.append(beh)
    return behs


def gen_raw_sweep():
    """deterministic: every start offset of small reader and writer rings, data delivered in pieces so that it wraps
    around the storage end at every position, a peek (with and without target) after every receive and delivery"""
    behs = []
    i = 0
    for cap in (8, 16):
        for off in range(cap):
            via = "cxx" if i % 2 else "c"
            i += 1
            pk = [{"a": "peek", "arg": {"max": 9, "dst": 1}}, {"a": "peek", "arg": {"max": 2, "dst": 1}}, {"a": "peek", "arg": {"max": 9, "dst": 0}}]
            rv = [{"a": "recv", "arg": {"x": 0}}]
            beh = [{"a": "init", "arg": {"sec": "raw", "via": via, "wcap": cap, "woff": (off * 3 + 1) % cap, "rcap": cap, "roff": off, "grow": 2}},
                   {"a": "push", "arg": {"data": [11, 12, 13, 14, 15]}}, {"a": "done", "arg": {"x": 0}}, {"a": "flush", "arg": {"n": ALL}},
                   {"a": "deliver", "arg": {"n": 2}}] + rv + pk + [{"a": "deliver", "arg": {"n": 1}}] + pk + rv + rv + pk
            beh += [{"a": "deliver", "arg": {"n": ALL}}] + pk + rv + pk
            beh += [{"a": "push", "arg": {"data": [21, 22, 23]}}, {"a": "done", "arg": {"x": 0}}, {"a": "flush", "arg": {"n": 2}},
                    {"a": "flush", "arg": {"n": ALL}}, {"a": "deliver", "arg": {"n": 1}}] + pk + rv + [{"a": "deliver", "arg": {"n": ALL}}] + pk + rv + pk
            behs.append(beh)
    return behs


def gen_reopen():
    """deterministic: a stream with written, not yet flushed data is opened again (same object, no close in between)"""
    behs = []
    for via in ("c", "cxx"):
        for m1, m2, n in (("w", "w", 3), ("w", "a", 5), ("a", "r", 3), ("w", "r", 20), ("a", "w", 9)):
            beh = [{"a": "init", "arg": {"sec": "file", "pre": [40, 41, 42, 43]}},
                   {"a": "open", "arg": {"m": m1, "nl": "u", "fl": 0, "buf": 1, "via": via, "re": 0}},
                   {"a": "write", "arg": {"data": [(j * 3 + 1) % 200 for j in range(n)], "part": 1}},
                   {"a": "open", "arg": {"m": m2, "nl": "-", "fl": 0, "buf": 1, "via": via, "re": 1}}]
            if m2 == "r":
                beh += [{"a": "read", "arg": {"n": 30, "part": 1}}, {"a": "getc", "arg": {"x": 0}}]
            else:
                beh += [{"a": "write", "arg": {"data": [7, 8], "part": 1}}, {"a": "flush", "arg": {"x": 0}}]
            beh += [{"a": "close", "arg": {"x": 0}}]
            behs.append(beh)
    return behs


def nontrivial(recs):
    """framed: a peek delivered decoded bytes; raw: a non-empty part was received; file: the file was non-empty at a
    flush / close or a read delivered bytes."""
    for r in recs:
        o = r.get("obs") or {}
        a = r.get("a")
        if a == "peek" and o.get("data"):
            return True
        if a == "recv" and o.get("ret") == "part" and o.get("data"):
            return True
        if a in ("flush", "close") and o.get("disk"):
            return True
        if a in ("read", "peekr") and o.get("data"):
            return True
    return False


def validate(ck, module, events, what, behs):
    ok, matched, tres = vlib.validate_trace(module, events, tag="%s_%s" % (module, what), xss="1g")
    ck.cov["transitions"] += tres.generated
    if not ok:
        ok2, matched2, tres2 = vlib.validate_trace(module, events, tag="%s_%s" % (module, what), xss="1g")
        if not ok2 and matched2 == matched:
            ev = events[matched] if matched < len(events) else None
            beh = behs[ev["b"]] if ev and ev.get("b") is not None else [{"a": "init", "arg": {}}]
            if ev is None:
                sig = "x02:trace:short"
            elif ev["a"] in ("Crash", "Hang", "Garbled", "Missing"):
                sig = "trace:" + signature(beh, ev.get("i") or 0, ev["a"] if ev["a"] != "Missing" else "Crash")
            else:
                sig = "trace:" + signature(beh, ev["i"], "rejected")
            ck.violation(sig, {"binding": "B(trace validation)", "x02": True, "module": module, "matched_prefix": matched,
                               "rejected_event": ev, "previous_events": events[max(matched - 3, 0):matched],
                               "behaviour": beh[:(ev or {}).get("i", 0) + 1], "tlc": (tres2.violation or "")})
        else:
            ok, matched = ok2, matched2
    return ok, matched


def strip(events):
    for e in events:
        e.pop("dbg", None)
    return events


def run_part(ck, tier):
    cfg = CFG[tier]
    exe = build()
    work = vlib.ensure(os.path.join(vlib.WORK, "x02", str(os.getpid())))
    os.environ["X02_TMP"] = work
    notes = ck.notes.setdefault("x02_raw", {})
    pool = concurrent.futures.ThreadPoolExecutor(max_workers=6)
    try:
        # 1. exhaustive model check and the behaviour exports side by side
        fmc = pool.submit(vlib.tlc, "MC_RawStream", cfg["mc"], workers=max(vlib.NCPU // 2, 2), tag="MC_RawStream_" + tier)
        dumps, fgen = [], []
        for mod, c in cfg["gen"]:
            path = os.path.join(work, c + ".out")
            dumps.append(path)
            fgen.append(pool.submit(dump_tlc, mod, c, path, 4))

        # 2. binding B inputs meanwhile: recorded runs of the real code
        hist_f = gen_framed(ck, cfg)
        hist_r = gen_raw_sweep() + gen_raw(ck, cfg) + gen_file_wrap() + gen_read_sweep() + gen_reopen() + gen_file(ck, cfg)
        recs_f, _ = vlib.run_driver(exe, vlib.to_script(hist_f), timeout=1200)
        recs_r, _ = vlib.run_driver(exe, vlib.to_script(hist_r), timeout=1200)
        ev_f = strip(vlib.merge_trace(hist_f, recs_f))
        ev_r = strip(vlib.merge_trace(hist_r, recs_r))
        fvf = pool.submit(validate, ck, "Trace_FramedPeek", ev_f, tier, hist_f)
        fvr = pool.submit(validate, ck, "Trace_RawStream", ev_r, tier, hist_r)

        # 3. binding A: every exported behaviour replayed
        nt = set()
        per_sig = {}
        total = 0
        for (mod, c), path, f in zip(cfg["gen"], dumps, fgen):
            gen = f.result()
            if gen.error:
                raise vlib.MachineryError("behaviour export %s failed: %s" % (c, gen.error))
            if gen.violation:
                ck.violation("model:x02:" + c, {"x02": True, "tlc": gen.violation})
            rp = vlib.replay_file(path, exe, match=match, nontrivial=nontrivial)
            if not rp["n"]:
                raise vlib.MachineryError("no behaviours exported by " + c)
            for mm in rp["details"]:
                sig = signature(mm["behaviour"], mm["step"], mm["why"])
                per_sig[sig] = per_sig.get(sig, 0) + 1
                if per_sig[sig] <= 2:
                    ck.violation(sig, {"binding": "A(replay)", "x02": True, "behaviour": mm["behaviour"], "step": mm["step"],
                                       "why": mm["why"], "record": mm["record"]})
            nt |= set(rp["nontrivial"])
            total += rp["n"]
            ck.cov["transitions"] += gen.generated
            ck.cov["states"] += gen.distinct
            notes.setdefault("exports", []).append({"cfg": c, "behaviours": rp["n"], "mismatches": rp["mismatches"],
                                                    "distinct": gen.distinct, "wall_s": round(gen.wall, 1)})
            if rp["samples"]:
                ck.cov["samples"] = ck.cov.get("samples", []) + rp["samples"][:1]
        ck.cov["evaluations"] += total
        notes["behaviours_replayed"] = total
        notes["replay_mismatch_kinds"] = per_sig

        # 4. results of the trace validations and the model check
        okf, mf = fvf.result()
        okr, mr = fvr.result()
        by_f, by_r = vlib.group_records(recs_f), vlib.group_records(recs_r)
        for tag, hist, by in (("F", hist_f, by_f), ("R", hist_r, by_r)):
            for b, beh in enumerate(hist):
                if nontrivial(by.get(b, [])):
                    nt.add("%s%d" % (tag, b) + json.dumps(beh[0]["arg"], sort_keys=True)[:80])
        ck.cov["traces_validated_against_impl"] += (len(hist_f) if okf else 0) + (len(hist_r) if okr else 0)
        ck.cov["evaluations"] += len(hist_f) + len(hist_r)
        ck.cov["distinct_nontrivial"] += len(nt)
        notes["trace_events"] = {"framed_peek": len(ev_f), "raw_and_file": len(ev_r)}
        notes["trace_events_matched"] = {"framed_peek": mf, "raw_and_file": mr}
        notes["trace_histories"] = {"framed_peek": len(hist_f), "raw": cfg["nraw"], "file": cfg["nfile"],
                                    "peeks_with_data": sum(1 for r in recs_f if r.get("a") == "peek" and (r.get("obs") or {}).get("data")),
                                    "file_bytes_read": sum(len((r.get("obs") or {}).get("data") or []) for r in recs_r if r.get("a") == "read")}
        ck.add_tlc(fmc.result(), "x02 exhaustive " + cfg["mc"])
    finally:
        pool.shutdown()
        shutil.rmtree(work, ignore_errors=True)
    notes["rule"] = ("A: one behaviour per transition of the TLC state graphs of FramedPeek (framed pipe with peeks, scaled codec), "
                     "RawStream/raw (unframed queue pipe) and RawStream/file (sessions on a file), replayed into the real code through "
                     "the C functions and the mpt++ wrappers; B: seeded histories at production sizes validated by TLC.  Non-trivial: "
                     "a peek delivered decoded bytes / a non-empty part was received / a file was non-empty at flush or close or a read delivered bytes.")
    ck.assumptions += ["x02: drv/rawstream.cpp projects without judgement (copies bytes, reads the file back through its own descriptor, "
                       "maps return codes to classes, cuts the file after its last line end for the `lines` observation)",
                       "x02: regular files on a local file system (writes are never short, reads end only at the end of the file)",
                       "x02: bounded models: histories of 4..6 calls over 2..6 data strings"]
    return ck


def replay(det, path=""):
    """Re-run the behaviour of a violation file written by run_part; returns 0/1/2 like check.py --replay."""
    beh = det.get("behaviour")
    if not beh:
        print(json.dumps(det, indent=1)[:4000])
        return 2
    exe = build()
    work = vlib.ensure(os.path.join(vlib.WORK, "x02", "replay-%d" % os.getpid()))
    os.environ["X02_TMP"] = work
    try:
        recs, _ = vlib.run_driver(exe, vlib.to_script([beh]))
    finally:
        shutil.rmtree(work, ignore_errors=True)
    if all("exp" in s for s in beh):
        mms = vlib.compare([beh], recs, match)
        for mm in mms:
            print("VIOLATION property=C02 replay=%s  (%s: %s)" % (path, signature(beh, mm["i"], mm["why"]), mm["why"]))
        return 1 if mms else 0
    events = strip(vlib.merge_trace([beh], recs))
    module = det.get("module") or ("Trace_FramedPeek" if section(beh) == "framed" else "Trace_RawStream")
    ok, matched, _ = vlib.validate_trace(module, events, tag=module + "_replay", xss="1g")
    if not ok:
        print("VIOLATION property=C02 replay=%s  (x02 trace rejected at event %d: %s)" % (
            path, matched, json.dumps(events[matched])[:400] if matched < len(events) else "-"))
    return 0 if ok else 1
