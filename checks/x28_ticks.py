"""X28 (extension of C19) -- the value generators no iterator wraps (spec/Ticks.tla):
mpt_ticks_linear, mpt_tick_log10, mpt_irange / mpt_drange / mpt_frange.

run_part(ck, tier) adds to the vlib.Check of C19:
  * TLC: exhaustive check of Ticks over small exact inputs (loops as the code runs them => closed forms),
  * binding A: every completed call of the model exported by TLC (Gen_Ticks), run in drv/ticks.c and judged by TLC
    (Trace_Ticks) against the closed forms,
  * binding B: seeded production cases (inputs only: tick counts up to 100, dyadic coordinates and deltas scaled by
    2^s up to the ends of the double range, non-finite deltas, strided int / double / float arrays with nan and
    infinities) run in the driver and judged by TLC (Trace_Ticks).
Python generates inputs, moves records and counts; every verdict is TLC's.
"""
import json
import os
import vlib

TAG = "x28"
CFG = {
    "quick":    dict(mc="MC_Ticks.cfg", gen="Gen_Ticks.cfg", nticks=60, nrange=120, ntmax=40),
    "thorough": dict(mc="MC_Ticks_t.cfg", gen="Gen_Ticks_t.cfg", nticks=500, nrange=1200, ntmax=100),
}
FAULTS = ("Crash", "Hang", "Garbled", "Missing")


def enabled():
    """The part needs its fix commits (docs/X28_ticks.md) in the tree under test: it is switched on by the marker file
    checks/x28_ticks.accepted (created when those commits are integrated) or by VERIF_X28=1, off by VERIF_X28=0."""
    env = os.environ.get("VERIF_X28")
    if env is not None:
        return env not in ("0", "")
    return os.path.exists(os.path.join(vlib.ROOT, "checks", "x28_ticks.accepted"))


def build():
    # the five functions are self-contained: their sources are compiled straight into the driver (no library build)
    return vlib.build_driver("ticks", ["ticks.c"], link_libs=False,
                             repo_sources=("mptplot/layout/ticks_linear.c", "mptplot/layout/tick_log10.c",
                                           "mptcore/array/irange.c", "mptcore/array/drange.c", "mptcore/array/frange.c"))


# --------------------------------------------------------------------------
# binding B inputs: arguments only
# --------------------------------------------------------------------------
def dyadic(rng, wide=True):
    q = rng.choice([1, 1, 2, 4, 8, 16])
    p = rng.randrange(-32767, 32768) if wide and rng.random() < 0.6 else rng.randrange(-40, 41)
    from math import gcd
    g = gcd(abs(p), q) or 1
    return [p // g, q // g]


NONFIN = ([1, 0], [-1, 0], [0, 0])


def rand_ticks(rng, ntmax):
    nt = rng.choice([0, 1, 1, 2, 2, 3, 4, 5, 7, 10, rng.randrange(11, ntmax + 1)])

    def delta():
        k = rng.random()
        if k < 0.12:
            return [0, 1]
        if k < 0.24:
            return list(rng.choice(NONFIN))
        return dyadic(rng)

    def point():
        return [dyadic(rng), dyadic(rng)]
    p0, p1 = point(), point()
    if rng.random() < 0.05:
        p0[rng.randrange(2)] = list(rng.choice(NONFIN))
    s = rng.choice([0, 0, 0, 0, 1, -1, 7, -20, 60, -300, 500, 1000, -1000])
    return {"a": "ticks", "arg": {"nt": nt, "p0": p0, "p1": p1, "dx": delta(), "dy": delta(), "s": s}}


def rand_range(rng):
    t = rng.choice("idf")
    n = rng.choice([0, 1, 2, 3, 5, 8, 17, 40])
    if t == "i":
        vals = [[rng.choice([rng.randrange(-5, 6), rng.randrange(-2 ** 31 + 1, 2 ** 31)]), 1] for _ in range(n)]
    else:
        pn = rng.choice([0, 0, 0.1, 0.3])
        vals = [list(rng.choice(NONFIN)) if rng.random() < pn else dyadic(rng) for _ in range(n)]
    if n == 0 or rng.random() < 0.1:
        return {"a": "range", "arg": {"t": t, "vals": vals, "len": 0, "ld": rng.choice([0, 1, 2, -1]), "off": 0}}
    ld = rng.choice([1, 1, 1, 2, 3, -1, -2, 0, 7])
    off = rng.randrange(n)
    room = (n - 1 - off) // ld if ld > 0 else (off // -ld if ld < 0 else 6)
    ln = rng.randrange(1, room + 2)
    return {"a": "range", "arg": {"t": t, "vals": vals, "len": ln, "ld": ld, "off": off}}


def prod_cases(rng, cfg):
    behs = [[rand_ticks(rng, cfg["ntmax"])] for _ in range(cfg["nticks"])]
    behs += [[{"a": "log10", "arg": {"k": k}}] for k in list(range(-3, 14)) + [100, -2 ** 31, 2 ** 31 - 1]]
    behs += [[rand_range(rng)] for _ in range(cfg["nrange"])]
    return behs


# --------------------------------------------------------------------------
# judgement by TLC, signatures
# --------------------------------------------------------------------------
def signature(st, why):
    """x28:<call>(<argument class>):<fault or rejected> -- computed from the failing step"""
    a = st.get("arg") or {}
    if st["a"] == "ticks":
        def cls(d):
            return "nonfinite" if d[1] == 0 else "zero" if d[0] == 0 else "finite"
        nt = a.get("nt", 0)
        arg = "nt=%s,dx=%s,dy=%s,scaled=%d" % (nt if nt < 3 else ">=3", cls(a["dx"]), cls(a["dy"]), 1 if a.get("s") else 0)
    elif st["a"] == "log10":
        k = a.get("k", 0)
        arg = "k=%s" % (k if 2 <= k <= 9 else "<2" if k < 2 else ">9")
    else:
        arg = "t=%s,len=%s,ld=%s" % (a.get("t"), min(a.get("len", 0), 2), max(min(a.get("ld", 1), 2), -1))
    return "%s:%s(%s):%s" % (TAG, st["a"], arg, why.lower() if why in FAULTS else "rejected")


def validate(ck, behs, recs, tag, what, max_rounds=8):
    events = vlib.merge_trace(behs, recs)
    total = 0
    rounds = 0
    seen = {}
    while events and rounds < max_rounds:
        rounds += 1
        ok, matched, tres = vlib.validate_trace("Trace_Ticks", events, tag=tag, xss="1g")
        ck.cov["transitions"] += tres.generated
        if not ok:
            ok2, matched2, _ = vlib.validate_trace("Trace_Ticks", events, tag=tag, xss="1g")
            if ok2 or matched2 != matched:
                raise vlib.MachineryError("trace validation not reproducible (%s)" % tag)
        total += matched
        if ok:
            break
        ev = events[matched]
        st = behs[ev["b"]][ev["i"]]
        why = ev["a"] if ev["a"] in FAULTS else "rejected"
        sig = signature(st, why)
        ck.violation(sig, {"binding": what, "x28": True, "rejected_event": ev, "behaviour": behs[ev["b"]]})
        # go on behind it, without the further cases of the same class (same signature)
        seen[st["a"]] = seen.get(st["a"], 0) + 1
        events = [e for e in events[matched + 1:]
                  if seen.get(behs[e["b"]][e["i"]]["a"], 0) < 3 and signature(behs[e["b"]][e["i"]], e["a"] if e["a"] in FAULTS else "rejected").rsplit(":", 1)[0] != sig.rsplit(":", 1)[0]]
    return total


def nontrivial(beh):
    a = beh[0].get("arg") or {}
    if beh[0]["a"] == "ticks":
        return a.get("nt", 0) >= 2
    if beh[0]["a"] == "range":
        return a.get("len", 0) >= 2
    return 2 <= a.get("k", 0) <= 9


def run_part(ck, tier):
    cfg = CFG[tier]
    exe = build()
    # one TLC run decides the model (invariants of MC_Ticks.cfg) and exports its completed calls (binding A)
    gres = vlib.tlc("Gen_Ticks", cfg["gen"], xss="1g", tag="Gen_Ticks-" + tier, timeout=600)
    ck.add_tlc(gres, "X28 Ticks: tick loop, range loops (Tier 2) => closed forms (Tier 1), canaries, termination")
    behs = vlib.parse_behaviours(gres.out)
    if not behs:
        raise vlib.MachineryError("Gen_Ticks exported no case")
    for b in behs:
        for st in b:
            st.pop("exp", None)        # the recorded call is judged by Trace_Ticks (tolerance classes), not compared here
    pbehs = prod_cases(ck.rng, cfg)         # binding B: production cases (arguments only)
    allb = behs + pbehs
    recs, _ = vlib.run_driver(exe, vlib.to_script(allb))
    nv = validate(ck, allb, recs, "Trace_Ticks-" + tier, "A: model cases replayed / B: seeded production cases")
    na, nb = min(nv, len(behs)), max(nv - len(behs), 0)
    ck.cov["evaluations"] += na + nb
    ck.cov["distinct_nontrivial"] += sum(1 for b in behs + pbehs if nontrivial(b))
    ck.cov["traces_validated_against_impl"] += na + nb
    ck.cov["samples"] += [vlib.sample_repr(b) for b in pbehs[:2]]
    ck.notes["x28"] = dict(model_cases=len(behs), model_validated=na, production_cases=len(pbehs), production_validated=nb)
    vlib.log("x28: model cases %d (validated %d), production cases %d (validated %d)" % (len(behs), na, len(pbehs), nb))


def replay(det, path):
    beh = det.get("behaviour")
    if not beh:
        print(json.dumps(det, indent=1)[:4000])
        return 2
    exe = build()
    recs, _ = vlib.run_driver(exe, vlib.to_script([beh]))
    ck = vlib.Check("C19", "replay")
    ck.findings = []
    validate(ck, [beh], recs, "Trace_Ticks-replay", det.get("binding", "replay"))
    for sig, p in ck.violations:
        print("VIOLATION property=C19 replay=%s  (%s)" % (path, sig))
    return 1 if ck.violations else 0
