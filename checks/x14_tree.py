"""X14 (extension of C14) -- the remaining tree operations and the users of node trees (spec/TreeUse.tla).

run_part(ck, tier) adds to the vlib.Check of C14:
  * TLC: exhaustive check of TreeUse = NodeTree + mpt_gnode_switch, traversal in four orders with selection and a
    stopping visitor, samelevel/sublevel, query by path, mpt_node_assign, value assignment, the process-wide
    configuration list under set/remove (directly and through a view), mpt_parse_node / mpt_node_parse as
    "produce tree t" (merge / replace, refused texts, allocation failures), node::~node, teardown;
  * binding A: every transition of those calls replayed into drv/treeuse.c (C) and drv/treeuse_cxx.cpp (class node of
    mpt++ with its node creator behind the allocation seam); all four links, names, values, released handles compared;
  * binding B: seeded longer histories on 24 handles (all calls of NodeTree and TreeUse, decorated texts and the
    configuration loader as "whatever was produced must be well-formed") recorded from both drivers and validated by
    TLC against Trace_TreeUse.
"""
import concurrent.futures
import json
import os
import glob
import vlib
import vseam

TAG = "x14"
CFG = {
    "quick":    dict(mc=["MC_TreeUse.cfg", "MC_TreeUse_s.cfg"], gen=["Gen_TreeUse_d.cfg", "Gen_TreeUse.cfg", "Gen_TreeUse_s.cfg"],
                     nhist=12, steps=90, nhist_cxx=6, cxx_every={"Gen_TreeUse.cfg": 2, "Gen_TreeUse_d.cfg": 2}),
    "thorough": dict(mc=["MC_TreeUse_c.cfg", "MC_TreeUse_t.cfg", "MC_TreeUse_st.cfg", "MC_TreeUse_s6.cfg"],
                     gen=["Gen_TreeUse_dt.cfg", "Gen_TreeUse_s.cfg", "Gen_TreeUse_s6.cfg", "Gen_TreeUse_t.cfg", "Gen_TreeUse_st.cfg", "Gen_TreeUse_t5.cfg"],
                     nhist=60, steps=200, nhist_cxx=40, cxx_every={"Gen_TreeUse_t5.cfg": 3}),
}
ENV = {"ASAN_OPTIONS": vlib.ASAN_ENV + ":symbolize=0"}
NB = 24
KEYS = ("ret", "freed", "links", "names", "vals", "metas")
NEW_ACTS = ("items", "croot", "nrel", "switch", "travx", "samelevel", "sublevel", "query", "assign", "assignfail", "setval", "cfgset", "cfgdel",
            "parse", "parsex", "cfgload", "drop", "teardown")
C_ONLY = ('"cfgset"', '"cfgdel"', '"cfgload"')
CXX_ONLY = ('"items"', '"croot"', '"nrel"')


def enabled():
    """The part needs its fix commit (docs/X14_tree.md) in the tree under test: it is switched on by the marker file
    checks/x14_tree.accepted (created when that commit is integrated) or by VERIF_X14=1, off by VERIF_X14=0."""
    env = os.environ.get("VERIF_X14")
    if env is not None:
        return env not in ("0", "")
    return os.path.exists(os.path.join(vlib.ROOT, "checks", "x14_tree.accepted"))


def csources():
    srcs = sorted(os.path.relpath(p, vlib.REPO) for p in glob.glob(os.path.join(vlib.REPO, "mptcore/node/*.c")))
    if not srcs:
        raise vlib.MachineryError("no node sources under %s" % vlib.REPO)
    srcs += ["mptcore/misc/identifier.c", "mptcore/config/node_assign.c", "mptcore/config/node_query.c",
             "mptcore/parse/node_append.c", "mptcore/parse/parse_node.c", "mptcore/parse/node_parse.c"]
    return srcs


def build():
    c = vlib.build_driver("treeuse", ["treeuse.c"], defines=vseam.SEAM_DEFS, repo_sources=csources(),
                          extra_flags=("-rdynamic", "-I" + os.path.join(vlib.REPO, "mptcore")))
    # C++: the node creator of libmpt++ is compiled into the driver (source seam), mptcore's own creator stays out
    cxx = vseam.build_seam_driver("treeuse_cxx", ["treeuse_cxx.cpp"],
                                  [s for s in csources() if not s.endswith("node_new.c")],
                                  cxx=True, libs=("mpt++", "mptplot", "mptcore"), link_libs=True)
    return {"c": c, "cxx": cxx}


# ---------------------------------------------------------------------------
# inputs: a forest description -> configuration text (default format); nothing here is compared with anything
def render(t, depth=0, deco=None):
    pad = " " * depth if deco is None else deco.choice(["", " ", "\t", "  "]) * depth
    out = []
    for name, val, kids in t:
        if deco is not None and deco.random() < 0.3:
            out.append(deco.choice(["\n", "# c {\n", pad + "# x = }\n", " \n"]))
        if kids:
            out.append("%s%s {\n%s%s}\n" % (pad, name, render(kids, depth + 1, deco), pad))
        elif val:
            if deco is not None:
                v = deco.choice(["%d", "\"%d\"", "'%d'", "%d "]) % val
                out.append("%s%s%s=%s%s\n" % (pad, name, deco.choice(["", " ", "\t"]), deco.choice(["", " "]), v))
            else:
                out.append("%s%s = %d\n" % (pad, name, val))
        else:
            out.append("%s%s {\n%s}\n" % (pad, name, pad))
    return "".join(out)


def count(t):
    return sum(1 + count(k[2]) for k in t)


def hexarg(txt):
    return ("hex:" + txt.encode().hex()) if txt else "-"


BAD = {0: "", 1: "}\n", 2: "x {\n"}


def fix(beh):
    """Prefix steps are executed without logging (each is the last step of another behaviour); a parse step gets the
    text that is written for its forest."""
    for i, st in enumerate(beh):
        arg = st.get("arg") or {}
        if st["a"] == "parse" and "text" not in arg:
            arg = dict(arg, text=hexarg(render(arg["t"]) + BAD[arg.get("bad", 0)]), cnt=count(arg["t"]))
        if i < len(beh) - 1:
            arg = dict(arg, q=1)
        st["arg"] = arg


def match(exp, obs, step=None, rec=None, prev=None):
    """Verdict projection: answer, released handles, all links/names/values, live value objects (+ grow/fired/blocks)."""
    if not exp:
        return None
    for k, v in exp.items():
        if k not in obs:
            return "%s: missing" % k
        if obs[k] != v:
            return "%s: expected %s, observed %s" % (k, json.dumps(v)[:300], json.dumps(obs[k])[:300])
    d = (rec or {}).get("dbg") or {}
    if d.get("badfree"):
        return "freed: a block was released that is not allocated (badfree=%d)" % d["badfree"]
    if d.get("badunref"):
        return "metas: a value object was released twice (badunref=%d)" % d["badunref"]
    return None


def arg_class(st):
    """Discriminating condition of a failing step (computed from the step only)."""
    a, arg = st["a"], st.get("arg") or {}
    if a == "travx":
        return "%s,%s,%s" % (arg.get("ord"), arg.get("sel"), "stop" if arg.get("stop") else "all")
    if a in ("parse", "parsex"):
        return "%s,%s" % (arg.get("mode"), "bad" if arg.get("bad") else "failat" if arg.get("failat") else "ok")
    if a in ("assign", "assignfail", "cfgset", "cfgdel", "cfgload"):
        cls = "h=0" if not arg.get("h") else "h>0"
        if a == "cfgset":
            cls += ",view" if arg.get("base") else ",top"
        if a == "assignfail":
            cls += ",failmeta" if not arg.get("failat") else ",failat"
        return cls
    if a in ("samelevel", "sublevel"):
        return "up=%s" % ("0" if not arg.get("up") else "n")
    if a == "clonefail":
        return "%s,%s" % (arg.get("kind"), "failmeta" if arg.get("failmeta") else "failat")
    if "pos" in arg:
        p = arg["pos"]
        return "pos<0" if p < 0 else "pos=0" if p == 0 else "pos=1" if p == 1 else "pos>1"
    return "-"


def signature(lang, st, why):
    key = why.lower() if why in ("Crash", "Hang", "Garbled") else why.split(":")[0].split(" ")[0]
    return "x14:%s:%s:%s:%s" % (lang, st["a"], key, arg_class(st))


def callkey(beh, n):
    return json.dumps([[s["a"], {k: v for k, v in (s.get("arg") or {}).items() if k not in ("q", "text", "cnt")}] for s in beh[:n]],
                      sort_keys=True)


def nontrivial_a(recs):
    """the last call is a call of TreeUse on a structure in which some node has a parent"""
    if not recs:
        return False
    last = recs[-1]
    links = (last.get("obs") or {}).get("links") or []
    return last.get("a") in NEW_ACTS and any(l and l[2] > 0 for l in links)


_RW = {}


def _worker(lines):
    """One chunk of a behaviour dump: replay, compare; returns counts, the call keys of ALL failing behaviours (so that
    behaviours which only repeat the failure of their prefix can be told apart) and the details of the first few."""
    import hashlib
    behs = vlib.parse_behaviours("\n".join(lines))
    for b in behs:
        fix(b)
    recs, _ = vlib.run_driver(_RW["exe"], vlib.to_script(behs), timeout=1500, env=ENV)
    mms = vlib.compare(behs, recs, match)
    keys = [hashlib.md5(callkey(behs[mm["b"]], mm["i"] + 1).encode()).digest()[:8] for mm in mms]
    det = [{"behaviour": behs[mm["b"]], "step": mm["i"], "why": mm["why"], "record": mm["rec"], "st": mm["step"]} for mm in mms[:150]]
    by = vlib.group_records(recs)
    nt = set()
    for b, beh in enumerate(behs):
        if nontrivial_a(by.get(b, [])):
            nt.add(hashlib.md5(callkey(beh, len(beh)).encode()).digest()[:8])
    return len(behs), len(mms), keys, det, nt, (vlib.sample_repr(behs[len(behs) // 2]) if behs else None)


def replay_dump(path, exe, chunk=3000, extra_keys=()):
    import hashlib
    import multiprocessing as mp
    _RW["exe"] = exe

    def chunks():
        cur = []
        with open(path, errors="replace") as f:
            for ln in f:
                if ln.startswith('<<"BEHAV", '):
                    cur.append(ln.rstrip("\n"))
                    if len(cur) >= chunk:
                        yield cur
                        cur = []
        if cur:
            yield cur
    tot = dict(n=0, mismatches=0, keys=set(), details=[], nontrivial=set(), samples=[])
    with mp.get_context("fork").Pool(max(2, vlib.NCPU // 2)) as pool:
        for n, nm, keys, det, nt, sample in pool.imap_unordered(_worker, chunks()):
            tot["n"] += n
            tot["mismatches"] += nm
            tot["keys"].update(keys)
            if len(tot["details"]) < 3000:
                tot["details"] += det
            tot["nontrivial"] |= nt
            if sample and len(tot["samples"]) < 2:
                tot["samples"].append(sample)
    # roots: failing behaviours none of whose proper prefixes fails
    roots = []
    known = tot["keys"] | set(extra_keys)      # (a sampled dump may lack the prefix behaviours: the full run's failures count too)
    for d in sorted(tot["details"], key=lambda d: d["step"]):
        if any(hashlib.md5(callkey(d["behaviour"], k).encode()).digest()[:8] in known for k in range(1, d["step"] + 1)):
            continue
        roots.append(d)
    tot["roots"] = roots
    return tot


def binding_a(ck, exes, gencfg, gen, path, cfg, notes, nt):
    """TLC exports one behaviour per transition of a TreeUse call (to a file); each is replayed into both drivers."""
    if gen.error or gen.violation:
        raise vlib.MachineryError("behaviour export failed (%s): %s %s" % (gencfg, gen.error, gen.violation))
    # the C++ driver has no access to the library's process-wide list: those behaviours go to the C driver only
    pathc, pathx = path + ".c", path + ".cxx"
    every = cfg.get("cxx_every", {}).get(gencfg, 1)
    with open(path, errors="replace") as src, open(pathc, "w") as dstc, open(pathx, "w") as dstx:
        k = 0
        for ln in src:
            if not ln.startswith('<<"BEHAV", '):
                continue
            plain = ln.replace('\\"', '"')
            if any(x in plain for x in CXX_ONLY):
                dstx.write(ln)
                continue
            dstc.write(ln)
            if not any(x in plain for x in C_ONLY):
                k += 1
                if k % every == 0:
                    dstx.write(ln)
    out = {"cfg": gencfg, "tlc_wall_s": round(gen.wall, 1), "generated": gen.generated, "distinct": gen.distinct}
    try:
        ckeys = set()
        for lang, p in (("c", pathc), ("cxx", pathx)):
            tot = replay_dump(p, exes[lang], extra_keys=ckeys)
            if lang == "c":
                ckeys = tot["keys"]
            per = {}
            for d in tot["roots"]:
                sig = signature(lang, d["st"], d["why"])
                per[sig] = per.get(sig, 0) + 1
                if per[sig] <= 2:
                    ck.violation(sig, {"binding": "A(replay)", "x14": True, "lang": lang, "behaviour": d["behaviour"],
                                       "step": d["step"], "why": d["why"], "record": d["record"]})
            out[lang] = {"behaviours": tot["n"], "mismatches": tot["mismatches"], "mismatches_without_failed_prefix": per}
            ck.cov["evaluations"] += tot["n"]
            nt |= tot["nontrivial"]
            if lang == "c" and tot["samples"] and len(ck.cov["samples"]) < 5:
                ck.cov["samples"] = ck.cov["samples"] + tot["samples"][:1]
    finally:
        for p in (path, pathc, pathx):
            if os.path.exists(p):
                os.unlink(p)
    notes.setdefault("replay", []).append(out)


# ---------------------------------------------------------------------------
# binding B: call sequences only (no expected values), arguments picked with the help of the structure the real code
# reported after the previous batch
def rand_forest(rng, names, budget):
    t = []
    while budget[0] > 0 and rng.random() < 0.75 and len(t) < 4:
        budget[0] -= 1
        nm = rng.choice(names)
        if budget[0] > 0 and rng.random() < 0.4:
            t.append([nm, 0, rand_forest(rng, names, budget)])
        else:
            t.append([nm, rng.choice([0, rng.randrange(1, 1000), rng.randrange(1, 1000)]), []])
    return t


def option_lines(t, prefix=""):
    """the configuration loader takes options only: every leaf with a value as <path> = <value>"""
    out = []
    for name, val, kids in t:
        if kids:
            out += option_lines(kids, prefix + name + ".")
        elif val:
            out.append("%s%s = %d\n" % (prefix, name, val))
    return out


def new_call(rng, links, pool, lang):
    live = [i + 1 for i, l in enumerate(links) if l]
    heads = [i for i in live if links[i - 1][1] == 0 and links[i - 1][2] == 0]
    pnames = [p for p in pool if p and len(p) <= 28] or ["a"]

    def any_handle():
        return rng.randrange(0, NB + 2) if rng.random() < 0.06 or not live else rng.choice(live)

    def head():
        return rng.choice(heads) if heads and rng.random() < 0.9 else any_handle()

    def path():
        return [rng.choice(pnames) for _ in range(rng.choice([1, 1, 2, 2, 3, 4]))]
    ops = [("switch", 7), ("travx", 8), ("samelevel", 3), ("sublevel", 3), ("query", 5), ("assign", 8), ("assignfail", 3),
           ("setval", 3), ("parse", 9), ("parsex", 3), ("drop", 2)]
    if lang == "c":
        ops += [("cfgset", 7), ("cfgdel", 4), ("cfgload", 3)]
    else:
        ops += [("items", 7), ("croot", 5), ("nrel", 4)]
    op = rng.choices([o for o, _ in ops], [w for _, w in ops])[0]
    if op == "switch":
        arg = {"a": any_handle(), "b": any_handle()}
    elif op == "travx":
        arg = {"n": any_handle(), "ord": rng.choice(["pre", "post", "in", "level", "level"]),
               "sel": rng.choice(["all", "all", "leaf", "inner"]), "stop": rng.choice([0, 0, 1, 2, 3, 5, 9])}
    elif op in ("samelevel", "sublevel"):
        arg = {"n": any_handle(), "up": rng.choice([0, 1, 1, 2, 3, 6])}
    elif op == "query":
        arg = {"n": any_handle(), "path": path()}
    elif op == "nrel":
        arg = {"n": any_handle(), "key": rng.choice(pool)}
    elif op == "croot":
        arg = {"n": any_handle(), "del": rng.choice([0, 1])}
    elif op == "items":
        arg = {"n": any_handle(), "ks": [rng.choice(pnames) for _ in range(3)], "stop": rng.choice([0, 0, 1, 2])}
    elif op in ("assign", "assignfail"):
        arg = {"h": rng.choice([0, any_handle(), any_handle(), any_handle()]), "path": path(),
               "val": rng.choice([0, rng.randrange(1, 1000), rng.randrange(1, 1000)])}
        if op == "assignfail":
            arg["failat"] = rng.choice([0, 1, 1, 2, 3])
    elif op == "setval":
        arg = {"n": any_handle(), "val": rng.randrange(1, 1000)}
    elif op == "cfgset":
        p = path()
        k = rng.randrange(0, len(p))
        arg = {"h": rng.choice([0, head(), head(), head()]), "base": p[:k], "path": p[k:], "val": rng.randrange(1, 1000)}
    elif op == "cfgdel":
        arg = {"h": head(), "path": path()}
    elif op in ("parse", "parsex", "cfgload"):
        t = rand_forest(rng, pnames, [rng.choice([0, 1, 2, 3, 4, 6])])
        if op == "parse":
            bad = rng.choice([0, 0, 0, 0, 1, 2])
            arg = {"n": any_handle(), "t": t, "mode": rng.choice(["merge", "merge", "replace"]), "bad": bad,
                   "failat": 0 if bad else rng.choice([0, 0, 0, 1, 2, 3, 5]), "text": hexarg(render(t) + BAD[bad]), "cnt": count(t)}
        elif op == "parsex":
            bad = rng.choice([0, 0, 0, 1, 2])
            arg = {"n": any_handle(), "mode": rng.choice(["merge", "merge", "replace"]), "cnt": count(t),
                   "failat": 0, "text": hexarg(render(t, 0, rng) + BAD[bad])}
        else:
            arg = {"h": rng.choice([0, head(), head()]), "cnt": count(t), "text": hexarg("".join(option_lines(t)))}
    else:
        arg = {"n": any_handle()}
    arg["g"] = 1
    return {"a": op, "arg": arg}


def record_histories(ck, exe, n, steps, lang, batch=10):
    import c14
    rng = ck.rng
    hists = [[{"a": "init", "arg": {"n": NB}}] for _ in range(n)]
    pools = [c14.name_pool(rng) for _ in range(n)]
    last = [None] * n
    for _ in range(0, steps, batch):
        for h in range(n):
            links = (last[h] or {}).get("links") or [[] for _ in range(NB)]
            for _k in range(batch):
                if rng.random() < 0.5:
                    c14.extend(rng, hists[h], last[h], pools[h], 1)
                else:
                    hists[h].append(new_call(rng, links, pools[h], lang))
        script = []
        for hist in hists:      # executed without logging except the last step
            script.append([dict(a=s["a"], arg=dict(s.get("arg") or {}, q=1)) for s in hist[:-1]] + [hist[-1]])
        recs, _ = vlib.run_driver(exe, vlib.to_script(script), env=ENV)
        by = vlib.group_records(recs)
        for h in range(n):
            rs = by.get(h, [])
            if rs and rs[-1].get("a") not in ("Crash", "Hang", "Garbled"):
                last[h] = rs[-1].get("obs") or None
    for hist in hists:
        hist.append({"a": "teardown", "arg": {"x": 0, "g": 1}})
    recs, _ = vlib.run_driver(exe, vlib.to_script(hists), env=ENV)
    return hists, recs


def nontrivial_b(recs):
    """a node with a grandparent existed, nodes were released, a text was merged into existing children or two subtrees
    switched places"""
    deep = rel = big = False
    for r in recs:
        o = r.get("obs") or {}
        links = o.get("links") or []
        for l in links:
            if l and 0 < l[2] <= len(links) and links[l[2] - 1] and links[l[2] - 1][2] > 0:
                deep = True
        if o.get("freed"):
            rel = True
        if r.get("a") in ("parse", "parsex", "switch", "cfgset", "assign") and not o.get("skip"):
            big = True
    return deep and rel and big


def validate(ck, lang, hists, recs):
    """One TLC run over the concatenated histories of one driver; returns (ok, events, matched, wall)."""
    events = vlib.merge_trace(hists, recs)
    for e in events:            # the rendered text is input of the driver only
        e["arg"] = {k: v for k, v in e["arg"].items() if k != "text"}
    tag = "Trace_TreeUse_" + lang
    ok, matched, tres = vlib.validate_trace("Trace_TreeUse", events, tag=tag, xss="1g")
    viol = None
    if not ok:
        ok2, matched2, tres2 = vlib.validate_trace("Trace_TreeUse", events, tag=tag, xss="1g")
        if not ok2 and matched2 == matched:
            ev = events[matched] if matched < len(events) else None
            beh = hists[ev["b"]][:ev["i"] + 1] if ev else None
            if ev is None:
                sig = "x14:trace:short"
            elif ev["a"] in ("Crash", "Hang", "Garbled", "Missing"):
                sig = "trace:" + signature(lang, beh[-1], "Crash" if ev["a"] == "Missing" else ev["a"])
            else:
                sig = "trace:" + signature(lang, ev, "skipped" if (ev.get("obs") or {}).get("skip") else "rejected")
            viol = (sig, {"binding": "B(trace validation)", "x14": True, "lang": lang, "matched_prefix": matched,
                          "rejected_event": ev, "previous_event": events[matched - 1] if matched else None,
                          "behaviour": beh, "tlc": tres2.violation or "", "tlc_tail": tres2.out[-1500:]})
        else:
            ok, matched = ok2, matched2
    return ok, len(events), matched, tres, viol


def binding_b(ck, exes, cfg, notes, nt):
    runs = []
    for lang, n in (("c", cfg["nhist"]), ("cxx", cfg["nhist_cxx"])):
        hists, recs = record_histories(ck, exes[lang], n, cfg["steps"], lang)
        runs.append((lang, hists, recs))
    with concurrent.futures.ThreadPoolExecutor(max_workers=2) as tp:
        futs = [tp.submit(validate, ck, lang, hists, recs) for lang, hists, recs in runs]
        results = [f.result() for f in futs]
    made = skipped = 0
    kinds = {}
    out = {}
    for (lang, hists, recs), (ok, nev, matched, tres, viol) in zip(runs, results):
        ck.cov["transitions"] += tres.generated
        if viol:
            ck.violation(viol[0], viol[1])
        by = vlib.group_records(recs)
        for h, hist in enumerate(hists):
            rs = by.get(h, [])
            if nontrivial_b(rs):
                nt.add(json.dumps([[s["a"], {k: v for k, v in (s.get("arg") or {}).items() if k != "text"}] for s in hist], sort_keys=True)[:4000])
            for r in rs:
                if (r.get("obs") or {}).get("skip"):
                    skipped += 1
                else:
                    made += 1
                    if r.get("a") in NEW_ACTS:
                        kinds[r["a"]] = kinds.get(r["a"], 0) + 1
        if ok:
            ck.cov["traces_validated_against_impl"] += len(hists)
        ck.cov["evaluations"] += len(hists)
        out[lang] = {"histories": len(hists), "events": nev, "events_matched": matched, "tlc_wall_s": round(tres.wall, 1)}
    out.update({"calls_made": made, "calls_skipped_by_guard": skipped, "treeuse_calls_made": kinds})
    notes["trace"] = out


def export(gencfg):
    wdir = vlib.ensure(os.path.join(vlib.WORK, "X14"))
    path = os.path.join(wdir, "behav-%s-%d.txt" % (gencfg, os.getpid()))
    gen = vlib.tlc("Gen_TreeUse", gencfg, workers=4, extra=("-userFile", path), tag="Gen_TreeUse-" + gencfg)
    return gen, path


def run_part(ck, tier):
    cfg = CFG[tier]
    exes = build()
    notes = ck.notes.setdefault("x14_tree", {})
    # all TLC runs (exhaustive checks and behaviour exports) side by side; meanwhile the histories are recorded
    pool = concurrent.futures.ThreadPoolExecutor(max_workers=len(cfg["mc"]) + len(cfg["gen"]))
    fgen = [pool.submit(export, g) for g in cfg["gen"]]
    fmc = [pool.submit(vlib.tlc, "MC_TreeUse", c, workers=max(vlib.NCPU // 4, 2), tag="MC_TreeUse-" + c)
           for c in cfg["mc"]]
    nt = set()
    try:
        binding_b(ck, exes, cfg, notes, nt)
        for g, f in zip(cfg["gen"], fgen):
            gen, path = f.result()
            binding_a(ck, exes, g, gen, path, cfg, notes, nt)
    finally:
        res = [f.result() for f in fmc]
        pool.shutdown()
    for c, r in zip(cfg["mc"], res):
        ck.add_tlc(r, "x14 exhaustive " + c)
    ck.cov["distinct_nontrivial"] += len(nt)
    notes["rule"] = ("A: one behaviour per transition of a TreeUse call from every state of the graph spanned by the modifying "
                     "calls (states identified up to renaming of handles), replayed into the C driver and -- except the calls "
                     "on the library's process-wide list -- into the C++ driver; B: seeded call histories on %d handles "
                     "(calls of NodeTree and TreeUse mixed) from both drivers validated by TLC against Trace_TreeUse.  "
                     "Non-trivial (A) = the last call is a TreeUse call and some node has a parent afterwards; (B) = a node "
                     "with a grandparent existed, nodes were released and a producing/switching call was made." % NB)
    ck.assumptions += ["x14: drv/treeuse.c / treeuse_cxx.cpp project without judgement (follow the four pointers of each node, "
                       "map them to handles in the order of allocation); their guard of the caller obligations is cross-checked "
                       "by TLC on every recorded call",
                       "x14: value objects are the drivers' counting objects, also those the library attaches (mpt_meta_new is "
                       "defined by the driver); the text written for a forest is the plain default-format rendering "
                       "(name { ... } / name = value), the language itself is property C09's",
                       "x14: mpt_gnode_switch is called on nodes none of which is below the other (as mpt_gnode_swap)"]
    return ck


def replay(det, path=""):
    """Re-run the behaviour of a violation file written by run_part; returns 0/1/2 like check.py --replay."""
    beh = det.get("behaviour")
    if not beh:
        print(json.dumps(det, indent=1)[:4000])
        return 2
    lang = det.get("lang", "c")
    exe = build()[lang]
    recs, _ = vlib.run_driver(exe, vlib.to_script([beh]), env=ENV)
    if any("exp" in s for s in beh):
        mms = vlib.compare([beh], recs, match)
        for mm in mms:
            print("VIOLATION property=C14 replay=%s  (%s: %s)" % (path, signature(lang, mm["step"], mm["why"]), mm["why"]))
        return 1 if mms else 0
    events = vlib.merge_trace([beh], recs)
    for e in events:
        e["arg"] = {k: v for k, v in e["arg"].items() if k != "text"}
    ok, matched, _ = vlib.validate_trace("Trace_TreeUse", events, tag="Trace_TreeUse_replay", xss="1g")
    if not ok:
        print("VIOLATION property=C14 replay=%s  (x14 trace rejected at event %d: %s)" % (
            path, matched, json.dumps(events[matched])[:600] if matched < len(events) else "-"))
    return 0 if ok else 1
