"""C14 -- node trees stay structurally sound (spec/NodeTree.tla)."""
import glob
import json
import os
import threading
import vlib

# bulk replays: no symbolizer process per sanitizer report (failing behaviours are re-run with it)
FAST_ENV = {"ASAN_OPTIONS": vlib.ASAN_ENV + ":symbolize=0"}
PID = "C14"
MANIFEST = dict(
        spec="NodeTree.tla (+MC_NodeTree, Gen_NodeTree, Trace_NodeTree)",
        text="TLC checks exhaustively (handle tables of 4 nodes quick / 5 nodes thorough, states identified up to renaming of "
             "handles, every call with every position -2..3 [-3..4], by position and by name) that the pointer operations on "
             "next/prev/parent/children implement an ordered forest: links stay mutually consistent and acyclic, every node is "
             "in exactly one place, clones have the shape, names and values of their source at every depth, a clone that meets "
             "an allocation failure leaves nothing behind, destroy is refused on linked nodes and each released node is released "
             "once.  Every transition of the model is then replayed into the real mptcore/node code (all four links, name and "
             "value of every node, the released nodes from the allocation seam and the number of live value objects compared "
             "after each call), and seeded histories on 24 handles with names of 0..300 bytes recorded from the real code are "
             "validated by TLC against the same specification.",
        note="Trusted: TLC, drv/nodetree.c (projection only: follows pointers, maps them to handles).  Callers link only "
             "unlinked nodes and never a node below itself (precondition of the GNode-style calls).  Releases are decided "
             "for the node blocks (allocation seam) and the driver's counting value objects; name buffers are left to ASan.",
        technique="TLA+ spec + TLC exhaustive check; TLC-generated behaviours replayed into the C code; TLC trace validation of recorded runs",
        design="5/C14")
CFG = {
    "quick":    dict(mc=["MC_NodeTree.cfg"], gen=["Gen_NodeTree.cfg"], nhist=30, steps=100),
    "thorough": dict(mc=["MC_NodeTree_t.cfg", "MC_NodeTree_t2.cfg", "MC_NodeTree_f.cfg"],
                     gen=["Gen_NodeTree.cfg", "Gen_NodeTree_t3.cfg", "Gen_NodeTree_t.cfg", "Gen_NodeTree_t2.cfg"],
                     nhist=150, steps=300),
}
SEAM = ("malloc=vf_malloc", "free=vf_free", "calloc=vf_calloc", "realloc=vf_realloc")


def build():
    srcs = sorted(os.path.relpath(p, vlib.REPO) for p in glob.glob(os.path.join(vlib.REPO, "mptcore/node/*.c")))
    srcs.append("mptcore/misc/identifier.c")      # name buffers of long identifiers go through the seam as well
    if not srcs:
        raise vlib.MachineryError("no node sources under %s" % vlib.REPO)
    return vlib.build_driver("nodetree", ["nodetree.c"], defines=SEAM, repo_sources=srcs)


KEYS = ("ret", "freed", "links", "names", "vals", "metas")


def match(exp, obs, step, rec, prev):
    """Verdict projection: answer, released handles, all links/names/values, live value objects."""
    if not exp:
        return None
    for k in KEYS:
        if k not in obs:
            return "%s: missing" % k
        if obs[k] != exp[k]:
            return "%s: expected %s, observed %s" % (k, json.dumps(exp[k]), json.dumps(obs[k]))
    for k in ("fired", "grow"):         # failed clone: the armed failure was met, nothing stays allocated
        if k in exp and obs.get(k) != exp[k]:
            return "%s: expected %s, observed %s" % (k, exp[k], obs.get(k))
    d = rec.get("dbg") or {}
    if d.get("badfree"):
        return "freed: a block was released that is not allocated (badfree=%d)" % d["badfree"]
    if d.get("badunref"):
        return "metas: a value object was released twice (badunref=%d)" % d["badunref"]
    return None


def arg_class(st):
    """Discriminating condition of a failing step (computed from the step only)."""
    a, arg = st["a"], st.get("arg") or {}
    if a == "clonefail":
        return "%s,%s" % (arg.get("kind"), "failmeta" if arg.get("failmeta") else "failat")
    if "pos" in arg:
        p = arg["pos"]
        return "pos<0" if p < 0 else "pos=0" if p == 0 else "pos=1" if p == 1 else "pos>1"
    return "-"


def signature(mm):
    st = mm["step"]
    why = mm["why"]
    if why in ("Crash", "Hang"):
        return "%s:%s:%s" % (st["a"], why.lower(), arg_class(st))
    return "%s:%s:%s" % (st["a"], why.split(":")[0], arg_class(st))


QUERIES = ("pos", "locate", "find", "next", "traverse", "init", "new")


def nontrivial_a(beh):
    """last call modifies (not a query, not new) a structure in which some node has a parent"""
    last = beh[-1]
    if last["a"] in QUERIES:
        return False
    links = (last.get("exp") or {}).get("links") or []
    before = any(s["a"] in ("ginsert", "ninsert") for s in beh[:-1])
    return before or any(l and l[2] > 0 for l in links)


def callkey(beh):
    return json.dumps([[s["a"], s.get("arg")] for s in beh])


def quiet_script(behs):
    """prefix steps are executed without logging (each is the last step of another behaviour)"""
    out = []
    for beh in behs:
        out.append([dict(a=s["a"], arg=dict(s.get("arg") or {}, q=1)) for s in beh[:-1]] + [beh[-1]])
    return vlib.to_script(out)


def chunks(path, n):
    buf = []
    with open(path) as fh:
        for ln in fh:
            if ln.startswith('<<"BEHAV", '):
                buf.append(ln)
                if len(buf) >= n:
                    yield buf
                    buf = []
    if buf:
        yield buf


def binding_a(ck, exe, gencfg, tag, nt, samples):
    """TLC exports one behaviour per transition (to a file); each is replayed into the real code."""
    wdir = vlib.ensure(os.path.join(vlib.WORK, PID))
    path = os.path.join(wdir, "behav-%s-%d.txt" % (tag, os.getpid()))
    if os.path.exists(path):
        os.unlink(path)
    gen = vlib.tlc("Gen_NodeTree", gencfg, workers=4, extra=("-userFile", path), tag="Gen_NodeTree-" + tag)
    if gen.error or gen.violation:
        raise vlib.MachineryError("behaviour export failed: %s %s" % (gen.error, gen.violation))
    total = nmm = 0
    acts = {}
    failed = {}
    crashes = 0
    cut = False
    for ch in chunks(path, 12500):
        behs = vlib.parse_behaviours("".join(ch))
        recs, _ = vlib.run_driver(exe, quiet_script(behs), env=FAST_ENV, timeout=900)
        mms = vlib.compare(behs, recs, match)
        for mm in mms:
            failed[callkey(behs[mm["b"]])] = (behs[mm["b"]], mm)
            crashes += mm["why"] in ("Crash", "Hang")
        nmm += len(mms)
        if crashes > 300:       # a tree that crashes this often is reported from what was seen so far
            total += len(behs)
            cut = True
            break
        for beh in behs:
            acts[beh[-1]["a"]] = acts.get(beh[-1]["a"], 0) + 1
            if nontrivial_a(beh):
                nt.add(json.dumps([(s["a"], s.get("arg")) for s in beh], sort_keys=True))
        if not samples:
            samples += [vlib.sample_repr(b) for b in behs[len(behs) // 2: len(behs) // 2 + 2]]
        total += len(behs)
    os.unlink(path)
    # a behaviour whose prefix already failed only repeats that failure (its prefix is a behaviour of its own)
    rootb = []
    for key, (beh, mm) in sorted(failed.items(), key=lambda kv: len(kv[1][0])):
        calls = json.loads(key)
        if any(json.dumps(calls[:k]) in failed for k in range(1, len(calls))):
            continue
        rootb.append(beh)
    # run the failing behaviours once more (fully logged) before reporting
    roots = 0
    persig = {}
    if rootb:
        recs, _ = vlib.run_driver(exe, vlib.to_script(rootb))
        for mm in vlib.compare(rootb, recs, match):
            roots += 1
            sig = signature(mm)
            persig[sig] = persig.get(sig, 0) + 1
            if persig[sig] <= 3:       # a few replay files per signature are enough
                ck.violation(sig, {"binding": "A(replay)", "behaviour": rootb[mm["b"]], "step": mm["i"],
                                   "why": mm["why"], "record": mm["rec"]})
    if not cut and total != gen.generated - 1:
        raise vlib.MachineryError("behaviour export incomplete: %d lines for %d transitions" % (total, gen.generated - 1))
    ck.cov["evaluations"] += total
    ck.notes.setdefault("replay", []).append({"cfg": gencfg, "behaviours": total, "mismatches": nmm, "mismatches_without_failed_prefix": roots,
                                              "last_calls": acts, "tlc_wall_s": round(gen.wall, 1)})
    return total


# ---------------------------------------------------------------------------
# binding B: call histories at production-like sizes, recorded and validated by TLC
NB = 24                      # handle table of the recorded histories (MaxNodes of Trace_NodeTree.cfg)
NAMELENS = [0, 1, 1, 2, 3, 7, 8, 20, 27, 28, 29, 60, 100, 200, 251, 252, 253, 255, 256, 300]
OPS = [("new", 20), ("ginsert", 10), ("ninsert", 10), ("gadd", 6), ("nadd", 7), ("after", 4), ("before", 4),
       ("unlink", 6), ("destroy", 4), ("clear", 2), ("relink", 3), ("clonenode", 2), ("clonetree", 4),
       ("clonelist", 4), ("clonefail", 4), ("move", 7), ("swap", 3), ("pos", 2), ("locate", 3), ("find", 3), ("next", 2),
       ("traverse", 3)]


def name_pool(rng):
    base = rng.choice("abcdxyz")
    pool = ["a", "b"]
    for ln in rng.sample(NAMELENS, 3):
        pool.append("" if ln == 0 else base * (ln - 1) + rng.choice("ab"))   # long names share their prefix

    return pool


def name_pool_raw(rng):
    """the text names plus non-text identifiers ("~<bytes>", raw keys): one that equals a text name but for the class,
    one of a length up to beyond the inline size (drv/nodetree.c only; the x14 driver knows text names)"""
    pool = name_pool(rng)
    return pool + ["~b", "~" + rng.choice("abx") * rng.choice([2, 27, 60, 300])]


def extend(rng, hist, obs, pool, k):
    """k more calls.  Arguments are picked with the help of the structure the real code reported last
    (which handles are in use / unlinked); nothing here is compared with anything."""
    links = (obs or {}).get("links") or [[] for _ in range(NB)]
    live = [i + 1 for i, l in enumerate(links) if l]
    iso = [i for i in live if links[i - 1][:3] == [0, 0, 0]]
    free = [i + 1 for i, l in enumerate(links) if not l]
    names, weights = zip(*OPS)
    textkeys = [x for x in pool if not x.startswith("~")]      # keys of the searches are text
    for _ in range(k):
        op = rng.choices(names, weights)[0]
        if len(live) < 3 and rng.random() < 0.6:
            op = "new"
        elif len(free) < 4 and rng.random() < 0.5:     # table nearly full: make room
            op = rng.choice(["destroy", "destroy", "clear", "unlink"])

        def any_handle():
            return rng.randrange(0, NB + 2) if rng.random() < 0.06 or not live else rng.choice(live)

        def unlinked():
            return rng.choice(iso) if iso and rng.random() < 0.9 else any_handle()
        pos = rng.choice([-6, -3, -2, -1, 0, 0, 1, 1, 2, 3, 4, 7])
        if op == "new":
            arg = {"name": rng.choice(pool), "val": rng.choice([0, 0, rng.randrange(1, 1000)])}
            if free:            # the node will get the smallest unused handle
                live.append(free[0]); iso.append(free[0]); free.pop(0)
        elif op in ("ginsert", "ninsert"):
            arg = {"p": any_handle(), "pos": pos, "n": unlinked()}
        elif op in ("gadd", "nadd"):
            arg = {"first": any_handle(), "pos": pos, "n": unlinked()}
        elif op in ("after", "before"):
            arg = {"p": rng.choice([0, any_handle(), any_handle(), any_handle()]), "n": unlinked()}
        elif op == "clonefail":
            fm = rng.random() < 0.3
            arg = {"kind": rng.choice(["clonenode", "clonetree", "clonetree", "clonelist", "clonelist"]), "n": any_handle(),
                   "failat": 0 if fm else rng.choice([1, 1, 2, 2, 3, 4, 6]), "failmeta": rng.choice([1, 1, 2, 3]) if fm else 0}
        elif op == "move":
            arg = {"s": any_handle(), "d": any_handle()}
        elif op == "swap":
            arg = {"a": any_handle(), "b": any_handle()}
        elif op == "pos":
            arg = {"n": any_handle(), "pos": pos}
        elif op == "locate":
            arg = {"n": any_handle(), "pos": pos, "key": rng.choice(textkeys)}
        elif op == "find":
            arg = {"p": any_handle(), "key": rng.choice(textkeys), "pos": pos}
        elif op == "next":
            arg = {"n": any_handle(), "key": rng.choice(textkeys)}
        elif op == "traverse":
            arg = {"n": any_handle(), "ord": rng.choice(["pre", "post", "in"])}
        else:
            arg = {"n": any_handle()}
        if op in ("ginsert", "ninsert", "gadd", "nadd", "after", "before") and arg["n"] in iso:
            iso.remove(arg["n"])
        arg["g"] = 1
        hist.append({"a": op, "arg": arg})


def record_histories(ck, exe, n, steps, batch=10):
    rng = ck.rng
    hists = [[{"a": "init", "arg": {"n": NB}}] for _ in range(n)]
    pools = [name_pool_raw(rng) for _ in range(n)]
    last = [None] * n
    for _ in range(0, steps, batch):
        for h in range(n):
            extend(rng, hists[h], last[h], pools[h], batch)
        recs, _ = vlib.run_driver(exe, quiet_script(hists))
        by = vlib.group_records(recs)
        for h in range(n):
            rs = by.get(h, [])
            if rs and rs[-1].get("a") not in ("Crash", "Hang", "Garbled"):
                last[h] = rs[-1].get("obs") or None
    recs, _ = vlib.run_driver(exe, vlib.to_script(hists))
    return hists, recs


def nontrivial_b(recs):
    """a node with a grandparent existed, nodes were released, and a clone or move of linked nodes happened"""
    deep = rel = big = False
    for r in recs:
        o = r.get("obs") or {}
        links = o.get("links") or []
        for l in links:
            if l and 0 < l[2] <= len(links) and links[l[2] - 1] and links[l[2] - 1][2] > 0:
                deep = True
        if o.get("freed"):
            rel = True
        if r.get("a") in ("clonetree", "clonelist", "clonefail", "move") and not o.get("skip"):
            big = True
    return deep and rel and big


def trace_signature(ev, call=None):
    if ev is None:
        return "trace:short"
    if ev["a"] in ("Crash", "Hang", "Garbled", "Missing"):
        return "trace:%s:%s:%s" % (call["a"] if call else "?", ev["a"].lower(), arg_class(call) if call else "-")
    return "trace:%s:%s:%s" % (ev["a"], "skipped" if (ev.get("obs") or {}).get("skip") else "rejected", arg_class(ev))


def binding_b(ck, exe, n, steps, nt):
    hists, recs = record_histories(ck, exe, n, steps)
    events = vlib.merge_trace(hists, recs)
    ok, matched, tres = vlib.validate_trace("Trace_NodeTree", events, tag="Trace_NodeTree", xss="1g")
    ck.cov["transitions"] += tres.generated
    if not ok:
        ok2, matched2, _ = vlib.validate_trace("Trace_NodeTree", events, tag="Trace_NodeTree", xss="1g")
        if not ok2 and matched2 == matched:
            ev = events[matched] if matched < len(events) else None
            beh = hists[ev["b"]][:ev["i"] + 1] if ev else None
            ck.violation(trace_signature(ev, beh[-1] if beh else None), {"binding": "B(trace validation)", "matched_prefix": matched,
                                               "rejected_event": ev, "previous_event": events[matched - 1] if matched else None,
                                               "behaviour": beh, "tlc_tail": tres.out[-1500:]})
        else:
            ok = ok2
    by = vlib.group_records(recs)
    skipped = made = 0
    for h, hist in enumerate(hists):
        rs = by.get(h, [])
        if nontrivial_b(rs):
            nt.add(callkey(hist))
        for r in rs:
            if (r.get("obs") or {}).get("skip"):
                skipped += 1
            else:
                made += 1
    ck.cov["traces_validated_against_impl"] = len(hists) if ok else 0
    ck.cov["evaluations"] += len(hists)
    ck.notes["trace"] = {"histories": len(hists), "events": len(events), "events_matched": matched,
                         "calls_made": made, "calls_skipped_by_guard": skipped, "tlc_wall_s": round(tres.wall, 1)}
    return hists


def run(tier):
    cfg = CFG[tier]
    ck = vlib.Check(PID, tier)
    exe = build()

    # 1. the link structure (Tier 2) implements the ordered forest (Tier 1); runs beside the replay
    mcres = []

    def model_check():
        for mc in cfg["mc"]:
            mcres.append((mc, vlib.tlc("MC_NodeTree", mc, tag="MC_NodeTree-" + mc, deque=True, workers=max(2, vlib.NCPU // 2))))
    th = threading.Thread(target=model_check)
    th.start()

    # 2. binding A: every transition replayed into the real code
    nt = set()
    samples = []
    try:
        for g in cfg["gen"]:
            binding_a(ck, exe, g, g.replace(".cfg", ""), nt, samples)
    finally:
        th.join()
    if len(mcres) != len(cfg["mc"]):
        raise vlib.MachineryError("model checking run did not finish")
    for mc, res in mcres:
        ck.add_tlc(res, "exhaustive " + mc)

    # 3. binding B: recorded executions at production-like sizes validated by TLC
    hists = binding_b(ck, exe, cfg["nhist"], cfg["steps"], nt)
    ck.cov["distinct_nontrivial"] = len(nt)
    ck.cov["exhaustive"] = True
    ck.cov["samples"] = samples + [[{"a": s["a"], "arg": s["arg"]} for s in hists[0][:10]]]
    ck.cov["rule"] = ("A: one behaviour per transition of the TLC state graph of NodeTree (states identified up to renaming "
                      "of handles; every call with every handle/position/name argument of the configuration), replayed into "
                      "the real node code; B: seeded call histories on a table of %d handles with names of 0..300 bytes, "
                      "recorded from the real code and validated by TLC against NodeTree.  Non-trivial (A) = the last call is "
                      "a modifying call other than new on a structure in which some node has a parent; (B) = a node with a "
                      "grandparent existed, nodes were released and a tree/list clone or a move was executed; distinct by "
                      "call sequence." % NB)
    ck.assumptions = ["TLC/SANY and the CommunityModules Json/IOUtils are correct",
                      "drv/nodetree.c projects the state without judgement (follows the four pointers of each node, maps "
                      "them to handles); its guard of the caller obligations is cross-checked by TLC on every recorded call",
                      "callers link only unlinked nodes and never link a node below itself (GNode-style precondition)",
                      "identifying states up to renaming of handles is sound: actions and properties do not depend on "
                      "particular handles (checked once against the unreduced 4-node graph, 348135 states)",
                      "releases are decided for node blocks (allocation seam) and the driver's value objects; name buffers "
                      "of long identifiers are observed by ASan only",
                      "the exhaustive model is bounded (see MC cfg); beyond it coverage is by the seeded histories"]
    # extension X14: the remaining tree operations and the users of node trees (checks/x14_tree.py, docs/X14_tree.md)
    import x14_tree
    if x14_tree.enabled():
        x14_tree.run_part(ck, tier)
    return ck.finish()


def replay_trace(beh, recs, path):
    events = vlib.merge_trace([beh], recs)
    ok, matched, _ = vlib.validate_trace("Trace_NodeTree", events, tag="Trace_NodeTree_replay", xss="1g")
    if not ok:
        print("VIOLATION property=%s replay=%s  (trace rejected at event %d: %s)" %
              (PID, path, matched, json.dumps(events[matched])[:600] if matched < len(events) else "-"))
    return 0 if ok else 1


def replay(path):
    d = json.load(open(path))
    det = d["detail"]
    if det.get("x14"):
        import x14_tree
        return x14_tree.replay(det, path)
    beh = det.get("behaviour")
    if not beh:
        print(json.dumps(det, indent=1)[:4000])
        return 2
    exe = build()
    recs, err = vlib.run_driver(exe, vlib.to_script([beh]))
    if not any("exp" in s for s in beh):
        return replay_trace(beh, recs, path)
    mms = vlib.compare([beh], recs, match)
    for mm in mms:
        print("VIOLATION property=%s replay=%s  (%s: %s)" % (PID, path, signature(mm), mm["why"]))
    return 1 if mms else 0
