"""C14 -- node trees stay structurally sound (spec/NodeTree.tla)."""
import glob
import json
import os
import vlib

PID = "C14"
MANIFEST = dict(
        spec="NodeTree.tla (+MC_NodeTree, Gen_NodeTree, Trace_NodeTree)",
        text="TLC checks exhaustively (handle tables of 3 nodes quick / 4 nodes thorough, every call with every position "
             "-2..3, by position and by name) that the pointer operations on next/prev/parent/children implement an ordered "
             "forest: links stay mutually consistent and acyclic, every node is in exactly one place, clones have the shape, "
             "names and values of their source at every depth, destroy is refused on linked nodes and each released node is "
             "released once.  Every transition of the model is then replayed into the real mptcore/node code (all four links, "
             "name and value of every node, the released nodes from the allocation seam and the number of live value objects "
             "compared after each call), and seeded histories on up to 40 nodes with names of 0..300 bytes recorded from the "
             "real code are validated by TLC against the same specification.",
        note="Trusted: TLC, drv/nodetree.c (projection only: follows pointers, maps them to handles).  Callers link only "
             "unlinked nodes and never a node below itself (precondition of the GNode-style calls).  Releases are decided "
             "for the node blocks (allocation seam) and the driver's counting value objects; name buffers are left to ASan.",
        technique="TLA+ spec + TLC exhaustive check; TLC-generated behaviours replayed into the C code; TLC trace validation of recorded runs",
        design="5/C14")
CFG = {
    "quick":    dict(mc="MC_NodeTree.cfg",   gen="Gen_NodeTree.cfg",   nhist=40,  steps=120),
    "thorough": dict(mc="MC_NodeTree_t.cfg", gen="Gen_NodeTree_t.cfg", nhist=200, steps=300),
}
SEAM = ("malloc=vf_malloc", "free=vf_free", "calloc=vf_calloc", "realloc=vf_realloc")


def build():
    srcs = sorted(os.path.relpath(p, vlib.REPO) for p in glob.glob(os.path.join(vlib.REPO, "mptcore/node/*.c")))
    if not srcs:
        raise vlib.MachineryError("no node sources under %s" % vlib.REPO)
    return vlib.build_driver("nodetree", ["nodetree.c"], defines=SEAM, repo_sources=srcs)


KEYS = ("ret", "freed", "links", "names", "vals", "metas")


def match(exp, obs, step, rec, prev):
    """Verdict projection: answer, released handles, all links/names/values, live value objects."""
    if not exp:
        return None
    for k in KEYS:
        if k not in obs:
            return "%s: missing" % k
        if obs[k] != exp[k]:
            return "%s: expected %s, observed %s" % (k, json.dumps(exp[k]), json.dumps(obs[k]))
    d = rec.get("dbg") or {}
    if d.get("badfree"):
        return "freed: a block was released that is not allocated (badfree=%d)" % d["badfree"]
    if d.get("badunref"):
        return "metas: a value object was released twice (badunref=%d)" % d["badunref"]
    return None


def arg_class(st):
    """Discriminating condition of a failing step (computed from the step only)."""
    a, arg = st["a"], st.get("arg") or {}
    if "pos" in arg:
        p = arg["pos"]
        return "pos<0" if p < 0 else "pos=0" if p == 0 else "pos=1" if p == 1 else "pos>1"
    return "-"


def signature(mm):
    st = mm["step"]
    why = mm["why"]
    if why in ("Crash", "Hang"):
        return "%s:%s:%s" % (st["a"], why.lower(), arg_class(st))
    return "%s:%s:%s" % (st["a"], why.split(":")[0], arg_class(st))


def nontrivial(recs):
    """a tree of depth >= 2 (some node has a parent that has a parent) existed and nodes were released"""
    deep = rel = False
    for r in recs:
        o = r.get("obs") or {}
        links = o.get("links") or []
        for l in links:
            if l and l[2] > 0 and l[2] <= len(links) and links[l[2] - 1] and links[l[2] - 1][2] > 0:
                deep = True
        if o.get("freed"):
            rel = True
    return deep and rel


def run(tier):
    cfg = CFG[tier]
    ck = vlib.Check(PID, tier)
    exe = build()

    # 1. the link structure (Tier 2) implements the ordered forest (Tier 1)
    res = vlib.tlc("MC_NodeTree", cfg["mc"], coverage=False)
    ck.add_tlc(res, "exhaustive " + cfg["mc"])

    # 2. binding A: every transition replayed into the real code
    gen = vlib.tlc("Gen_NodeTree", cfg["gen"], workers=4)
    if gen.error or gen.violation:
        raise vlib.MachineryError("behaviour export failed: %s %s" % (gen.error, gen.violation))
    behs = vlib.parse_behaviours(gen.out)
    recs, _ = vlib.run_driver(exe, vlib.to_script(behaviours=behs))
    mms = vlib.compare(behs, recs, match)
    for mm in mms:
        ck.violation(signature(mm), {"binding": "A(replay)", "behaviour": behs[mm["b"]], "step": mm["i"],
                                     "why": mm["why"], "record": mm["rec"]})
    by = vlib.group_records(recs)
    nt = set()
    for b, beh in enumerate(behs):
        if nontrivial(by.get(b, [])):
            nt.add(json.dumps([(s["a"], s.get("arg")) for s in beh], sort_keys=True))
    ck.cov["evaluations"] += len(behs)
    ck.notes["replayed_behaviours"] = len(behs)
    ck.notes["replay_mismatches"] = len(mms)
    ck.cov["distinct_nontrivial"] = len(nt)
    ck.cov["exhaustive"] = True
    ck.cov["samples"] = [vlib.sample_repr(b) for b in behs[len(behs) // 2: len(behs) // 2 + 2]]
    return ck.finish()


def replay(path):
    d = json.load(open(path))
    det = d["detail"]
    beh = det.get("behaviour")
    if not beh:
        print(json.dumps(det, indent=1)[:4000])
        return 2
    exe = build()
    recs, err = vlib.run_driver(exe, vlib.to_script([beh]))
    mms = vlib.compare([beh], recs, match)
    for mm in mms:
        print("VIOLATION property=%s replay=%s  (%s: %s)" % (PID, path, signature(mm), mm["why"]))
    return 1 if mms else 0
