"""C11 extension X24 -- the stock handlers mpt_dispatch_param registers (spec/Params.tla).

run_part(ck, tier) adds to the C11 check: exhaustive TLC run of Params, replay of TLC-generated behaviours into
mpt_dispatch_param / mpt_dispatch_emit / mpt_dispatch_set / mpt_command_set / mpt_dispatch_fini with a counted test
metatype and a recording reply context (drv/params.c), and TLC trace validation of seeded command histories at
production sizes (long paths and values, several query paths, messages cut into fragments anywhere).  Python only
generates call sequences; every expected value comes from TLC."""
import json
import os
import vlib

PID = "C11"
PART = "x24_params"
CFG = {
    "quick":    dict(mcs=["MC_Params.cfg"], gens=["Gen_Params.cfg"], nhist=30, steps=60),
    "thorough": dict(mcs=["MC_Params_t.cfg"], gens=["Gen_Params.cfg", "Gen_Params_t.cfg"], nhist=150, steps=120),
}
ENV = {"ASAN_OPTIONS": vlib.ASAN_ENV + ":symbolize=0"}
CHUNK = 8000


def enabled():
    """The part needs its fix commit (docs/X24_params.md) in the tree under test: it is switched on by the marker file
    checks/x24_params.accepted (created when the commit is integrated) or by VERIF_X24=1, off by VERIF_X24=0."""
    env = os.environ.get("VERIF_X24")
    if env is not None:
        return env not in ("0", "")
    return os.path.exists(os.path.join(vlib.ROOT, "checks", "x24_params.accepted"))


def build():
    return vlib.build_driver("params", ["params.c"], libs=("mptcore",))


def match(exp, obs, step=None, rec=None, prev=None):
    """Key-wise equality with TLC's expectation; 'rany' only says what is not spoken about (bit 0: the reply's content,
    which TLC then gives as "any"; bit 1: the returned value)."""
    skip = {"rany"} | ({"ret"} if exp.get("rany", 0) >= 2 else set())
    return vlib.default_match({k: v for k, v in exp.items() if k not in skip}, obs, step, rec, prev)


def arg_class(step):
    a = step.get("arg") or {}
    if step["a"] == "emit":
        if "hdr" in a:
            return "emit:cmd=%s:short" % a.get("cmd")
        return "emit:cmd=%s:reply=%s" % (a.get("cmd"), a.get("reply"))
    if step["a"] == "install":
        return "install:m=%s:failref=%s" % (a.get("m"), a.get("failref"))
    return step["a"]


def signature(step, why):
    key = why.split(":")[0].split(" ")[0] if why else "?"
    if why in ("Crash", "Hang", "Garbled") or why.startswith("no record"):
        key = why.split(" ")[0].lower()
    return "x24:%s:%s" % (arg_class(step), key)


def run_chunks(exe, behs):
    recs = []
    for k in range(0, len(behs), CHUNK):
        part = behs[k:k + CHUNK]
        r, _ = vlib.run_driver(exe, vlib.to_script(part), env=ENV)
        for x in r:
            if isinstance(x.get("b"), int):
                x["b"] += k
        recs += r
    return recs


# --------------------------------------------------------------------------
# binding B: seeded histories (call sequences only)
# --------------------------------------------------------------------------
ALNUM = b"abcdefghijklmnopqrstuvwxyz0123456789_"


def gen_histories(ck, n, steps):
    rng = ck.rng
    out = []
    for h in range(n):
        big = h % 3 == 0
        def elem():
            ln = rng.choice([1, 1, 2, 3, 7, 40, 120]) if big else rng.choice([1, 1, 2, 3])
            return [rng.choice(ALNUM) for _ in range(ln)]
        pool = []
        for _ in range(rng.randint(3, 7)):
            if pool and rng.random() < 0.5:
                base = rng.choice(pool)
                p = (base + [elem()]) if rng.random() < 0.7 else base[:max(1, len(base) - 1)]
            else:
                p = [elem() for _ in range(rng.randint(1, 4 if big else 2))]
            # the sub-tree views of the counted metatypes live under "m1"/"m2" of the process configuration
            if p[0] in ([109, 49], [109, 50]):
                p[0] = [120] + p[0]
            if p not in pool:
                pool.append(p)

        def value():
            ln = rng.choice([0, 1, 2, 5, 30, 200, 700, 1100]) if big else rng.choice([0, 1, 2, 5])
            return [rng.choice([rng.randint(1, 255), rng.randint(33, 126)]) for _ in range(ln)]

        def cuts(total):
            k = rng.choice([0, 0, 1, 2, 3])
            return sorted(rng.randint(0, total) for _ in range(k))
        tok = [0]

        def newtok():
            tok[0] += 1
            return tok[0]
        beh = [{"a": "init", "arg": {"x": 0}}]
        ids = [5, 6, 7, 16]
        for s in range(steps):
            r = rng.random()
            if s == 0 or r < 0.08:
                m = rng.choice([0, 1, 1, 2])
                beh.append({"a": "install", "arg": {"m": m, "failref": rng.choice([0, 0, 0, 1, 2]) if m else 0}})
            elif r < 0.12:
                beh.append({"a": "set", "arg": {"id": rng.choice(ids), "tok": newtok()}})
            elif r < 0.17:
                beh.append({"a": "cmdset", "arg": {"id": rng.choice(ids), "new": rng.choice([0, 1, 1]), "tok": newtok()}})
            elif r < 0.21:
                beh.append({"a": "clear", "arg": {"id": rng.choice(ids)}})
            elif r < 0.23:
                beh.append({"a": "fini", "arg": {"x": 0}})
            elif r < 0.55:
                p = rng.choice(pool)
                pay = []
                for e in p:
                    pay += e + [0]
                pay += value()
                depth = len(p) + (1 if rng.random() < 0.05 else 0)
                beh.append({"a": "emit", "arg": {"cmd": rng.choice([6, 6, 7]), "sep": depth, "payload": pay,
                                                 "cuts": cuts(len(pay) + 2), "reply": rng.choice([0, 1, 1]), "r": 0}})
            elif r < 0.80:
                sep = rng.choice([0, 0, 58, 59])
                k = rng.choice([0, 1, 1, 2, 3, 5])
                pay = []
                for i in range(k):
                    p = rng.choice(pool)
                    if rng.random() < 0.15:
                        p = p + [[113, 113]]
                    if i:
                        pay.append(sep)
                    pay += [b for j, e in enumerate(p) for b in (([46] if j else []) + e)]
                if k and rng.random() < 0.5:
                    pay.append(sep)
                beh.append({"a": "emit", "arg": {"cmd": 5, "sep": sep, "payload": pay, "cuts": cuts(len(pay) + 2),
                                                 "reply": rng.choice([0, 1, 1, 1]), "r": 0}})
            elif r < 0.86:
                c = rng.choice([5, 6, 7, 9, 16, 200])
                if rng.random() < 0.5:
                    beh.append({"a": "emit", "arg": {"cmd": c, "hdr": 1, "payload": [], "cuts": [],
                                                     "reply": rng.choice([0, 1]), "r": rng.choice([0, 0, -1, 2])}})
                else:
                    beh.append({"a": "emit", "arg": {"cmd": rng.choice([9, 16, 200]), "sep": 1, "payload": [97, 0, 120],
                                                     "cuts": cuts(5), "reply": rng.choice([0, 1]), "r": rng.choice([0, -1, 4])}})
            else:
                p = rng.choice(pool)
                beh.append({"a": "probe", "arg": {"m": rng.choice([0, 1, 2]),
                                                  "path": [b for j, e in enumerate(p) for b in (([46] if j else []) + e)]}})
        beh.append({"a": "fini", "arg": {"x": 0}})
        out.append(beh)
    return out


def nontrivial(rec):
    o = rec.get("obs") or {}
    return bool(o.get("replies") or o.get("calls") or o.get("apresent") or o.get("present"))


def validate(ck, behs, recs, what):
    events = vlib.merge_trace(behs, recs)
    ok, matched, tres = vlib.validate_trace("Trace_Params", events, tag="Trace_Params", xss="1g")
    if not ok:
        ok, matched, tres = vlib.validate_trace("Trace_Params", events, tag="Trace_Params", xss="1g")   # once more
    ck.cov["transitions"] += tres.generated
    if not ok:
        ev = events[matched] if matched < len(events) else {"a": "end", "arg": {}}
        b = ev.get("b", 0)
        sig = "x24:trace:%s:rejected" % arg_class(ev)
        ck.violation(sig, {"part": PART, "binding": "B(trace)", "what": what, "matched_prefix": matched,
                           "rejected_event": ev, "behaviour": behs[b][:ev.get("i", 0) + 1] if b < len(behs) else None})
    return ok, len(events)


def run_part(ck, tier):
    cfg = CFG[tier]
    notes = ck.notes.setdefault(PART, {})
    exe = build()
    for mc in cfg["mcs"]:
        res = vlib.tlc("MC_Params", mc, tag="x24-" + mc)
        ck.add_tlc(res, "x24 exhaustive " + mc)
    # binding A
    done = 0
    nt = set()
    for g in cfg["gens"]:
        res = vlib.tlc("Gen_Params", g, workers=1, tag="x24-" + g, timeout=2400)
        if res.error or res.violation:
            raise vlib.MachineryError("x24 behaviour export %s failed: %s" % (g, res.error or res.violation))
        behs = vlib.parse_behaviours(res.out)
        if not behs:
            raise vlib.MachineryError("x24 behaviour export %s produced nothing" % g)
        ck.cov["transitions"] += res.generated
        recs = run_chunks(exe, behs)
        per_sig = {}
        for mm in vlib.compare(behs, recs, match):
            sg = signature(mm["step"], mm["why"])
            per_sig[sg] = per_sig.get(sg, 0) + 1
            if per_sig[sg] > 2:          # the same signature is written out twice at most
                continue
            ck.violation(sg,
                         {"part": PART, "binding": "A(replay)", "behaviour": behs[mm["b"]], "step": mm["i"],
                          "why": mm["why"], "record": mm["rec"]})
        for r in recs:
            if nontrivial(r):
                nt.add((r.get("b"), r.get("i")))
        done += len(behs)
        if g == cfg["gens"][0]:
            ck.cov["samples"] = ck.cov.get("samples", []) + [vlib.sample_repr(behs[len(behs) // 2])]
    notes["behaviours_replayed"] = done
    ck.cov["evaluations"] += done
    # binding B
    hist = gen_histories(ck, cfg["nhist"], cfg["steps"])
    recs = run_chunks(exe, hist)
    ok, nev = validate(ck, hist, recs, "seeded histories")
    notes["histories"] = len(hist)
    notes["trace_events"] = nev
    ck.cov["traces_validated_against_impl"] += len(hist) if ok else 0
    ck.cov["evaluations"] += len(hist)
    ck.cov["distinct_nontrivial"] += len(nt)
    ck.cov["rule"] += (" | X24: A: one behaviour per transition of the TLC state graph of Params under the view (table kinds and "
                       "metatypes, set of assigned paths per configuration, fallback); B: seeded histories of install/set/"
                       "cmdset/clear/fini/emit(set, get, cond, short, unknown)/probe at production sizes; nontrivial = a "
                       "step with a reply, a harness call or a present read-back")


def replay(det, path="-"):
    beh = det.get("behaviour")
    if not beh:
        print(json.dumps(det, indent=1)[:4000])
        return 2
    exe = build()
    recs, err = vlib.run_driver(exe, vlib.to_script([beh]), env=ENV)
    if all("exp" in s for s in beh):
        mms = vlib.compare([beh], recs, match)
        for mm in mms:
            print("VIOLATION property=%s replay=%s  (%s: %s)" % (PID, path, signature(mm["step"], mm["why"]), mm["why"]))
        return 1 if mms else 0
    events = vlib.merge_trace([beh], recs)
    ok, matched, _ = vlib.validate_trace("Trace_Params", events, tag="Trace_Params_replay", xss="1g")
    if not ok:
        print("VIOLATION property=%s replay=%s  (trace rejected at event %d: %s)" % (
            PID, path, matched, json.dumps(events[matched])[:600] if matched < len(events) else "-"))
    return 0 if ok else 1


if __name__ == "__main__":
    # standalone runner of the part (development): python3 checks/x24_params.py quick|thorough
    import sys
    import time
    tier = sys.argv[1] if len(sys.argv) > 1 else "quick"
    ck = vlib.Check(PID, tier)
    t0 = time.time()
    run_part(ck, tier)
    for sig, p in ck.violations[:12]:
        print("VIOLATION", sig, p)
    print("known:", list(ck.known_hit))
    print(json.dumps(ck.notes, indent=None)[:1500])
    print("part wall %.1fs, %d violation(s)" % (time.time() - t0, len(ck.violations)))
