"""C19 -- value generators follow the iterator protocol and their formulas (spec/Iter.tla)."""
import json
import threading
import vlib

PID = "C19"
MANIFEST = dict(
        spec="Iter.tla, IterNum.tla, IterSources.tla (+MC_Iter, Gen_Iter, Trace_Iter)",
        text="A source denotes a sequence of exact rationals (linear, range, factor, boundary, polynomial, explicit values, text, "
             "buffer and argument iterators; descriptions are rendered from the parameters by the specification). TLC checks "
             "that the design's answers to value/advance/reset/clone (all interleavings of value/advance/consume/reset/clone on source and clone for counts 0..2, thorough 0..3 "
             "and a third instance, plus the documented loop / past-the-end / reset / half walk / clone / consume script over 315 parameter sets) are acceptable "
             "to the meaning: the loop visits exactly the denoted elements, reading or advancing past the end is reported, reset "
             "and clone replay. Every transition is replayed into the real code (mpt_iterator_create/_values/_string/_linear/"
             "_boundary/_profile/_poly, mpt_meta_buffer/_arguments, mpt_values_linear/_bound); predicted doubles are compared "
             "exactly, the others (thirds, tenths) are validated by TLC against the exact rational within 2^-48 of the operand "
             "magnitude using multi-limb integer arithmetic. Seeded parameter sets rendered by TLC, random call interleavings "
             "and mutated/non-finite descriptions (no fault, answers after reset and in a clone equal those after creation) are "
             "recorded from the real code and validated by TLC. Description texts are generated with decoration (leading, repeated, "
             "trailing white space: blank, tab, newline, CR-LF; white space around ( : ) and behind profile keywords) for every "
             "text-described source; decoration leaves the denoted sequence unchanged (text behind the last number of a text "
             "iterator may be served as one more position without value); empty, blank-only and separator-only descriptions "
             "are replayed for faults and replay consistency.",
        note="Trusted: TLC, drv/iter.c (classes of return values, doubles logged as exact limbs). Not decided: the rounding "
             "direction of single operations, range() counts for steps that are not exactly representable, the file iterator, "
             "the C++ iterator templates; a text iterator is only advanced after its element was read (the element is delimited "
             "by the conversion). Memory safety observed by ASan on each executed call.",
        technique="TLA+ spec + TLC exhaustive check; TLC-generated behaviours replayed into the C code; TLC trace validation of recorded runs",
        design="5/C19")

CFG = {
    "quick": dict(mc="MC_Iter.cfg", gen="Gen_Iter.cfg", nsrc=300, nmut=300),
    "thorough": dict(mc="MC_Iter_t.cfg", gen="Gen_Iter_t.cfg", nsrc=3000, nmut=3000),
}
FAULTS = ("Crash", "Hang", "Garbled", "Missing")


def build():
    return vlib.build_driver("iter", ["iter.c"], libs=("mptcore", "mptplot"))


def fmt(v):
    if isinstance(v, str):
        return "hex:" + v.encode().hex()
    return vlib.fmt_val(v)


def to_script(behs):
    """like vlib.to_script; texts are passed hex encoded (they contain blanks)"""
    lines = []
    for i, beh in enumerate(behs):
        lines.append("B %d" % i)
        for st in beh:
            toks = [st["a"]]
            for k, v in (st.get("arg") or {}).items():
                toks.append("%s=%s" % (k, fmt(v) if k == "desc" else vlib.fmt_val(v)))
            lines.append(" ".join(toks))
    return "\n".join(lines) + "\n"


def run_batched(exe, behs, timeout=1200):
    """Run behaviours in growing batches; stop early when hangs pile up (each costs the driver's alarm
    time).  A behaviour that hung is executed once more on its own before it counts (loaded machine).
    Returns (behaviours actually run, records)."""
    out = []
    pos = 0
    size = 50
    hangs = 0
    while pos < len(behs):
        part = behs[pos:pos + size]
        recs, _ = vlib.run_driver(exe, to_script(part), timeout=timeout)
        hung = sorted({r["b"] for r in recs if r.get("a") == "Hang"})
        if hung and len(hung) <= 10:
            again, _ = vlib.run_driver(exe, to_script([part[b] for b in hung]), timeout=timeout)
            recs = [r for r in recs if r.get("b") not in hung]
            for r in again:
                if isinstance(r.get("b"), int) and r["b"] < len(hung):
                    r["b"] = hung[r["b"]]
                    recs.append(r)
        for r in recs:
            if isinstance(r.get("b"), int):
                r["b"] += pos
            if r.get("a") == "Hang":
                hangs += 1
            out.append(r)
        pos += len(part)
        if hangs >= 3:
            break
        size = min(size * 10, 100000)
    return behs[:pos], out


def match(exp, obs, step=None, rec=None, prev=None):
    """equality with the design's prediction; an empty prediction of a value means 'not predicted'"""
    for k, v in exp.items():
        if k not in obs:
            return "missing observation %r" % k
        if v == "any":      # the statement does not decide this answer (a fault is still a mismatch)
            continue
        if k in ("d", "vals") and v == [] and exp.get("ret", "value") == "value":
            continue
        if obs[k] != v:
            return "%s: expected %s, observed %s" % (k, json.dumps(v)[:200], json.dumps(obs[k])[:200])
    return None


def unpredicted(beh):
    for st in beh:
        e = st.get("exp") or {}
        if (e.get("ret") == "value" and e.get("d") == []) or ("vals" in e and e["vals"] == []):
            return True
    return False


def drop_prefixes(behs):
    keys = [tuple(json.dumps([s["a"], s.get("arg")], sort_keys=True) for s in b) for b in behs]
    pref = set()
    for k in keys:
        for n in range(1, len(k)):
            pref.add(k[:n])
    seen = set()
    out = []
    for b, k in zip(behs, keys):
        if k in pref or k in seen:
            continue
        seen.add(k)
        out.append(b)
    return out


def src_of(beh):
    return beh[0].get("src") or {}


def signature(beh, i, rec, why):
    """source kind/constructor, call, what differs -- computed from the failing step"""
    s = src_of(beh)
    st = beh[i] if i < len(beh) else {"a": "?"}
    kind = "%s/%s" % (s.get("kind", "?"), s.get("via", (beh[0].get("arg") or {}).get("via", "?")))
    if why in FAULTS:
        return "%s:%s:%s" % (kind, st["a"], why.lower())
    obs = (rec or {}).get("obs") or {}
    exp = st.get("exp")
    what = "rejected"
    if exp:
        for k, v in exp.items():
            if (k in ("d", "vals") and v == []) or v == "any":
                continue
            if obs.get(k) != v:
                what = "%s=%s" % (k, obs.get(k) if k == "ret" else "differs")
                break
    else:
        what = "ret=%s" % obs.get("ret")
    # position class of the instance: before/at/after a clone or reset in this behaviour
    ctx = "+".join(sorted({x["a"] for x in beh[1:i] if x["a"] in ("clone", "reset")})) or "plain"
    return "%s:%s:%s:%s" % (kind, st["a"], what, ctx)


def events_of(behs, recs):
    ev = vlib.merge_trace(behs, recs)
    for e in ev:
        st = behs[e["b"]][e["i"]]
        if "src" in st:
            e["src"] = st["src"]
    return ev


def validate(ck, behs, recs, tag, what, max_rounds=8):
    """TLC decides whether the recorded runs are behaviours of the meaning; every rejected
    behaviour becomes a violation (by signature); returns number of matched events."""
    events = events_of(behs, recs)
    total = 0
    rounds = 0
    while events and rounds < max_rounds:
        rounds += 1
        ok, matched, tres = vlib.validate_trace("Trace_Iter", events, tag=tag, xss="1g")
        ck.cov["transitions"] += tres.generated
        if not ok:
            ok2, matched2, _ = vlib.validate_trace("Trace_Iter", events, tag=tag, xss="1g")
            if ok2 or matched2 != matched:
                raise vlib.MachineryError("trace validation not reproducible (%s)" % tag)
        total += matched
        if ok:
            break
        ev = events[matched]
        b = ev["b"]
        beh = behs[b]
        why = ev["a"] if ev["a"] in FAULTS else "rejected"
        sig = signature(beh, ev["i"], {"obs": ev.get("obs")}, why)
        ck.violation(sig, {"binding": what, "rejected_event": ev, "step": ev["i"], "behaviour": beh,
                           "records": [e for e in events if e["b"] == b][:60]})
        # all behaviours with the same signature root (kind, call) are dropped with it
        root = sig.rsplit(":", 2)[0]
        keep = []
        for e in events:
            if e["b"] == b:
                continue
            keep.append(e)
        events = keep
        ck.notes.setdefault("rejected_roots", []).append(root)
    return total


# --------------------------------------------------------------------------
# binding B inputs: parameters and call sequences only
# --------------------------------------------------------------------------
def rnum(rng, big=300, dens=(1, 1, 2, 4, 5, 10)):
    q = rng.choice(dens)
    return [rng.randrange(-big, big + 1), q]


def norm(x):
    from math import gcd
    g = gcd(abs(x[0]), x[1]) or 1
    return [x[0] // g, x[1] // g]


def rand_source(rng):
    k = rng.choice(["linear", "linear", "linear", "range", "factor", "boundary", "poly", "values", "text", "buffer", "args", "fill"])
    if k == "linear":
        via = rng.choice(["desc", "desc", "api", "profile"])
        n = rng.choice([1, 2, 3, 5, 7, 10, 16, 33, 40])
        a, b = norm(rnum(rng)), norm(rnum(rng))
        if via == "api":
            a[1] = b[1] = 1
        if rng.random() < 0.15:
            via = "iterarg"
        return {"kind": k, "via": via, "n": n, "a": a, "b": b, "style": rng.choice([0, 1])}
    if k == "range":
        from fractions import Fraction as F
        dec = rng.random() < 0.5                # decimal (inexact in binary) or dyadic parameters
        qs = (1, 2, 5, 10) if dec else (1, 2, 4)
        a = F(rng.randrange(-50, 51), rng.choice(qs))
        step = F(rng.randrange(1, 9), rng.choice(qs))
        cnt = rng.choice([rng.randrange(1, 12), rng.randrange(12, 60), rng.randrange(60, 320)])   # few .. a few hundred steps
        extra = step * F(rng.randrange(0, 2), 2)    # b = a + cnt * step (+ half a step)
        bb = a + cnt * step + extra
        if 1000 % bb.denominator or 1000 % a.denominator or 1000 % step.denominator:
            bb, extra = a + cnt * step, 0
        return {"kind": k, "via": rng.choice(["desc", "desc", "iterarg"]), "a": [a.numerator, a.denominator],
                "b": [bb.numerator, bb.denominator], "step": [step.numerator, step.denominator], "style": rng.choice([0, 1])}
    if k == "factor":
        form = rng.choice([1, 2, 3, 4, 5])
        n = rng.choice([0, 1, 2, 3, 5])
        base = norm([rng.randrange(1, 13), rng.choice([1, 2, 4])])
        fact = norm([rng.randrange(1, 13), rng.choice([1, 2, 4])])
        init = norm(rnum(rng, 20, (1, 2, 4)))
        if form == 1:
            base, fact, init = [10, 1], [10, 1], [0, 1]
        elif form == 2:
            fact, init = base, [0, 1]
        elif form == 3:
            init = [0, 1]
        elif form == 4:
            fact = base
        return {"kind": k, "via": "desc", "n": n, "base": base, "fact": fact, "init": init, "form": form}
    if k == "boundary":
        return {"kind": k, "via": rng.choice(["api", "profile"]), "len": rng.choice([2, 3, 4, 9, 30]),
                "l": norm(rnum(rng, 99, (1, 2, 4))), "m": norm(rnum(rng, 99, (1, 2, 4))), "r": norm(rnum(rng, 99, (1, 2, 4)))}
    if k == "poly":
        g = [norm(rnum(rng, 12, (1, 2, 4))) for _ in range(rng.choice([0, 1, 2, 5, 9]))]
        nc = rng.choice([1, 2, 3, 4])
        co = [norm(rnum(rng, 9, (1, 2, 10))) for _ in range(nc)]
        sh = [norm(rnum(rng, 5, (1, 2))) for _ in range(rng.randrange(0, nc))]
        return {"kind": k, "via": "profile" if g and rng.random() < 0.5 else "polyapi", "grid": g, "co": co, "sh": sh}
    if k == "fill":
        fk = rng.choice(["linear", "bound"])
        return {"kind": "fill", "via": "fill", "fk": fk, "len": rng.choice([0, 1, 1, 2, 3, 4, 7, 20]), "ld": rng.choice([1, 2, 3, 5]),
                "a": norm(rnum(rng, 99, (1, 2, 4))), "b": norm(rnum(rng, 99, (1, 2, 4))), "c": norm(rnum(rng, 99, (1, 2, 4)))}
    vals = [norm([rng.randrange(-10 ** rng.randrange(1, 7), 10 ** rng.randrange(1, 7)), rng.choice([1, 1, 2, 4, 8, 10, 100, 1000])])
            for _ in range(rng.choice([0, 1, 2, 3, 6, 15]) if k != "values" else rng.choice([1, 2, 3, 6, 15]))]
    if k == "values":
        return {"kind": k, "via": rng.choice(["values", "desc"]), "vals": vals}
    if k == "text":
        return {"kind": k, "via": "string", "vals": vals}
    src = {"kind": k, "via": k, "vals": vals}
    if rng.random() < 0.4:      # the used size ends inside the last segment
        nd = rng.randrange(2, 8)
        n = rng.randrange(10 ** (nd - 1), 10 ** nd)
        src["tail"] = [n, nd, rng.randrange(1, nd)]
    return src


NWS = 8     # number of white space texts of the specification (Iter!WS)


def rand_deco(rng, src):
    """decorate the description of a text-described source: indices into Iter!WS (leading, between, trailing, around ( : ))"""
    described = (src.get("via") in ("desc", "profile", "iterarg", "string", "values") or src.get("kind") == "poly")
    if not described or rng.random() < 0.5:
        return src
    if src.get("kind") in ("linear", "range") and src.get("via") == "desc" and src.get("style") == 1:
        src["style"] = 0
    src["deco"] = [rng.randrange(1, NWS + 1), rng.randrange(2, NWS + 1), rng.randrange(1, NWS + 1), rng.randrange(1, NWS + 1)]
    return src


def random_calls(rng, textlike, n, consumable=True):
    """a random interleaving on the source and its clones (calls only)"""
    calls = []
    ninst = 1
    seen = {1: False}
    for _ in range(n):
        i = rng.randrange(1, ninst + 1)
        op = rng.choice(["value", "value", "advance", "advance", "advance", "reset", "clone"] + (["consume", "consume"] if consumable else []))
        if op == "advance" and textlike and not seen[i]:
            op = "value"      # a text element is delimited by reading it
        if op == "clone" and ninst >= 4:
            op = "value"
        calls.append({"a": op, "arg": {"i": i}})
        if op == "value":
            seen[i] = True
        elif op in ("advance", "reset", "consume"):
            seen[i] = False
        elif op == "clone":
            ninst += 1
            seen[ninst] = False
    return calls


MUT = ["inf", "-inf", "nan", "1e999", "-1e-999", "1e308", "x", "", " ", "(", ")", ":", "::", ",", "0x10", "4294967296", "-1",
       "99999999999999999999", "1e", ".", "+", "lin", "fac(", "range(1 0)", "\t", "%s", "\\", "0 0", "1.5.2"]


def mutate(rng, text):
    k = rng.random()
    if k < 0.3 and text:
        p = rng.randrange(len(text))
        return text[:p] + text[p + 1:]
    if k < 0.6:
        p = rng.randrange(len(text) + 1)
        return text[:p] + rng.choice(MUT) + text[p:]
    if k < 0.8 and text:
        p = rng.randrange(len(text))
        q = rng.randrange(p, len(text) + 1)
        return text[:p] + rng.choice(MUT) + text[q:]
    if text:
        p = rng.randrange(len(text))
        return text[:p] + rng.choice("()[]:; ,x-+e.0919") + text[p + 1:]
    return rng.choice(MUT)


def unknown_behaviour(rng, carg):
    """mutated description: walk, reset, the same walk, clone of the reset source, the same walk"""
    arg = dict(carg)
    arg["desc"] = mutate(rng, arg.get("desc", ""))
    if rng.random() < 0.2:
        arg["desc"] = mutate(rng, arg["desc"])
    steps = rng.choice([3, 5, 9])
    walk = []
    for _ in range(steps):
        walk.append({"a": "value", "arg": {"i": 1}})
        walk.append({"a": "advance", "arg": {"i": 1}})
    walk2 = [{"a": w["a"], "arg": {"i": 2}} for w in walk]
    beh = [{"a": "create", "arg": arg, "src": {"kind": "unknown", "via": arg.get("via", "desc")}}]
    beh += walk + [{"a": "reset", "arg": {"i": 1}}] + walk + [{"a": "reset", "arg": {"i": 1}}, {"a": "clone", "arg": {"i": 1}}] + walk2
    return beh


def nontrivial_beh(recs):
    """at least two values were produced and an end was reported"""
    vals = sum(1 for r in recs if r.get("a") == "value" and (r.get("obs") or {}).get("ret") == "value")
    ends = any((r.get("obs") or {}).get("ret") in ("last", "end") for r in recs)
    return vals >= 2 and ends


def run(tier):
    cfg = CFG[tier]
    ck = vlib.Check(PID, tier)
    exe = build()

    # random parameter sets for binding B (rendered and scripted by TLC)
    srcs = [dict(rand_deco(ck.rng, rand_source(ck.rng)), explore=False) for _ in range(cfg["nsrc"])]
    spath = vlib.ensure(vlib.os.path.join(vlib.WORK, "traces")) + "/C19-sources-%d.ndjson" % vlib.os.getpid()
    with open(spath, "w") as f:
        for s in srcs:
            f.write(json.dumps(s) + "\n")

    results = {}

    def job(key, module, c, **kw):
        results[key] = vlib.tlc(module, c, tag="%s-%s" % (module, c), xss="512m", **kw)

    ths = [threading.Thread(target=job, args=("mc", "MC_Iter", cfg["mc"]), kwargs=dict(workers=max(2, vlib.NCPU // 2))),
           threading.Thread(target=job, args=("gen", "Gen_Iter", cfg["gen"]), kwargs=dict(workers=2)),
           threading.Thread(target=job, args=("genf", "Gen_Iter", "Gen_Iter_f.cfg"), kwargs=dict(workers=2, env={"SOURCES": spath}))]
    for t in ths:
        t.start()
    for t in ths:
        t.join()
    for key, r in results.items():      # TLC reports some evaluation errors with exit code 0
        if not r.violation and (vlib.re.search(r"^Error: ", r.out, vlib.re.M) or r.distinct == 0):
            raise vlib.MachineryError("TLC run %s failed:\n%s" % (key, "\n".join(l for l in r.out.splitlines() if not l.startswith('<<"BEHAV"'))[-3000:]))
    ck.add_tlc(results["mc"], "exhaustive " + cfg["mc"])
    for k in ("gen", "genf"):
        if results[k].error or results[k].violation:
            raise vlib.MachineryError("behaviour export %s failed: %s %s" % (k, results[k].error, results[k].violation))
    vlib.os.unlink(spath)
    vlib.log("TLC done: " + ", ".join("%s %.0fs" % (k, r.wall) for k, r in results.items()))

    # binding A: every transition of the model replayed
    behs = drop_prefixes(vlib.parse_behaviours(results["gen"].out))
    behs, recs = run_batched(exe, behs)
    mms = vlib.compare(behs, recs, match)
    by = vlib.group_records(recs)
    # descriptions the statement does not decide (separators only, blank value list): the recorded run is judged by the
    # trace specification (no fault; the same answers after reset and in a clone)
    und = [b for b, beh in enumerate(behs) if src_of(beh).get("kind") == "unknown"]
    deco = [b for b, beh in enumerate(behs) if "deco" in src_of(beh)]
    ck.notes["decorated_descriptions_replayed"] = len(deco)
    ck.notes["undecided_descriptions_replayed"] = len(und)
    if und:
        sub = [behs[b] for b in und]
        subrecs = [dict(r, b=j) for j, b in enumerate(und) for r in by.get(b, [])]
        ck.notes["undecided_events_validated"] = validate(ck, sub, subrecs, "Trace_Iter-U", "A(undecided)")
    nt = set()
    for b, beh in enumerate(behs):
        if nontrivial_beh(by.get(b, [])):
            nt.add(json.dumps([(s["a"], s.get("arg")) for s in beh], sort_keys=True))
    ck.cov["evaluations"] += len(behs)
    ck.notes["replayed_behaviours"] = len(behs)
    ck.notes["replay_differs_from_design"] = len(mms)
    # differences: the meaning decides (one representative per signature)
    if mms:
        reps = {}
        for mm in mms:
            reps.setdefault(signature(behs[mm["b"]], mm["i"], mm["rec"], mm["why"]), mm)
        sel = sorted({mm["b"] for mm in reps.values()})[:40]
        sub = [behs[b] for b in sel]
        subrecs = [dict(r, b=j) for j, b in enumerate(sel) for r in by.get(b, [])]
        before = len(ck.violations) + len(ck.known_hit)
        validate(ck, sub, subrecs, "Trace_Iter-A", "A(replay)", max_rounds=40)
        ck.notes["replay_differences_rejected_by_meaning"] = len(ck.violations) + len(ck.known_hit) - before
    # values the design does not predict exactly: the meaning decides all of them
    bad = {mm["b"] for mm in mms}
    unp = [b for b, beh in enumerate(behs) if unpredicted(beh) and b not in bad]
    if unp:
        sub = [behs[b] for b in unp]
        subrecs = [dict(r, b=j) for j, b in enumerate(unp) for r in by.get(b, [])]
        ck.notes["tolerance_checked_behaviours"] = len(unp)
        ck.notes["tolerance_checked_events"] = validate(ck, sub, subrecs, "Trace_Iter-T", "A(tolerance)")
    vlib.log("replayed %d behaviours, %d differ from the design, %d with unpredicted values" % (len(behs), len(mms), len(unp)))

    # binding B: seeded parameter sets (rendered by TLC), scripted and random calls, mutated descriptions
    fb = drop_prefixes(vlib.parse_behaviours(results["genf"].out))
    rng = ck.rng
    hist = []
    for beh in fb:
        hist.append(beh)
        if beh[0]["a"] == "create":
            s = src_of(beh)
            tail = random_calls(rng, s.get("kind") == "text", rng.choice([6, 12, 25]), s.get("kind") not in ("buffer", "args"))
            hist.append([{k: v for k, v in beh[0].items() if k != "exp"}] + tail)
    creates = [beh[0] for beh in fb if beh[0]["a"] == "create" and "desc" in beh[0]["arg"]]
    muts = [unknown_behaviour(rng, rng.choice(creates)["arg"]) for _ in range(cfg["nmut"])] if creates else []
    hist, recs_h = run_batched(exe, hist)
    muts, recs_m = run_batched(exe, muts)
    nev = validate(ck, hist, recs_h, "Trace_Iter-B", "B(trace)", max_rounds=20)   # one rejected behaviour per round: room for
    nev += validate(ck, muts, recs_m, "Trace_Iter-M", "B(mutated)", max_rounds=12)  # several defects at once
    byh = vlib.group_records(recs_h)
    for b, beh in enumerate(hist):
        if nontrivial_beh(byh.get(b, [])):
            nt.add(json.dumps([(s["a"], s.get("arg")) for s in beh], sort_keys=True))
    bym = vlib.group_records(recs_m)
    acc = sum(1 for b in range(len(muts)) if (bym.get(b) or [{}])[0].get("obs", {}).get("ret") == "ok")
    ck.notes["mutated_descriptions"] = len(muts)
    ck.notes["mutated_accepted_by_code"] = acc
    ck.cov["traces_validated_against_impl"] = len(hist) + len(muts)
    ck.cov["evaluations"] += len(hist) + len(muts)
    ck.notes["trace_events_matched"] = nev
    ck.cov["distinct_nontrivial"] = len(nt)
    ck.cov["exhaustive"] = True
    ck.cov["rule"] = ("A: one behaviour per maximal path of the TLC state graph of Iter (explore sources: every interleaving of "
                      "value/advance/reset/clone on up to MaxInst instances with positions, past-the-end count and 'read' flag as "
                      "state; walk sources: the scripted documented loop over the parameter table of IterSources), replayed into "
                      "the real code. B: seeded parameter sets rendered and scripted by TLC, each also with a random interleaving "
                      "of 6..25 calls on up to 4 instances, and mutated descriptions (self-consistency), all validated by TLC. "
                      "Non-trivial = at least two values were produced and an end was reported; distinct by call sequence.")
    ck.cov["samples"] = [vlib.sample_repr(b) for b in (behs[len(behs) // 3: len(behs) // 3 + 1] + hist[:1] + muts[:1])]
    ck.assumptions = ["TLC/SANY and the CommunityModules Json/IOUtils are correct",
                      "drv/iter.c maps return values to classes and logs doubles exactly, without judgement",
                      "tolerance 2^-48 times the magnitude of the operands is taken as 'within floating-point rounding'",
                      "the exhaustive model is bounded (counts 0..3, MaxInst instances); beyond it coverage is by the seeded runs"]
    # extension X19: file-backed and template sources, consumers, fills, value stores (checks/x19_values.py, docs/X19_values.md)
    import x19_values
    if x19_values.enabled():
        x19_values.run_part(ck, tier)
    # extension X28: tick generators and range helpers (checks/x28_ticks.py, docs/X28_ticks.md)
    import x28_ticks
    if x28_ticks.enabled():
        x28_ticks.run_part(ck, tier)
    return ck.finish()


def replay(path):
    d = json.load(open(path))
    det = d["detail"]
    if det.get("x19"):
        import x19_values
        return x19_values.replay(det, path)
    if det.get("x28"):
        import x28_ticks
        return x28_ticks.replay(det, path)
    beh = det.get("behaviour")
    if not beh:
        print(json.dumps(det, indent=1)[:4000])
        return 2
    exe = build()
    recs, _ = vlib.run_driver(exe, to_script([beh]))
    ck = vlib.Check(PID, "replay")
    ck.findings = []
    validate(ck, [beh], recs, "Trace_Iter-replay", det.get("binding", "replay"))
    for sig, p in ck.violations:
        print("VIOLATION property=%s replay=%s  (%s)" % (PID, path, sig))
    return 1 if ck.violations else 0
