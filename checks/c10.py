"""C10 -- configuration store behaves as a path-to-value map (spec/Config.tla)."""
import json
import os
import threading
import vlib
import c14 as common       # chunks(), callkey(): shared streaming helpers

# bulk replays: no symbolizer process per sanitizer report (failing behaviours are re-run with it)
FAST_ENV = {"ASAN_OPTIONS": vlib.ASAN_ENV + ":symbolize=0"}
PID = "C10"
MANIFEST = dict(
        spec="Config.tla (+MC_Config, Gen_Config, Trace_Config)",
        text="TLC checks exhaustively (names a, b and the empty name, paths up to depth 2, values x and the empty value, at "
             "most 3 elements in the store; the node-list design of the process-wide configuration and the item-array design "
             "of mpt++) that first-match search with creation of the missing elements implements a prefix-closed map from "
             "paths to values: a query answers the value last assigned to exactly that path, an assignment changes no other "
             "path, a removal takes the path and everything below it and nothing else; and that the path object "
             "(set/next/last/add/del on struct path) stands for exactly Split(string, separator).  Every transition of the "
             "model is replayed into three implementations (process-wide configuration, a sub-tree view of it, a private C++ "
             "config::root) -- after each call every path of the universe is queried -- and into the real struct path; seeded "
             "histories with element names of 0..300 bytes, several separators and values of 0..400 bytes recorded from the "
             "real code are validated by TLC against the same specification.",
        note="Trusted: TLC, drv/config.c and drv/config_cxx.cpp (projection only).  Values are observed as the text the "
             "store returns for type 's'.  Release of removed elements is not decided here (see C14).",
        technique="TLA+ spec + TLC exhaustive check; TLC-generated behaviours replayed into the C/C++ code; TLC trace validation of recorded runs",
        design="5/C10")

CFG = {
    "quick": dict(mc=["MC_Config.cfg", "MC_Config_items.cfg", "MC_Config_view.cfg", "MC_Config_p.cfg"],
                  gen=[("Gen_Config_global.cfg", "c"), ("Gen_Config_view.cfg", "c"), ("Gen_Config_cxx.cfg", "cxx"),
                       ("Gen_Config_p.cfg", "c")],
                  nhist=30, steps=60),
    "thorough": dict(mc=["MC_Config_t.cfg", "MC_Config_items_t.cfg", "MC_Config_view_t.cfg", "MC_Config_p_t.cfg"],
                     gen=[("Gen_Config_global_t.cfg", "c"), ("Gen_Config_view_t.cfg", "c"), ("Gen_Config_view2_t.cfg", "c"),
                          ("Gen_Config_cxx.cfg", "cxx"), ("Gen_Config_cxx_t.cfg", "cxx"), ("Gen_Config_p_t.cfg", "c")],
                     nhist=200, steps=120),
}


def build():
    # the plain (no sanitizer) builds let the allocator reuse released blocks, which ASan's quarantine prevents
    nodeseam = dict(defines=("malloc=vf_malloc", "free=vf_free", "calloc=vf_calloc", "realloc=vf_realloc"),
                    repo_sources=("mptcore/node/node_new.c", "mptcore/node/node_destroy.c"), extra_flags=("-rdynamic",))
    return {"cp": vlib.build_driver("config_plain", ["config.c"], san=False, **nodeseam),
            "cxxp": vlib.build_driver("config_cxx_plain", ["config_cxx.cpp"], libs=("mptcore", "mpt++"), cxx=True, san=False),
            "c": vlib.build_driver("config", ["config.c"], **nodeseam),
            "cxx": vlib.build_driver("config_cxx", ["config_cxx.cpp"], libs=("mptcore", "mpt++"), cxx=True)}


def hexs(b):
    """byte list -> item of a ';' list ("-" empty, "00" = no path)"""
    if b == [0]:
        return "00"
    return "".join("%02x" % x for x in b) or "-"


def fmt_step(st, quiet):
    toks = [st["a"]]
    for k, v in (st.get("arg") or {}).items():
        if k in ("uni", "rel"):
            toks.append("%s=%s" % (k, ";".join(hexs(x) for x in v) or "none"))
        else:
            toks.append("%s=%s" % (k, vlib.fmt_val(v)))
    if quiet:
        toks.append("q=1")
    return " ".join(toks)


def script(behs, quiet_prefix=True):
    lines = []
    for i, beh in enumerate(behs):
        lines.append("B %d" % i)
        for j, st in enumerate(beh):
            lines.append(fmt_step(st, quiet_prefix and j < len(beh) - 1))
    return "\n".join(lines) + "\n"


STORE_KEYS = ("all", "rel")
# the typed entry points (mpt_config_getp / mpt_config_get / config::get with target type and destination) must
# answer every path like the plain query: same expected list (TLC's exp.all / exp.rel)
TYPED_KEYS = (("typed", "all"), ("tget", "all"), ("relt", "rel"), ("reltget", "rel"))
PATH_ACTIONS = ("pset", "pnext", "plast", "pdel", "paddelem")


def match(exp, obs, step, rec, prev):
    """Verdict projection: the answers of every path of the universe (from the root and through the view) and the
    answer of the call; for the path object the elements it stands for and the answered length."""
    if not exp:
        return None
    keys = ("els",) if step["a"] in PATH_ACTIONS else STORE_KEYS
    for k in keys:
        if k not in obs:
            return "%s: missing" % k
        if obs[k] != exp[k]:
            if k in STORE_KEYS:
                diff = [i for i, (x, y) in enumerate(zip(exp[k], obs[k])) if x != y]
                return "%s: paths %s: expected %s, observed %s" % (k, diff[:6], json.dumps([exp[k][i] for i in diff[:6]]),
                                                                   json.dumps([obs[k][i] for i in diff[:6]]))
            return "%s: expected %s, observed %s" % (k, json.dumps(exp[k]), json.dumps(obs[k]))
    if step["a"] not in PATH_ACTIONS:
        for k, ek in TYPED_KEYS:
            if k in obs and obs[k] != exp[ek]:
                diff = [i for i, (x, y) in enumerate(zip(exp[ek], obs[k])) if x != y]
                return "%s: paths %s: expected %s, typed query answered %s ([-1] error, [-2] success without writing " \
                       "the destination)" % (k, diff[:6], json.dumps([exp[ek][i] for i in diff[:6]]),
                                             json.dumps([obs[k][i] for i in diff[:6]]))
    if "nodes" in obs and "nodes" in exp and obs["nodes"] != exp["nodes"]:
        return "nodes: %d elements in the store, %d node blocks allocated" % (exp["nodes"], obs["nodes"])
    if not exp.get("anyret") and obs.get("ret") != exp.get("ret"):
        return "ret: expected %s, observed %s" % (json.dumps(exp.get("ret")), json.dumps(obs.get("ret")))
    return None


def arg_class(st):
    """discriminating condition of a failing step, computed from its arguments"""
    arg = st.get("arg") or {}
    cl = []
    if "via" in arg:
        cl.append(arg["via"])
    if "val" in arg:
        n = len(arg["val"])
        cl.append("value_len>=250" if n >= 250 else "value_len=0" if n == 0 else "value_len<250")
    if arg.get("end"):
        cl.append("end")
    if "path" in arg and "sep" in arg:
        body = arg["path"][:arg["path"].index(arg["end"])] if arg.get("end") and arg["end"] in arg["path"] else arg["path"]
        els = "".join(chr(x) for x in body).split(chr(arg["sep"]))
        m = max(len(e) for e in els)
        cl.append("elem_len>255" if m > 255 else "elem_len=0" if min(len(e) for e in els) == 0 else "elem")
    if "asg" in arg:
        cl.append("asg=0" if arg["asg"] == 0 else "asg_in_str" if arg["asg"] in arg.get("str", []) else "asg_not_in_str")
    if "elem" in arg:
        n = len(arg["elem"])
        cl.append("elem_len>255" if n > 255 else "elem_len=0" if n == 0 else "elem")
    return ",".join(cl) or "-"


def signature(mm, impl):
    st = mm["step"]
    why = mm["why"]
    if why in ("Crash", "Hang"):
        return "%s:%s:%s:%s" % (impl, st["a"], why.lower(), arg_class(st))
    return "%s:%s:%s:%s" % (impl, st["a"], why.split(":")[0], arg_class(st))


def nontrivial_a(beh):
    """store: at least two assignments to different paths and a removal or overwrite among the calls;
    path object: the object was changed at least twice after being set"""
    acts = [s["a"] for s in beh]
    if beh[-1]["a"] in PATH_ACTIONS:
        return len([a for a in acts if a in ("pnext", "plast", "pdel", "paddelem")]) >= 2
    paths = [(s["arg"].get("via"), tuple(s["arg"]["path"])) for s in beh if s["a"] == "assign"]
    return len(set(paths)) >= 2 and (len(paths) > len(set(paths)) or any(a in ("remove", "clearbelow", "clearall") for a in acts))


def export(gencfg, out):
    """TLC writes one behaviour per transition to a file (runs beside the replays of earlier exports)"""
    wdir = vlib.ensure(os.path.join(vlib.WORK, PID))
    tag = gencfg.replace(".cfg", "")
    path = os.path.join(wdir, "behav-%s-%d.txt" % (tag, os.getpid()))
    if os.path.exists(path):
        os.unlink(path)
    try:
        out[gencfg] = (path, vlib.tlc("Gen_Config", gencfg, workers=3, extra=("-userFile", path), tag="Gen_Config-" + tag))
    except Exception as e:          # reported by the main thread
        out[gencfg] = (path, e)


def binding_a(ck, exes, gencfg, impl, nt, samples, path, gen):
    tag = gencfg.replace(".cfg", "")
    if isinstance(gen, Exception):
        raise vlib.MachineryError("behaviour export failed: %s" % gen)
    if gen.error or gen.violation:
        raise vlib.MachineryError("behaviour export failed: %s %s" % (gen.error, gen.violation))
    exe = exes[impl]
    label = tag.replace("Gen_Config_", "").replace("_t", "")
    total = nmm = 0
    failed = {}
    crashes = 0
    cut = False
    for ch in common.chunks(path, 10000):
        behs = vlib.parse_behaviours("".join(ch))
        recs, _ = vlib.run_driver(exe, script(behs), env=FAST_ENV, timeout=900)
        for mm in vlib.compare(behs, recs, match):
            failed[common.callkey(behs[mm["b"]])] = behs[mm["b"]]
            nmm += 1
            crashes += mm["why"] in ("Crash", "Hang")
        if crashes > 300:       # a tree that crashes this often is reported from what was seen so far
            total += len(behs)
            cut = True
            break
        for beh in behs:
            if nontrivial_a(beh):
                nt.add(label + common.callkey(beh))
        if len(samples) < 4:
            samples.append({"impl": label, "behaviour": vlib.sample_repr(behs[len(behs) // 2])})
        total += len(behs)
    os.unlink(path)
    rootb = []
    for key, beh in sorted(failed.items(), key=lambda kv: len(kv[1])):
        calls = json.loads(key)
        if any(json.dumps(calls[:k]) in failed for k in range(1, len(calls))):
            continue
        rootb.append(beh)
    roots = 0
    persig = {}
    if rootb:      # once more, fully logged, before reporting
        recs, _ = vlib.run_driver(exe, script(rootb, quiet_prefix=False))
        for mm in vlib.compare(rootb, recs, match):
            roots += 1
            sig = signature(mm, label)
            persig[sig] = persig.get(sig, 0) + 1
            if persig[sig] <= 3:
                ck.violation(sig, {"binding": "A(replay)", "impl": impl, "behaviour": rootb[mm["b"]], "step": mm["i"],
                                   "why": mm["why"], "record": mm["rec"]})
    # (transitions into states beyond the bound are generated but not exported)
    if not cut and not (gen.distinct - 1 <= total <= gen.generated - 1):
        raise vlib.MachineryError("behaviour export incomplete: %d lines for %d transitions" % (total, gen.generated - 1))
    ck.cov["evaluations"] += total
    ck.notes.setdefault("replay", []).append({"cfg": gencfg, "impl": label, "behaviours": total, "mismatches": nmm,
                                              "mismatches_without_failed_prefix": roots, "signatures": persig, "cut_after_crashes": cut,
                                              "tlc_wall_s": round(gen.wall, 1)})


# ---------------------------------------------------------------------------
# binding B: histories at production-like sizes, recorded and validated by TLC
ELEMLENS = [0, 0, 1, 1, 2, 3, 7, 19, 20, 21, 60, 200, 254, 255, 256, 257, 300]
VALLENS = [0, 0, 1, 2, 5, 40, 100, 200, 248, 249]
LONGVALS = [250, 251, 254, 255, 256, 300, 400]
BASE = [[118], [119, 119]]           # "v", "ww": Base of Trace_Config_view.cfg


def bjoin(elems, sep):
    out = []
    for i, e in enumerate(elems):
        if i:
            out.append(sep)
        out += e
    return out


def mkname(rng, ln, sep):
    """name of ln bytes without the separator (other separator characters may occur); long names share a prefix"""
    chars = [c for c in (97, 98, 99, 46, 47, 58, 61, 0x20, 0xc3) if c != sep]
    if ln <= 3:
        return [rng.choice(chars) for _ in range(ln)]
    return [97] * (ln - 1) + [rng.choice([97, 98])]


def mkval(rng, ln):
    return [rng.choice([120, 121, 0x20, 0x3d, 0xe4, 1, 255]) for _ in range(ln)]


def gen_store_history(rng, mode, steps, longvals):
    sep = rng.choice([46, 46, 47, 58])
    names = [mkname(rng, rng.choice(ELEMLENS), sep) for _ in range(4)] + [[97], []]
    view = mode == "view"
    paths = []
    for _ in range(9):
        d = rng.choice([1, 1, 2, 2, 3, 4])
        p = [rng.choice(names) for _ in range(d)]
        paths.append(p)
        if rng.random() < 0.5:
            paths.append(p[:rng.randrange(1, d + 1)])           # a prefix of another path
    if view:
        paths += [BASE, BASE[:1], BASE + [rng.choice(names)], BASE + [[97]], BASE + [[97], rng.choice(names)]]
    rels = [p for p in paths if p[:len(BASE)] != BASE][:8] if view else []
    uni = [bjoin(p, sep) for p in paths]
    rel = [[0]] + [bjoin(p, sep) for p in rels]
    hist = [{"a": "init", "arg": {"base": bjoin(BASE, sep) if view else [0], "sep": sep, "uni": uni,
                                  "rel": rel if view else []}}]
    lens = VALLENS + (LONGVALS if longvals else [])
    for _ in range(steps):
        via = "view" if view and rng.random() < 0.5 else "top"
        pool = rels if via == "view" else paths
        p = bjoin(rng.choice(pool), sep)
        r = rng.random()
        if r < 0.55:
            end = 0
            if mode != "cxx" and 61 not in p and rng.random() < 0.25:       # "path=trailing text", end character '='
                end = 61
                p = p + [61] + mkval(rng, rng.choice([0, 1, 3]))
            hist.append({"a": "assign", "arg": {"via": via, "path": p, "sep": sep, "end": end,
                                                "val": mkval(rng, rng.choice(lens))}})
        elif r < 0.78:
            hist.append({"a": "remove", "arg": {"via": via, "path": p, "sep": sep}})
        elif r < 0.9:
            hist.append({"a": "query", "arg": {"via": via, "path": p, "sep": sep}})
        elif r < 0.93:
            hist.append({"a": "clearall", "arg": {"x": 0}})
        elif view and r < 0.97:
            hist.append({"a": "assignself", "arg": {"val": mkval(rng, rng.choice(lens))}})
        elif view:
            hist.append({"a": "clearbelow", "arg": {"x": 0}})
        else:
            hist.append({"a": "query", "arg": {"via": via, "path": p, "sep": sep}})
    return hist


def gen_path_history(rng, steps):
    sep = rng.choice([46, 47, 58])
    hist = [{"a": "init", "arg": {"base": [0], "sep": sep, "uni": [], "rel": []}}]

    def elem():
        return mkname(rng, rng.choice(ELEMLENS), sep)
    for _ in range(steps):
        r = rng.random()
        if r < 0.25:
            asg = rng.choice([0, 0, 61])
            s = bjoin([elem() for _ in range(rng.choice([1, 2, 3, 5]))], sep)
            if asg and rng.random() < 0.6:
                s = s + [61] + mkval(rng, 3)
            if asg:
                s = [c if c != 61 or i >= len(s) - 4 else 99 for i, c in enumerate(s)]
            hist.append({"a": "pset", "arg": {"str": [c for c in s if c != 0], "sep": sep, "asg": asg}})
        elif r < 0.45:
            hist.append({"a": "pnext", "arg": {"x": 0}})
        elif r < 0.55:
            hist.append({"a": "plast", "arg": {"x": 0}})
        elif r < 0.7:
            hist.append({"a": "pdel", "arg": {"x": 0}})
        else:
            hist.append({"a": "paddelem", "arg": {"elem": [c for c in elem() if c not in (0, 61)]}})
    return hist


def long_values_work(exes, label):
    """probe for the known finding value_len>=250: only where it still reproduces do the histories avoid long values"""
    view = label == "view"
    beh = [{"a": "init", "arg": {"base": bjoin(BASE, 46) if view else [0], "sep": 46, "uni": [bjoin(BASE + [[97]], 46) if view else [97]],
                                 "rel": [[0], [97]] if view else []}},
           {"a": "assign", "arg": {"via": "view" if view else "top", "path": [97], "sep": 46, "end": 0, "val": [120] * 300}}]
    recs, _ = vlib.run_driver(exes["cxx" if label == "cxx" else "c"], script([beh], quiet_prefix=False))
    return len(recs) == 2 and (recs[1].get("obs") or {}).get("all") == [[120] * 300], beh


def trace_signature(ev, label, call=None):
    if ev is None:
        return "trace:%s:short" % label
    if ev["a"] in ("Crash", "Hang", "Garbled", "Missing"):
        return "trace:%s:%s:%s:%s" % (label, call["a"] if call else "?", ev["a"].lower(), arg_class(call) if call else "-")
    return "trace:%s:%s:rejected:%s" % (label, ev["a"], arg_class(ev))


def nontrivial_b(hist):
    acts = [s["a"] for s in hist]
    if "pset" in acts:
        return any(len(s["arg"].get("str", [])) > 255 for s in hist if s["a"] == "pset") and \
            len([a for a in acts if a in ("pnext", "plast", "pdel", "paddelem")]) >= 5
    paths = [tuple(s["arg"]["path"]) for s in hist if s["a"] == "assign"]
    return len(paths) > len(set(paths)) >= 3 and "remove" in acts


def binding_b(ck, exes, n, steps, nt):
    rng = ck.rng
    groups = {"global": ("c", "Trace_Config.cfg", []), "view": ("c", "Trace_Config_view.cfg", []),
              "cxx": ("cxx", "Trace_Config_items.cfg", [])}
    ok_long = {}
    for label in list(groups):
        ok_long[label], probe = long_values_work(exes, label)
        if not ok_long[label]:
            ck.violation(trace_signature(probe[1], label),
                         {"binding": "B(probe)", "impl": groups[label][0], "trace_cfg": groups[label][1], "behaviour": probe,
                          "why": "a 300 byte value is not stored"})
    for i in range(n):
        mode = ("global", "view", "cxx")[i % 3]
        groups[mode][2].append(gen_store_history(rng, mode, steps, ok_long[mode]))
    for i in range(max(3, n // 3)):
        groups["global"][2].append(gen_path_history(rng, steps))
    # the same histories once more on the builds without sanitizer
    groups["cxx-plain"] = ("cxxp", "Trace_Config_items.cfg",
                           groups["cxx"][2] + [gen_store_history(rng, "cxx", 150, True) for _ in range(max(12, n // 6))])
    groups["global-plain"] = ("cp", "Trace_Config.cfg", groups["global"][2])
    total = okn = 0
    info = {}
    first = {}

    def validate(label):
        impl, tcfg, hists = groups[label]
        try:
            recs, _ = vlib.run_driver(exes[impl], script(hists, quiet_prefix=False))
            events = vlib.merge_trace(hists, recs)
            first[label] = (events,) + vlib.validate_trace("Trace_Config", events, cfg=tcfg, tag="Trace_Config-" + label, xss="1g")
        except Exception as e:
            first[label] = e
    vths = [threading.Thread(target=validate, args=(label,)) for label in groups]
    for t in vths:
        t.start()
    for t in vths:
        t.join()
    for label, (impl, tcfg, hists) in groups.items():
        if isinstance(first[label], Exception):
            raise vlib.MachineryError("trace validation %s: %s" % (label, first[label]))
        events, ok, matched, tres = first[label]
        ck.cov["transitions"] += tres.generated
        if not ok:
            ok2, matched2, _ = vlib.validate_trace("Trace_Config", events, cfg=tcfg, tag="Trace_Config-" + label, xss="1g")
            if not ok2 and matched2 == matched:
                ev = events[matched] if matched < len(events) else None
                beh = hists[ev["b"]][:ev["i"] + 1] if ev else None
                ck.violation(trace_signature(ev, label, beh[-1] if beh else None),
                             {"binding": "B(trace validation)", "impl": impl, "trace_cfg": tcfg, "matched_prefix": matched,
                              "rejected_event": ev, "behaviour": beh, "tlc_tail": tres.out[-1500:]})
            else:
                ok = ok2
        for h in hists:
            if nontrivial_b(h):
                nt.add(label + common.callkey(h))
        diag = {"present": 0, "as_s": 0, "headprev": 0}
        for e in events:
            for k in diag:
                diag[k] += (e.get("dbg") or {}).get(k, 0)
        total += len(hists)
        okn += len(hists) if ok else 0
        info[label] = {"histories": len(hists), "events": len(events), "events_matched": matched,
                       "tlc_wall_s": round(tres.wall, 1),
                       "diagnostics_not_judged": {"values_seen": diag["present"], "of_them_answered_as_type_s": diag["as_s"],
                                                  "events_with_stale_prev_on_first_top_node": diag["headprev"]}}
    ck.cov["traces_validated_against_impl"] = okn
    ck.cov["evaluations"] += total
    ck.notes["trace"] = info
    ck.notes["long_values_exercised"] = ok_long
    return groups["view"][2][0][:8]


def run(tier):
    cfg = CFG[tier]
    ck = vlib.Check(PID, tier)
    exes = build()
    mcres = []

    # 1. the slot design (Tier 2) implements the map (Tier 1); the struct path stands for Split; beside the replay
    def model_check():
        for mc in cfg["mc"]:
            mcres.append((mc, vlib.tlc("MC_Config", mc, tag="MC_Config-" + mc, deque=True, workers=max(2, vlib.NCPU // 2))))
    th = threading.Thread(target=model_check)
    th.start()

    # 2. binding A: every transition replayed into the three stores and the path object
    nt = set()
    samples = []
    exports = {}
    gths = [threading.Thread(target=export, args=(g, exports)) for g, _ in cfg["gen"]]
    for t in gths:
        t.start()
    try:
        for (g, impl), t in zip(cfg["gen"], gths):
            t.join()
            binding_a(ck, exes, g, impl, nt, samples, *exports[g])
    finally:
        for t in gths:
            t.join()
        th.join()
    if len(mcres) != len(cfg["mc"]):
        raise vlib.MachineryError("model checking run did not finish")
    for mc, res in mcres:
        ck.add_tlc(res, "exhaustive " + mc)

    # 3. binding B: recorded histories validated by TLC
    sample_b = binding_b(ck, exes, cfg["nhist"], cfg["steps"], nt)
    ck.cov["distinct_nontrivial"] = len(nt)
    ck.cov["exhaustive"] = True
    ck.cov["samples"] = samples + [{"impl": "view (recorded history)", "calls": sample_b}]
    ck.cov["rule"] = ("A: one behaviour per transition of the TLC state graph of Config (store: names a, b, empty [+ab], "
                      "depth 2 [3 below the view], at most 3 [4] elements, every assign/remove/query of every path of the "
                      "universe; path object: every string over {a . =} of length <= 3 [4] with end character 0 or '=', "
                      "then next/last/del/add), replayed into the process-wide configuration, a sub-tree view, mpt++ "
                      "config::root and struct path, all paths of the universe queried after every call; B: seeded "
                      "histories (names of 0..300 bytes, separators . / :, values of 0..400 bytes, shared prefixes, "
                      "prefix paths, repeated and empty elements) recorded from the real code and validated by TLC.  "
                      "Non-trivial (A store) = at least two assignments to different paths and an overwrite or removal; "
                      "(A path) = the object was changed at least twice; (B store) = an overwrite among >= 3 assigned "
                      "paths and a removal; (B path) = a string longer than 255 bytes was set and >= 5 element operations "
                      "followed; distinct by implementation and call sequence.")
    ck.assumptions = ["TLC/SANY and the CommunityModules Json/IOUtils are correct",
                      "drv/config.c, drv/config_cxx.cpp project without judgement (set/get calls, copy of the returned text)",
                      "config_global.c is compiled into the C driver unchanged so that each behaviour starts from an empty "
                      "process-wide configuration (nodeGlobal reset by the driver)",
                      "values are observed as text ('s' conversion); names and values contain no NUL byte (C strings)",
                      "the exhaustive model is bounded (see MC cfg); beyond it coverage is by the seeded histories"]
    # extension X10: values arriving through files, environment, arguments, messages (checks/x10_load.py, docs/X10_load.md)
    import x10_load
    if x10_load.enabled():
        x10_load.run_part(ck, tier)
    # extension X22: the second keyed store, the source -> destination binding table (checks/x22_mapping.py, docs/X22_mapping.md)
    import x22_mapping
    if x22_mapping.enabled():
        x22_mapping.run_part(ck, tier)
    # extension X27: the process start-up door, mpt_init / mpt_client_config (checks/x27_init.py, docs/X27_init.md)
    import x27_init
    if x27_init.enabled():
        x27_init.run_part(ck, tier)
    return ck.finish()


def replay(path):
    d = json.load(open(path))
    det = d["detail"]
    if det.get("part") == "x10":
        import x10_load
        return x10_load.replay(det, path)
    if det.get("part") == "x22":
        import x22_mapping
        return x22_mapping.replay(det, path)
    if det.get("part") == "x27":
        import x27_init
        return x27_init.replay(det, path)
    beh = det.get("behaviour")
    if not beh:
        print(json.dumps(det, indent=1)[:4000])
        return 2
    exes = build()
    impl = det.get("impl", "c")
    recs, err = vlib.run_driver(exes[impl], script([beh], quiet_prefix=False))
    if not any("exp" in st for st in beh):
        events = vlib.merge_trace([beh], recs)
        ok, matched, _ = vlib.validate_trace("Trace_Config", events, cfg=det.get("trace_cfg", "Trace_Config.cfg"),
                                             tag="Trace_Config-replay", xss="1g")
        if not ok:
            print("VIOLATION property=%s replay=%s  (trace rejected at event %d: %s)" %
                  (PID, path, matched, json.dumps(events[matched])[:600] if matched < len(events) else "-"))
        return 0 if ok else 1
    mms = vlib.compare([beh], recs, match)
    for mm in mms:
        print("VIOLATION property=%s replay=%s  (%s: %s)" % (PID, path, signature(mm, impl), mm["why"]))
    return 1 if mms else 0
