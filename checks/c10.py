"""C10 -- configuration store behaves as a path-to-value map (spec/Config.tla)."""
import json
import os
import threading
import vlib
import c14 as common       # chunks(), callkey(): shared streaming helpers

PID = "C10"
MANIFEST = dict(
        spec="Config.tla (+MC_Config, Gen_Config, Trace_Config)",
        text="TLC checks exhaustively (names a, b and the empty name, paths up to depth 2, values x and the empty value, at "
             "most 3 elements in the store; the node-list design of the process-wide configuration and the item-array design "
             "of mpt++) that first-match search with creation of the missing elements implements a prefix-closed map from "
             "paths to values: a query answers the value last assigned to exactly that path, an assignment changes no other "
             "path, a removal takes the path and everything below it and nothing else; and that the path object "
             "(set/next/last/add/del on struct path) stands for exactly Split(string, separator).  Every transition of the "
             "model is replayed into three implementations (process-wide configuration, a sub-tree view of it, a private C++ "
             "config::root) -- after each call every path of the universe is queried -- and into the real struct path; seeded "
             "histories with element names of 0..300 bytes, several separators and values of 0..400 bytes recorded from the "
             "real code are validated by TLC against the same specification.",
        note="Trusted: TLC, drv/config.c and drv/config_cxx.cpp (projection only).  Values are observed as the text the "
             "store returns for type 's'.  Release of removed elements is not decided here (see C14).",
        technique="TLA+ spec + TLC exhaustive check; TLC-generated behaviours replayed into the C/C++ code; TLC trace validation of recorded runs",
        design="5/C10")

CFG = {
    "quick": dict(mc=["MC_Config.cfg", "MC_Config_items.cfg", "MC_Config_view.cfg", "MC_Config_p.cfg"],
                  gen=[("Gen_Config_global.cfg", "c"), ("Gen_Config_view.cfg", "c"), ("Gen_Config_cxx.cfg", "cxx"),
                       ("Gen_Config_p.cfg", "c")],
                  nhist=30, steps=60),
    "thorough": dict(mc=["MC_Config_t.cfg", "MC_Config_items_t.cfg", "MC_Config_view_t.cfg", "MC_Config_p_t.cfg"],
                     gen=[("Gen_Config_global_t.cfg", "c"), ("Gen_Config_view_t.cfg", "c"), ("Gen_Config_view2_t.cfg", "c"),
                          ("Gen_Config_cxx_t.cfg", "cxx"), ("Gen_Config_p_t.cfg", "c")],
                     nhist=200, steps=120),
}


def build():
    return {"c": vlib.build_driver("config", ["config.c"], extra_flags=("-rdynamic",)),
            "cxx": vlib.build_driver("config_cxx", ["config_cxx.cpp"], libs=("mptcore", "mpt++"), cxx=True)}


def hexs(b):
    """byte list -> item of a ';' list ("-" empty, "00" = no path)"""
    if b == [0]:
        return "00"
    return "".join("%02x" % x for x in b) or "-"


def fmt_step(st, quiet):
    toks = [st["a"]]
    for k, v in (st.get("arg") or {}).items():
        if k in ("uni", "rel"):
            toks.append("%s=%s" % (k, ";".join(hexs(x) for x in v) or "none"))
        else:
            toks.append("%s=%s" % (k, vlib.fmt_val(v)))
    if quiet:
        toks.append("q=1")
    return " ".join(toks)


def script(behs, quiet_prefix=True):
    lines = []
    for i, beh in enumerate(behs):
        lines.append("B %d" % i)
        for j, st in enumerate(beh):
            lines.append(fmt_step(st, quiet_prefix and j < len(beh) - 1))
    return "\n".join(lines) + "\n"


STORE_KEYS = ("all", "rel")
PATH_ACTIONS = ("pset", "pnext", "plast", "pdel", "paddelem")


def match(exp, obs, step, rec, prev):
    """Verdict projection: the answers of every path of the universe (from the root and through the view) and the
    answer of the call; for the path object the elements it stands for and the answered length."""
    if not exp:
        return None
    keys = ("els",) if step["a"] in PATH_ACTIONS else STORE_KEYS
    for k in keys:
        if k not in obs:
            return "%s: missing" % k
        if obs[k] != exp[k]:
            if k in STORE_KEYS:
                diff = [i for i, (x, y) in enumerate(zip(exp[k], obs[k])) if x != y]
                return "%s: paths %s: expected %s, observed %s" % (k, diff[:6], json.dumps([exp[k][i] for i in diff[:6]]),
                                                                   json.dumps([obs[k][i] for i in diff[:6]]))
            return "%s: expected %s, observed %s" % (k, json.dumps(exp[k]), json.dumps(obs[k]))
    if exp.get("ret") != "any" and obs.get("ret") != exp.get("ret"):
        return "ret: expected %s, observed %s" % (json.dumps(exp.get("ret")), json.dumps(obs.get("ret")))
    return None


def arg_class(st):
    """discriminating condition of a failing step, computed from its arguments"""
    arg = st.get("arg") or {}
    cl = []
    if "via" in arg:
        cl.append(arg["via"])
    if "val" in arg:
        n = len(arg["val"])
        cl.append("value_len>=250" if n >= 250 else "value_len=0" if n == 0 else "value_len<250")
    if "path" in arg and "sep" in arg:
        els = "".join(chr(x) for x in arg["path"]).split(chr(arg["sep"]))
        m = max(len(e) for e in els)
        cl.append("elem_len>255" if m > 255 else "elem_len=0" if min(len(e) for e in els) == 0 else "elem")
    if "asg" in arg:
        cl.append("asg=0" if arg["asg"] == 0 else "asg_in_str" if arg["asg"] in arg.get("str", []) else "asg_not_in_str")
    if "elem" in arg:
        n = len(arg["elem"])
        cl.append("elem_len>255" if n > 255 else "elem_len=0" if n == 0 else "elem")
    return ",".join(cl) or "-"


def signature(mm, impl):
    st = mm["step"]
    why = mm["why"]
    if why in ("Crash", "Hang"):
        return "%s:%s:%s:%s" % (impl, st["a"], why.lower(), arg_class(st))
    return "%s:%s:%s:%s" % (impl, st["a"], why.split(":")[0], arg_class(st))


def nontrivial_a(beh):
    """store: at least two assignments to different paths and a removal or overwrite among the calls;
    path object: the object was changed at least twice after being set"""
    acts = [s["a"] for s in beh]
    if beh[-1]["a"] in PATH_ACTIONS:
        return len([a for a in acts if a in ("pnext", "plast", "pdel", "paddelem")]) >= 2
    paths = [(s["arg"].get("via"), tuple(s["arg"]["path"])) for s in beh if s["a"] == "assign"]
    return len(set(paths)) >= 2 and (len(paths) > len(set(paths)) or any(a in ("remove", "clearbelow", "clearall") for a in acts))


def binding_a(ck, exes, gencfg, impl, nt, samples):
    wdir = vlib.ensure(os.path.join(vlib.WORK, PID))
    tag = gencfg.replace(".cfg", "")
    path = os.path.join(wdir, "behav-%s-%d.txt" % (tag, os.getpid()))
    if os.path.exists(path):
        os.unlink(path)
    gen = vlib.tlc("Gen_Config", gencfg, workers=4, extra=("-userFile", path), tag="Gen_Config-" + tag)
    if gen.error or gen.violation:
        raise vlib.MachineryError("behaviour export failed: %s %s" % (gen.error, gen.violation))
    exe = exes[impl]
    label = tag.replace("Gen_Config_", "").replace("_t", "")
    total = nmm = 0
    failed = {}
    for ch in common.chunks(path, 20000):
        behs = vlib.parse_behaviours("".join(ch))
        recs, _ = vlib.run_driver(exe, script(behs))
        for mm in vlib.compare(behs, recs, match):
            failed[common.callkey(behs[mm["b"]])] = behs[mm["b"]]
            nmm += 1
        for beh in behs:
            if nontrivial_a(beh):
                nt.add(label + common.callkey(beh))
        if len(samples) < 4:
            samples.append({"impl": label, "behaviour": vlib.sample_repr(behs[len(behs) // 2])})
        total += len(behs)
    os.unlink(path)
    rootb = []
    for key, beh in sorted(failed.items(), key=lambda kv: len(kv[1])):
        calls = json.loads(key)
        if any(json.dumps(calls[:k]) in failed for k in range(1, len(calls))):
            continue
        rootb.append(beh)
    roots = 0
    persig = {}
    if rootb:      # once more, fully logged, before reporting
        recs, _ = vlib.run_driver(exe, script(rootb, quiet_prefix=False))
        for mm in vlib.compare(rootb, recs, match):
            roots += 1
            sig = signature(mm, label)
            persig[sig] = persig.get(sig, 0) + 1
            if persig[sig] <= 3:
                ck.violation(sig, {"binding": "A(replay)", "impl": impl, "behaviour": rootb[mm["b"]], "step": mm["i"],
                                   "why": mm["why"], "record": mm["rec"]})
    if total != gen.generated - 1:
        raise vlib.MachineryError("behaviour export incomplete: %d lines for %d transitions" % (total, gen.generated - 1))
    ck.cov["evaluations"] += total
    ck.notes.setdefault("replay", []).append({"cfg": gencfg, "impl": label, "behaviours": total, "mismatches": nmm,
                                              "mismatches_without_failed_prefix": roots, "signatures": persig,
                                              "tlc_wall_s": round(gen.wall, 1)})


def run(tier):
    cfg = CFG[tier]
    ck = vlib.Check(PID, tier)
    exes = build()
    mcres = []

    def model_check():
        for mc in cfg["mc"]:
            mcres.append((mc, vlib.tlc("MC_Config", mc, tag="MC_Config-" + mc, deque=True, workers=max(2, vlib.NCPU // 2))))
    th = threading.Thread(target=model_check)
    th.start()
    nt = set()
    samples = []
    try:
        for g, impl in cfg["gen"]:
            binding_a(ck, exes, g, impl, nt, samples)
    finally:
        th.join()
    if len(mcres) != len(cfg["mc"]):
        raise vlib.MachineryError("model checking run did not finish")
    for mc, res in mcres:
        ck.add_tlc(res, "exhaustive " + mc)
    ck.cov["distinct_nontrivial"] = len(nt)
    ck.cov["exhaustive"] = True
    ck.cov["samples"] = samples
    return ck.finish()


def replay(path):
    d = json.load(open(path))
    det = d["detail"]
    beh = det.get("behaviour")
    if not beh:
        print(json.dumps(det, indent=1)[:4000])
        return 2
    exes = build()
    impl = det.get("impl", "c")
    recs, err = vlib.run_driver(exes[impl], script([beh], quiet_prefix=False))
    mms = vlib.compare([beh], recs, match)
    for mm in mms:
        print("VIOLATION property=%s replay=%s  (%s: %s)" % (PID, path, signature(mm, impl), mm["why"]))
    return 1 if mms else 0
