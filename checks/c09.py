"""C09 -- configuration text is read back faithfully (spec/ConfText.tla)."""
import concurrent.futures
import json
import os
import vlib

PID = "C09"
MANIFEST = dict(
        spec="ConfText.tla (+MC_ConfText, Gen_ConfText, Trace_ConfText)",
        text="The configuration language is specified generatively in TLA+ (forest of sections/options; one action per item, rendered in "
             "the prefix / enclosed / separated / options-only style from the parser_format record that the spec derives from the format "
             "string, with a decoration choice at every insignificant position).  TLC checks exhaustively over the bounded set that no "
             "text denotes two forests, and that the character scanner of mpt_parse_data (Tier 2: path buffer, valid length, keep-post "
             "flag, quote/escape states) yields exactly the written value for everything the renderer can write.  Every (format, name "
             "flags, text, forest) case TLC generates is parsed by the real mpt_parse_node and the resulting node tree (identifiers, "
             "value text, child order, parent links) must equal the forest; seeded documents of production size (random names/values "
             "of any bytes, value lengths across 250/255/65535, depth 6) are rendered and judged by TLC the same way.",
        note="Trusted: TLC, drv/conftext.c (projection only), bounded model.  The language definition is the generator's: constructs "
             "the renderer never writes (quotes in the middle of a value, a value ending in a backslash inside quotes, names with a "
             "line break) are outside the claim.  docs/C09.md lists the interpretations.",
        technique="TLA+ spec + TLC exhaustive check; TLC-generated cases replayed into the C code; TLC rendering/validation of seeded documents",
        design="5/C09")

TMO = {"quick": 240, "thorough": 800, "replay": 240}
CFG = {
    "quick":    dict(mc=["MC_ConfText.cfg", "MC_ConfText_u.cfg"], gen="Gen_ConfText.cfg", names="Gen_ConfText_n.cfg", ndocs=40, nitems=12),
    "thorough": dict(mc=["MC_ConfText_t.cfg", "MC_ConfText_tu.cfg"], gen="Gen_ConfText_t.cfg", names="Gen_ConfText_n.cfg", ndocs=400, nitems=30),
}


# --------------------------------------------------------------------------
# presentation helpers (no judgement)
def unruns(r, limit=60):
    out = []
    for b, n in r:
        ch = chr(b) if 32 <= b < 127 and chr(b) not in "\\<>" else "\\x%02x" % b
        out.append(ch * n if n <= limit else "<%s*%d>" % (ch, n))
    return "".join(out)


def rlen(r):
    return sum(n for _, n in r)


def show_tree(t):
    return [{"n": unruns(x["n"]), "v": unruns(x["v"]), "c": show_tree(x["c"])} for x in t]


def first_diff(exp, obs, path=""):
    """Locate the first differing node of two forests (for the signature only)."""
    for i in range(max(len(exp), len(obs))):
        if i >= len(exp):
            return path + "/%d" % i, "extra", None, obs[i]
        if i >= len(obs):
            return path + "/%d" % i, "missing", exp[i], None
        e, o = exp[i], obs[i]
        if e["n"] != o["n"]:
            return path + "/%d" % i, "name", e, o
        if e["v"] != o["v"]:
            return path + "/%d" % i, "value", e, o
        if e["c"] != o["c"]:
            return first_diff(e["c"], o["c"], path + "/%d" % i)
    return None


def fmt_style(arg):
    f = arg.get("fmt") or []
    flat = []
    for b, n in f:
        flat += [b] * n
    if flat == [0]:
        return "pre"
    st = {42: "pre", 120: "enc", 32: "sep", 95: "opt"}.get(flat[1] if len(flat) > 1 else 42, "none")
    if st == "enc":
        st += ":same" if len(flat) > 2 and flat[0] == flat[2] else ":nest"
    return st


def all_nodes(t):
    for x in t:
        yield x
        for y in all_nodes(x["c"]):
            yield y


def signature(step, rec, why):
    """Specific signature from the failing case: style + discriminating class of the
    first node that differs (length classes across the representation limits, the
    byte classes of the name)."""
    arg, exp = step.get("arg") or {}, step.get("exp") or {}
    st = fmt_style(arg)
    if why in ("Crash", "Hang"):
        return "parse:%s:%s" % (why.lower(), st)
    obs = (rec or {}).get("obs") or {}
    tree = exp.get("tree") or []
    nodes = list(all_nodes(tree))
    vmax = max([rlen(x["v"]) for x in nodes] or [0])
    nmax = max([rlen(x["n"]) for x in nodes] or [0])
    if exp.get("ret") == "error" and obs.get("ret") != "error":
        return "parse:accepted:unmatched_section_end:%s" % st
    if obs.get("ret") != exp.get("ret"):
        # refused document: classify by the most extreme element it contains
        if any(46 in [b for b, _ in x["n"]] for x in nodes):
            return "parse:refused:name_contains_path_sep"
        if vmax >= 65536:
            return "parse:refused:value_len>=65536"
        if vmax >= 250:
            return "parse:refused:value_len>=250"
        if nmax >= 256:
            return "parse:refused:name_len>=256"
        return "parse:refused:%s" % st
    d = first_diff(tree, obs.get("tree") or [])
    if d:
        _, kind, e, o = d
        if kind == "value" and rlen(e["v"]) >= 65536:
            return "parse:value:value_len>=65536"
        if kind == "value" and rlen(e["v"]) >= 250:
            return "parse:value:value_len>=250"
        if kind == "name" and rlen(e["n"]) >= 256:
            return "parse:name:name_len>=256"
        if kind == "name" and any(b in (9, 32) for b, _ in e["n"]):
            return "parse:name:space_in_name:%s" % st
        return "parse:%s:%s" % (kind, st)
    if obs.get("links") != exp.get("links"):
        return "parse:links"
    return "parse:other:%s" % st


def match(exp, obs, step=None, rec=None, prev=None):
    """Verdict projection: accepted, forest (names, values, order, nesting), parent links."""
    for k in ("ret", "tree", "links"):
        if k in exp and exp[k] != "any" and obs.get(k) != exp[k]:
            if k == "tree":
                d = first_diff(exp[k], obs.get(k) or [])
                if d:
                    return "tree: node %s %s: expected %s, observed %s" % (
                        d[0], d[1], json.dumps(show_tree([d[2]]) if d[2] else None)[:200],
                        json.dumps(show_tree([d[3]]) if d[3] else None)[:200])
            return "%s: expected %s, observed %s" % (k, json.dumps(exp[k])[:200], json.dumps(obs.get(k))[:200])
    return None


def nontrivial(step):
    """a document with at least one section holding an option, or a value that needed quoting/escaping,
    or a value/name across a representation limit"""
    tree = step["exp"]["tree"]
    nodes = list(all_nodes(tree))
    nested = any(x["c"] for x in nodes)
    text = step["arg"]["text"]
    quoted = any(b in (34, 39, 96) for b, _ in text)
    longv = any(rlen(x["v"]) >= 250 or rlen(x["n"]) >= 255 for x in nodes)
    return nested or quoted or longv


# --------------------------------------------------------------------------
# seeded documents (parameters only; TLC renders them and computes the forest)
SHIPPED = [
    ([0], [0]),
    (list(b"{*} =;!# `"), list(b"Ef")),
    (list(b"[*] = "), list(b"Esnw")),
    (list(b"[*] = !"), [0]),
    (list(b"{*} =;!#"), list(b"E")),
    (list(b"[ ] = #"), list(b"Esc")),
    (list(b"%x% = "), [0]),
    (list(b"<x> = "), [0]),
    (list(b"{_} = "), list(b"ns")),
    (list(b"{_} =;"), [0]),
    (list(b"[ ]   #"), [0]),
    (list(b"[_]   #"), list(b"ns")),
    (list(b"(*)@:,;% '"), list(b"ENSWnsw")),
    (list(b"[ ]\t=\t;"), [0]),
    (list(b"|x| = "), list(b"NSns")),
]


def runs_of(bs):
    out = []
    for b in bs:
        if out and out[-1][0] == b:
            out[-1][1] += 1
        else:
            out.append([b, 1])
    return out


def gen_docs(ck, n, nitems):
    """Random item sequences.  Names/values are random byte strings; whether an item can be
    written in the active style is decided by the specification (an item whose guard is
    false is skipped by Trace_ConfText, nothing is filtered here by meaning)."""
    rng = ck.rng
    gaps = ["none", "sp", "tab", "nl", "blank", "crlf", "com", "spcom"]
    blanks = ["none", "sp", "tab", "sp2", "mix"]
    dflt = {"g": "none", "g2": "none", "b1": "sp", "b2": "sp", "b3": "none", "term": "nl"}
    docs = [{"a": "doc", "arg": {"fmt": [0], "acc": [0], "items": [            # fixed: a name with the path separator
        {"k": "opt", "n": runs_of(list(b"a.b")), "v": runs_of(list(b"1")), "q": 0, "d": dflt}]}}]
    alpha = list(b"abcXYZ") + list(b"019") + list(b"_-+/:@!$%&*()[]{}<>|.,;=#'\"`\\~^?") + [32, 32, 9] + [128, 200, 255, 1, 27]
    for _ in range(n - 1):
        fmt, acc = rng.choice(SHIPPED)
        items = []
        for _ in range(rng.randrange(1, nitems + 1)):
            kind = rng.choice(["opt", "opt", "opt", "open", "close"])
            def word(maxlen, pool):
                k = rng.choice([0, 1, 1, 2, 3, 5, 8, maxlen])
                return [rng.choice(pool) for _ in range(k)]
            r = rng.random()
            if r < 0.6:
                name = [rng.choice(list(b"abcdefgh"))] + word(8, list(b"abcdefgh12_"))
            elif r < 0.8:
                name = word(12, list(b"abcdefgh12 _-+/:@$%&*()|,~^?"))
            else:
                name = word(12, alpha)
            if rng.random() < 0.04:
                name = [97] * rng.choice([254, 255, 256, 300])
            if rng.random() < 0.3:
                val = word(40, alpha + [10])
            else:
                val = word(20, list(b"abc xyz 0123 ._-/"))
            r = rng.random()
            if r < 0.10:
                val = [rng.choice([120, 32, 34])] * 1 + [120] * rng.choice([248, 249, 250, 253, 254, 255, 256, 1000])
            elif r < 0.13:
                val = [121] * rng.choice([65534, 65535, 65536, 65537, 70000])
            d = {"g": rng.choice(gaps), "g2": rng.choice(gaps), "b1": rng.choice(blanks), "b2": rng.choice(blanks + ["com"]),
                 "b3": rng.choice(blanks), "term": rng.choice(["nl", "nl", "com", "eof"])}
            if d["term"] == "com" and d["b3"] == "none":
                d["b3"] = "sp"
            if kind == "open":
                d["g2"] = rng.choice(["none", "none", "nl", "blank", "spcom"])
                if rng.random() < 0.5:
                    d["b1"] = "none"
            items.append({"k": kind, "n": runs_of(name), "v": runs_of(val), "q": rng.choice([1] * 6 + [2] * 2 + [0, 34, 39, 96]), "d": d})
        docs.append({"a": "doc", "arg": {"fmt": fmt, "acc": acc, "items": items}})
    return docs


def tlc_retry(module, cfg, timeout, **kw):
    """vlib.tlc with a bounded run time; a run that exceeds it (starved machine, stuck JVM) is repeated once."""
    tag = kw.pop("tag", module)
    vlib.log("tlc %s %s ..." % (module, cfg))
    res = vlib.tlc(module, cfg, timeout=timeout, tag=tag, **kw)
    if res.rc == -1:
        vlib.log("tlc %s %s exceeded %ss, once more" % (module, cfg, timeout))
        res = vlib.tlc(module, cfg, timeout=timeout * 2, tag=tag, **kw)
    vlib.log("tlc %s %s done in %.1fs" % (module, cfg, res.wall))
    return res


def script(behs, offset=0):
    lines = []
    for i, beh in enumerate(behs):
        lines.append("B %d" % (i + offset))
        for st in beh:
            toks = [st["a"]] + ["%s=%s" % (k, vlib.fmt_val(v)) for k, v in st["arg"].items()]
            lines.append(" ".join(toks))
    return "\n".join(lines) + "\n"


def run_guarded(exe, behs, chunk=2000, max_faults=25, timeout=900):
    """Feed the behaviours chunk by chunk; when crashes/hangs pile up (a defect that hits
    nearly every input) stop early: the executed prefix is enough evidence and the run stays
    short.  Returns (records, number of behaviours executed)."""
    recs, done, faults = [], 0, 0
    while done < len(behs):
        part = behs[done:done + chunk]
        vlib.log("driver: behaviours %d..%d of %d" % (done, done + len(part), len(behs)))
        r, _ = vlib.run_driver(exe, script(part, done), timeout=timeout)
        recs += r
        done += len(part)
        faults += sum(1 for x in r if x.get("a") in ("Crash", "Hang"))
        if faults >= max_faults:
            break
        chunk = min(chunk * 2, 20000)
    return recs, done


def render_docs(docs, tag):
    """TLC renders the seeded documents and computes the forests (Trace_ConfText, pass 1)."""
    tdir = vlib.ensure(os.path.join(vlib.WORK, "traces"))
    path = os.path.join(tdir, "%s-%d.ndjson" % (tag, os.getpid()))
    with open(path, "w") as f:
        for e in docs:
            f.write(json.dumps(e, separators=(",", ":")) + "\n")
    res = tlc_retry("Trace_ConfText", "Trace_ConfText.cfg", 600, workers=1, env={"TRACE": path}, xss="512m", tag=tag)
    if res.error or res.violation:
        raise vlib.MachineryError("rendering of seeded documents failed: %s %s\n%s" % (res.error, res.violation, res.out[-2000:]))
    os.unlink(path)
    return vlib.parse_behaviours(res.out), res


def run(tier):
    cfg = CFG[tier]
    ck = vlib.Check(PID, tier)
    exe = vlib.build_driver("conftext", ["conftext.c"])

    # the three TLC jobs are independent: run them side by side
    def job_model():
        # 1. model: scanner (Tier 2) implements the written value (ASSUME ScanChecked), TypeOK, unambiguity
        r1 = tlc_retry("MC_ConfText", cfg["mc"][0], TMO[tier], workers=4)
        r2 = None
        if r1.ok:
            r2 = tlc_retry("MC_ConfText", cfg["mc"][1], TMO[tier], workers=4, env={"EXPECT_DISTINCT": r1.distinct, "SKIP_SCAN": "1"},
                           tag="MC_ConfText_u")
        return r1, r2

    # generator steering only (no verdict): while the open finding "name contains the path separator"
    # still reproduces, the exported alphabet leaves such names out so that documents are not cut short
    # at them; the seeded documents below keep exercising (and reporting) it
    genv = {"SKIP_SCAN": "1"}
    if ck.signature_known("parse:refused:name_contains_path_sep"):
        pr, _ = vlib.run_driver(exe, script([[{"a": "parse", "arg": {"fmt": [[0, 1]], "acc": [[0, 1]], "text": runs_of(list(b"a.b = 1\n"))}}]]))
        if pr and (pr[0].get("obs") or {}).get("ret") == "error":
            genv["AVOID_DOT"] = "1"
    ck.notes["generator_avoids_dotted_names"] = "AVOID_DOT" in genv

    def job_gen():
        # 2. binding A: every generated case parsed by the real code
        g = tlc_retry("Gen_ConfText", cfg["gen"], TMO[tier], workers=4, env=genv)
        if g.error or g.violation:
            raise vlib.MachineryError("case export failed: %s %s" % (g.error, g.violation))
        # names across the allocation steps of the path buffer in every format family
        g2 = tlc_retry("Gen_ConfText", cfg["names"], TMO[tier], workers=2, env=genv, tag="Gen_ConfText_n")
        if g2.error or g2.violation:
            raise vlib.MachineryError("long-name case export failed: %s %s" % (g2.error, g2.violation))
        g.generated += g2.generated
        return vlib.parse_behaviours(g.out) + vlib.parse_behaviours(g2.out), g

    docs = gen_docs(ck, cfg["ndocs"], cfg["nitems"])

    def job_render():
        # 3. seeded documents at production size, rendered and judged by TLC
        return render_docs(docs, "Trace_ConfText")

    with concurrent.futures.ThreadPoolExecutor(max_workers=3) as ex:
        fm, fg, fr = ex.submit(job_model), ex.submit(job_gen), ex.submit(job_render)
        res, res2 = fm.result()
        behs, gen = fg.result()
        behs2, rres = fr.result()
    ck.add_tlc(res, "exhaustive " + cfg["mc"][0])
    if res2 is not None:
        ck.add_tlc(res2, "unambiguity (text view) " + cfg["mc"][1])
        ck.notes["unambiguity"] = {"distinct_full_state": res.distinct, "distinct_text_view": res2.distinct}
    ck.cov["transitions"] += gen.generated
    ck.cov["transitions"] += rres.generated
    if len(behs2) != len(docs):
        raise vlib.MachineryError("rendered %d of %d seeded documents" % (len(behs2), len(docs)))
    allb = behs + behs2

    # the seeded documents first (production sizes), then the generated cases
    order = behs2 + behs
    recs, done = run_guarded(exe, order, chunk=500)
    if done < len(order):
        ck.notes["stopped_early_after"] = done
    nseed = len(behs2)
    for r in recs:                      # back to the numbering generated cases first
        if r.get("b") is not None:
            r["b"] = r["b"] - nseed if r["b"] >= nseed else r["b"] + len(behs)
    executed = set(b - nseed if b >= nseed else b + len(behs) for b in range(done))
    mms = [m for m in vlib.compare(allb, recs, match) if m["b"] in executed]
    per_sig = {}
    for mm in mms:
        st = allb[mm["b"]][mm["i"]]
        sig = signature(st, mm["rec"], mm["why"])
        per_sig[sig] = per_sig.get(sig, 0) + 1
        if per_sig[sig] > 3:          # three replay files per signature are enough
            continue
        ck.violation(sig, {"binding": "A(replay)" if mm["b"] < len(behs) else "seeded document", "behaviour": allb[mm["b"]],
                           "step": mm["i"], "why": mm["why"], "record": mm["rec"],
                           "text": unruns(st["arg"]["text"]), "expected": show_tree(st["exp"]["tree"])})
    # pass 2: the recorded executions of the seeded documents are validated by TLC itself
    bad = set(mm["b"] for mm in mms)
    by = vlib.group_records(recs)
    events = []
    for k, doc in enumerate(docs):
        b = len(behs) + k
        if b in bad or not by.get(b) or b not in executed:
            continue            # reported above (violation or known finding): cut here
        o = by[b][0].get("obs") or {}
        ev = {"a": "doc", "arg": dict(doc["arg"], text=behs2[k][0]["arg"]["text"]),
              "obs": {"ret": o.get("ret"), "tree": o.get("tree"), "links": o.get("links")}}
        events.append(ev)
    validated = 0
    if events:
        ok, matched, tres = vlib.validate_trace("Trace_ConfText", events, cfg="Trace_ConfText.cfg", tag="Trace_ConfText_v")
        ck.cov["transitions"] += tres.generated
        if not ok:
            ok2, matched2, _ = vlib.validate_trace("Trace_ConfText", events, cfg="Trace_ConfText.cfg", tag="Trace_ConfText_v")
            if not ok2 and matched2 == matched:
                ev = events[matched] if matched < len(events) else None
                ck.violation("trace:rejected", {"binding": "B(trace validation)", "matched_prefix": matched, "rejected_event": ev})
        validated = matched
    ck.notes["trace_documents_validated"] = validated
    nt = set()
    for b in allb:
        if nontrivial(b[0]):
            nt.add(json.dumps(b[0]["arg"], sort_keys=True))
    ck.cov["evaluations"] = len(allb)
    ck.cov["distinct_nontrivial"] = len(nt)
    ck.cov["traces_validated_against_impl"] = validated
    ck.cov["exhaustive"] = True
    ck.notes["replayed_cases"] = len(behs)
    ck.notes["seeded_documents"] = len(behs2)
    ck.notes["replay_mismatches"] = len(mms)
    ck.notes["mismatch_signatures"] = per_sig
    ck.cov["rule"] = ("A: one case per transition of the TLC state graph of ConfText under the view (format, name flags, depth, "
                      "node count) [every item kind x every offered name x value x quoting x decoration profile, from every "
                      "skeleton state], each a complete document parsed by mpt_parse_node; seeded: random item sequences "
                      "(random-byte names/values, lengths across 250/255/256/65535/65536) rendered by TLC.  Non-trivial = the "
                      "document nests an item in a section, or contains a quote character, or a value >= 250 / name >= 255 bytes; "
                      "distinct by (format, flags, text).")
    mid = len(behs) // 2
    ck.cov["samples"] = [{"fmt": unruns(b[0]["arg"]["fmt"]), "acc": unruns(b[0]["arg"]["acc"]), "text": unruns(b[0]["arg"]["text"]),
                          "tree": show_tree(b[0]["exp"]["tree"])} for b in (allb[mid:mid + 3] + behs2[:2])]
    ck.assumptions = ["TLC/SANY and the CommunityModules Json/IOUtils are correct",
                      "drv/conftext.c projects the node tree without judgement (identifier bytes, mpt_node_data text, links)",
                      "the language is the one the generator writes (docs/C09.md, interpretations); the exhaustive model is bounded",
                      "unambiguity is decided over the bounded exhaustive set only"]
    # extension X09: the front ends (files, folders, C++ parser), option start character / empty names / flag sets,
    # allocation failures (checks/x09_front.py, docs/X09_front.md; the clean-failure side reads C08's statement)
    import x09_front
    if x09_front.enabled():
        x09_front.run_part(ck, tier)
    return ck.finish()


def replay(path):
    d = json.load(open(path))
    det = d["detail"]
    if det.get("part") == "x09":
        import x09_front
        return x09_front.replay(det, path)
    beh = det.get("behaviour")
    if not beh:
        print(json.dumps(det, indent=1)[:4000])
        return 2
    exe = vlib.build_driver("conftext", ["conftext.c"])
    recs, err = vlib.run_driver(exe, vlib.to_script([beh]))
    mms = vlib.compare([beh], recs, match)
    for mm in mms:
        print("VIOLATION property=%s replay=%s  (%s: %s)" % (PID, path, signature(beh[mm["i"]], mm["rec"], mm["why"]), mm["why"]))
    return 1 if mms else 0
