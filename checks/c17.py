"""C17 -- fragmented messages read like contiguous ones (spec/Message.tla)."""
import concurrent.futures
import hashlib
import json
import os
import time

import vlib
import vseam

PID = "C17"
MANIFEST = dict(
        spec="Message.tla (+MC_Message, Gen_Message, Trace_Message)",
        text="The specification defines every message operation (mpt_message_read/length/argv, mpt_memchr/memrchr/memfcn/memrfcn/"
             "memstr/memrstr/memtok/memcpy, mpt_message_append, mpt_array_message, mpt_message_get) on the contiguous byte string "
             "alone and, as a second tier, on the fragment cursor the way the C code walks it.  TLC checks for every string over "
             "four 4-symbol alphabets (NUL/space/quote/letter; quotes/backslash; comment/newline; bytes 0x80/0xFF with search "
             "tokens given as negative ints and beyond 0..255) up to length 4 (thorough 5) x "
             "every cut into <= 3 fragments (thorough also 4 at length 4) including empty ones x every call with every argument of the bounded sets that the "
             "fragment design answers exactly what the contiguous meaning says.  Every such case (string, cut, call, expected "
             "answer) is exported by TLC and replayed into the real functions on separately allocated fragments (answer class, "
             "returned position/length, copied bytes, remaining message compared); the one-fragment cut is the contiguous run of "
             "the same code.  Zero-length fragments have their base in an own block, NULL, an inaccessible page or unrelated "
             "memory filled with a byte that matters (no operator of the specification looks at it); mpt_message_append is "
             "run on arrays without buffer / exactly full / shared / roomy with the k-th allocation of the call failing "
             "(allocation seam): refused and the array content exactly as before, as for the contiguous append.  Seeded long messages (<= 300 bytes, <= 14 fragments) are run through the real code and the recorded "
             "answers are validated by TLC against the same operators.",
        note="Trusted: TLC, drv/message.c (copies bytes, maps return codes to ok/none/refused/missing), bounded model. "
             "What a call answers on a contiguous string is taken from the specification, which was calibrated against the "
             "one-fragment runs; zero-fragment iovec lists, overflow of ssize_t positions and the C++ wrappers are not covered; "
             "the number of allocations an append needs is modelled for granularity 1 / 4096 of the buffer allocator only. "
             "Reads outside a fragment are observed by ASan on exactly sized fragment allocations, not proved.",
        technique="TLA+ spec + TLC exhaustive check; TLC-generated cases replayed into the C code; TLC trace validation of recorded runs",
        design="5/C17")

CFG = {
    "quick": dict(
        mc=[("MC_Message.cfg", 8), ("MC_Message_e.cfg", 3), ("MC_Message_c.cfg", 3), ("MC_Message_h.cfg", 3)],
        gen=[("Gen_Message.cfg", 4), ("Gen_Message_e.cfg", 2), ("Gen_Message_c.cfg", 2), ("Gen_Message_h.cfg", 1)],
        nmsg=150, maxlen=300, pool=8),
    "thorough": dict(
        mc=[("MC_Message_t.cfg", 8), ("MC_Message_f.cfg", 4), ("MC_Message_et.cfg", 4), ("MC_Message_ct.cfg", 4),
            ("MC_Message_ht.cfg", 4)],
        gen=[("Gen_Message_t.cfg", 8), ("Gen_Message_et.cfg", 3), ("Gen_Message_ct.cfg", 3), ("Gen_Message_ht.cfg", 3)],
        nmsg=1500, maxlen=300, pool=8),
}
KEYS = ("ret", "val", "out", "content")
FAST_ASAN = {"ASAN_OPTIONS": vlib.ASAN_ENV + ":symbolize=0"}
JVM = {"JAVA_TOOL_OPTIONS": "-XX:ParallelGCThreads=2"}


def build():
    """drv/message.c with mpt_message_append, mpt_array_append and the buffer allocator compiled in through the
    allocation seam (drv/seam.h): the k-th allocation of an append can be failed, buffers can be exactly sized."""
    return vseam.build_seam_driver("message", ["message.c", "alloc_seam.c"],
                                   ["mptcore/message/message_append.c", "mptcore/array/array_append.c"],
                                   libs=("mptcore",), link_libs=True)


def match(exp, obs, step=None, rec=None, prev=None):
    """Verdict projection: answer class, position/length, bytes, remaining message."""
    for k in KEYS:
        if obs.get(k) != exp.get(k):
            return "%s: expected %s, observed %s" % (k, json.dumps(exp.get(k))[:300], json.dumps(obs.get(k))[:300])
    return None


def frag_class(beh):
    """How the message of a behaviour was given (from its arguments only)."""
    for st in beh:
        if st["a"] == "init":
            cut = st["arg"]["cut"]
            eb = st["arg"].get("eb", "slice")
            return ("one-fragment" if len(cut) == 1 else "fragmented") + ("" if eb == "slice" else "/" + eb)
        if st["a"] == "qget":
            return "queue"
    return "none"


def signature(beh, i, why):
    """action + differing observation + how the message was cut."""
    return "%s:%s:%s" % (beh[i]["a"], why.split(":")[0], frag_class(beh[:i + 1]))


def case_key(beh):
    return hashlib.sha1(json.dumps([(s["a"], s.get("arg")) for s in beh], sort_keys=True).encode()).digest()[:8]


def nontrivial(beh):
    """the message had at least two fragments and at least two bytes."""
    for st in beh:
        if st["a"] == "init" and len(st["arg"]["cut"]) >= 2 and len(st["arg"]["data"]) >= 2:
            return True
        if st["a"] == "qget" and st["arg"]["qoff"] + len(st["arg"]["data"]) > st["arg"]["max"] and st["arg"]["take"] >= 2:
            return True
    return False


# --------------------------------------------------------------------------
# jobs (run in worker processes)
# --------------------------------------------------------------------------
def mc_job(a):
    cfg, workers, cover = a
    res = vlib.tlc("MC_Message", cfg, workers=workers, coverage=cover, tag="MC_Message-" + cfg, env=JVM)
    return dict(kind="mc", cfg=cfg, distinct=res.distinct, generated=res.generated, depth=res.depth, wall=res.wall,
                error=res.error, violation=res.violation, tail=res.out[-6000:] if (res.violation or res.error) else "")


def gen_job(a):
    cfg, shard, nshard, exe = a
    t0 = time.time()
    gen = vlib.tlc("Gen_Message", cfg, workers=2, env=dict(JVM, SHARD=shard, NSHARD=nshard),
                   tag="Gen_Message-%s-%d" % (cfg, shard))
    if gen.error or gen.violation:
        return dict(kind="gen", cfg=cfg, error="behaviour export failed: %s %s" % (gen.error, gen.violation))
    behs = vlib.parse_behaviours(gen.out)
    gen.out = ""
    recs, _ = vlib.run_driver(exe, vlib.to_script(behs), env=FAST_ASAN, timeout=1200)
    mms = vlib.compare(behs, recs, match)
    out = []
    seen = {}
    kept = []
    for mm in mms:
        # a fault or time-out is re-run alone once before it is reported
        if mm["why"] in ("Crash", "Hang", "no record (driver stopped)"):
            recs1, _ = vlib.run_driver(exe, vlib.to_script([behs[mm["b"]]]), env=FAST_ASAN)
            again = vlib.compare([behs[mm["b"]]], recs1, match)
            if not again:
                continue
            mm = dict(again[0], b=mm["b"])
        kept.append(mm)
    mms = kept
    for mm in mms:
        beh = behs[mm["b"]]
        sig = signature(beh, mm["i"], mm["why"])
        seen[sig] = seen.get(sig, 0) + 1
        if seen[sig] <= 3:
            out.append(dict(sig=sig, behaviour=beh, step=mm["i"], why=mm["why"], record=mm["rec"]))
    nt = set(case_key(b) for b in behs if nontrivial(b))
    mid = len(behs) // 2
    return dict(kind="gen", cfg=cfg, shard=shard, error=None, n=len(behs), nmm=len(mms), mms=out, sigcount=seen,
                nt=nt, generated=gen.generated, wall=time.time() - t0,
                samples=[vlib.sample_repr(b[1:]) for b in behs[mid:mid + 1]])


# --------------------------------------------------------------------------
# binding B: seeded long messages
# --------------------------------------------------------------------------
WORDS = [b"set", b"a", b"value", b"x=1", b"mpt", b"path.to.item", b"12.5", b"--flag", b"\\", b"it's", b"q\\\"q"]
WHITE = [b" ", b" ", b"  ", b"\t", b"\n", b"\r\n", b" \v"]


def rand_data(rng, maxlen):
    style = rng.choice(["words", "words", "words", "binary", "runs", "csv", "comment", "latin"])
    n = rng.choice([0, 1, 2, 3, rng.randrange(4, 40), rng.randrange(40, max(maxlen, 40) + 1)])
    n = min(n, maxlen)
    out = bytearray()
    if style == "binary":
        out += bytes(rng.randrange(256) for _ in range(n))
    elif style == "runs":
        sym = [rng.choice([0, 32, 34, 39, 92, 97, 10, 35, 44, 128, 255, 233]) for _ in range(3)]
        while len(out) < n:
            out += bytes([rng.choice(sym)]) * rng.randrange(1, 6)
    else:
        if rng.random() < 0.4:
            out += rng.choice(WHITE) * rng.randrange(1, 4)
        while len(out) < n:
            r = rng.random()
            w = rng.choice(WORDS)
            if style == "latin":
                w = bytes(rng.choice([0xe9, 0xfc, 0x80, 0xff, 0xa0, 0x61, 0x7a]) for _ in range(rng.randrange(1, 6)))
            if r < 0.2:
                q = rng.choice([b'"', b"'"])
                w = q + w + rng.choice(WHITE) + rng.choice(WORDS) + (q if rng.random() < 0.85 else b"")
            elif r < 0.25:
                w = w + b"\\" + rng.choice([b'"', b"'", b" "])
            out += w
            if style == "csv":
                out += rng.choice([b",", b", ", b";", b","])
            elif style == "comment" and rng.random() < 0.3:
                out += rng.choice([b" # note", b"\n#x", b" #", b"\t! c"]) + rng.choice([b"\n", b"\n", b""])
            elif rng.random() < 0.08:
                out += b"\0"
            else:
                out += rng.choice(WHITE)
    return list(out[:n])


def rand_cut(rng, total, maxfrag):
    k = rng.choice([1, 2, 2, 3, 3, 4, rng.randrange(1, maxfrag + 1)])
    pts = sorted(rng.choice([0, total, rng.randrange(total + 1), rng.randrange(total + 1)]) for _ in range(k - 1))
    pts = [0] + pts + [total]
    return [pts[i + 1] - pts[i] for i in range(k)]


def some_byte(rng, data):
    if data and rng.random() < 0.7:
        return rng.choice(data)
    return rng.choice([0, 1, 32, 34, 44, 97, 255, rng.randrange(256)])


def some_token(rng, data):
    """an int token the way C code passes one: the byte, the byte as signed char, or beyond a byte."""
    b = some_byte(rng, data)
    r = rng.random()
    if b >= 128 and r < 0.5:
        return b - 256
    if r < 0.1:
        return b + 256 * rng.choice([1, -2, 3])
    return b


def gen_traces(rng, nmsg, maxlen):
    """Call sequences only -- no expected values."""
    behs = []
    for _ in range(nmsg):
        beh = []
        if rng.random() < 0.12:
            mx = rng.choice([0, 1, 2, 5, 8, 16, 33, 64])
            data = rand_data(rng, mx)[:mx]
            ln = len(data)
            beh.append({"a": "qget", "arg": {"max": mx, "qoff": rng.randrange(mx) if mx else 0, "data": data,
                                             "pos": rng.choice([0, 0, 1, rng.randrange(ln + 2), ln]),
                                             "take": rng.choice([0, 1, ln, rng.randrange(ln + 2), max(ln - 1, 0)])}})
            est = ln
        else:
            data = rand_data(rng, maxlen)
            cut = rand_cut(rng, len(data), 14)
            eb = rng.choice(["slice", "null", "guard", "foreign"]) if 0 in cut else "slice"
            fb = (rng.choice(data) if data and rng.random() < 0.5 else rng.choice([10, 0, 34, 39, 92, 35, 32, 44, 97, 255])) \
                if eb == "foreign" else 0
            beh.append({"a": "init", "arg": {"data": data, "cut": cut, "eb": eb, "fb": fb}})
            est = len(data)
        for _ in range(rng.randrange(5, 16)):
            op = rng.choice(["read", "read", "length", "argv", "argv", "argv", "arrmsg", "arrmsg", "memchr", "memrchr",
                             "memfcn", "memrfcn", "memstr", "memrstr", "memtok", "memtok", "memtok", "memcpy", "memcpy",
                             "append"])
            if op == "read":
                n = rng.choice([0, 1, 2, 3, rng.randrange(est + 3), rng.randrange(est // 4 + 2)])
                arg = {"n": n, "dest": rng.choice([0, 1, 1])}
                est = max(est - n, 0)
            elif op == "length":
                arg = {"x": 0}
            elif op in ("argv", "arrmsg"):
                arg = {"sep": rng.choice([0, 32, 32, 32, 9, 10, 1, 44, 59, 61, 97, 34, 200, 255, -1, -23, -128])}
            elif op in ("memchr", "memrchr"):
                arg = {"b": some_token(rng, data)}
            elif op in ("memfcn", "memrfcn"):
                arg = {"cls": rng.choice(["space", "notspace", "quote", "zero", "high"])}
            elif op in ("memstr", "memrstr"):
                arg = {"set": [some_byte(rng, data) for _ in range(rng.choice([0, 1, 2, 3, 5]))]}
            elif op == "memtok":
                tok = rng.choice([None, None, [9, 32, 10, 13, 11], [44, 59], [61], [], [97, 46], [128, 255, 44], [233]])
                arg = {"hastok": 0 if tok is None else 1, "tok": tok or [],
                       "com": rng.choice([[], [], [35], [35, 33], [255]]),
                       "esc": rng.choice([[], [39, 34], [39, 34], [34], [128]])}
            elif op == "memcpy":
                total = rng.choice([0, 1, est, est + 1, max(est - 1, 0), rng.randrange(est + 4), rng.randrange(est // 3 + 2)])
                arg = {"n": rng.choice([-1, -1, 0, 1, total, est, max(total - 1, 0), total + 1, rng.randrange(est + 2)]),
                       "dcut": rand_cut(rng, total, 8)}
            else:
                pre = [rng.randrange(256) for _ in range(rng.choice([0, 0, 1, 5]))]
                arg = {"pre": pre, "kind": rng.choice(["exact", "exact", "shared", "roomy"] if pre else ["exact", "roomy"]),
                       "fail": rng.choice([0, 0, 1, 2, 3, rng.randrange(1, 16)])}
            beh.append({"a": op, "arg": arg})
        behs.append(beh)
    return behs


def trace_job(a):
    seed, nmsg, maxlen, exe = a
    import random
    rng = random.Random(seed)
    hist = gen_traces(rng, nmsg, maxlen)
    recs, _ = vlib.run_driver(exe, vlib.to_script(hist), env=FAST_ASAN)
    events = vlib.merge_trace(hist, recs)
    tag = "Trace_Message-%d" % seed
    ok, matched, tres = vlib.validate_trace("Trace_Message", events, tag=tag, extra_env=JVM)
    bad = None
    if not ok:
        ok2, matched2, _ = vlib.validate_trace("Trace_Message", events, tag=tag, extra_env=JVM)
        if ok2:
            ok, matched = ok2, matched2
        elif matched2 == matched:
            ev = events[matched] if matched < len(events) else None
            beh = hist[ev["b"]] if ev else None
            bad = dict(event=ev, previous=events[matched - 1] if matched else None,
                       behaviour=beh, matched=matched,
                       sig="trace:" + (signature(beh, ev["i"], ev["a"] if ev["a"] in ("Crash", "Hang", "Missing") else "rejected")
                                       if ev else "short"))
        else:
            raise vlib.MachineryError("trace validation is not repeatable (%s / %s events matched)" % (matched, matched2))
    nt = set(case_key(b) for b in hist if nontrivial(b))
    return dict(kind="trace", ok=ok, n=len(hist), events=len(events), matched=matched, generated=tres.generated, bad=bad,
                nt=nt, samples=[vlib.sample_repr(hist[0][:4])])


def run(tier):
    cfg = CFG[tier]
    ck = vlib.Check(PID, tier)
    exe = build()
    jobs = []
    for c, w in cfg["mc"]:
        jobs.append((mc_job, (c, w, tier == "thorough" and c == cfg["mc"][0][0])))
    for c, n in cfg["gen"]:
        for s in range(n):
            jobs.append((gen_job, (c, s, n, exe)))
    nshard = 2 if tier == "quick" else 6
    for s in range(nshard):
        jobs.append((trace_job, (ck.seed * 1000 + s, cfg["nmsg"] // nshard, cfg["maxlen"], exe)))
    results = []
    with concurrent.futures.ProcessPoolExecutor(max_workers=cfg["pool"]) as ex:
        futs = [ex.submit(f, a) for f, a in jobs]
        for fu in futs:
            results.append(fu.result())

    nt = set()
    replayed = mism = traces = tevents = tmatched = 0
    samples = []
    for r in results:
        if r["kind"] == "mc":
            res = vlib.TlcResult()
            res.rc, res.distinct, res.generated, res.depth, res.wall = 0, r["distinct"], r["generated"], r["depth"], r["wall"]
            res.error, res.violation, res.out = r["error"], r["violation"], r["tail"]
            ck.add_tlc(res, "exhaustive " + r["cfg"])
        elif r["kind"] == "gen":
            if r["error"]:
                raise vlib.MachineryError(r["error"])
            replayed += r["n"]
            mism += r["nmm"]
            nt |= r["nt"]
            ck.cov["transitions"] += r["generated"]
            samples += r["samples"]
            for mm in r["mms"]:
                ck.violation(mm["sig"], {"binding": "A(replay)", "cfg": r["cfg"], "behaviour": mm["behaviour"],
                                         "step": mm["step"], "why": mm["why"], "record": mm["record"],
                                         "cases_with_this_signature": r["sigcount"][mm["sig"]]})
        else:
            traces += r["n"] if r["ok"] else 0
            tevents += r["events"]
            tmatched += r["matched"]
            nt |= r["nt"]
            ck.cov["transitions"] += r["generated"]
            samples += r["samples"]
            if r["bad"]:
                b = r["bad"]
                ck.violation(b["sig"], {"binding": "B(trace validation)", "matched_prefix": b["matched"],
                                        "rejected_event": b["event"], "previous_event": b["previous"],
                                        "behaviour": b["behaviour"]})
    ck.cov["evaluations"] = replayed + tevents
    ck.cov["traces_validated_against_impl"] = traces
    ck.cov["distinct_nontrivial"] = len(nt)
    ck.cov["exhaustive"] = True
    ck.cov["samples"] = samples[:6]
    ck.cov["rule"] = ("A: one case per transition of the TLC state graph of Message (all strings over the configured 4-symbol "
                      "alphabets up to MaxLen x all cuts into <= MaxFrag fragments incl. empty ones x every call with every "
                      "argument of the bounded sets; queue-borne messages for all capacities/offsets <= MaxQ), each replayed into "
                      "the real code; B: seeded messages (<= 300 bytes, <= 14 fragments) with 5..15 calls each, recorded from "
                      "the real code and validated by TLC.  Evaluations = replayed cases + validated trace events.  Non-trivial "
                      "= the message had >= 2 fragments and >= 2 bytes (or came from a wrapped queue with >= 2 bytes taken); "
                      "distinct by (string, cut, call sequence).")
    ck.notes["replayed_behaviours"] = replayed
    ck.notes["replay_mismatches"] = mism
    ck.notes["trace_events"] = tevents
    ck.notes["trace_events_matched"] = tmatched
    ck.assumptions = ["TLC/SANY and the CommunityModules Json/IOUtils are correct",
                      "drv/message.c projects without judgement (copies bytes, walks the cursor, maps return codes to classes)",
                      "the meaning of a call on a contiguous string is the specification's (calibrated on one-fragment runs of the same code)",
                      "reads outside a fragment are observed by ASan on exactly sized allocations, not proved",
                      "the exhaustive model is bounded (see MC cfgs); beyond it coverage is by the seeded long messages"]
    # extension X17: the other consumers / producers of fragmented messages (checks/x17_msgiter.py, docs/X17_msgiter.md)
    import x17_msgiter
    if x17_msgiter.enabled():
        x17_msgiter.run_part(ck, tier)
    # extension X25: the sinks that receive a message in pieces through push(len, data) (checks/x25_logsink.py, docs/X25_logsink.md)
    import x25_logsink
    if x25_logsink.enabled():
        x25_logsink.run_part(ck, tier)
    return ck.finish()


def replay(path):
    d = json.load(open(path))
    det = d["detail"]
    if det.get("part") == "x17":
        import x17_msgiter
        return x17_msgiter.replay(det, path)
    if det.get("part") == "x25":
        import x25_logsink
        return x25_logsink.replay(det, path)
    beh = det.get("behaviour")
    if not beh:
        print(json.dumps(det, indent=1)[:4000])
        return 2
    exe = build()
    recs, err = vlib.run_driver(exe, vlib.to_script([beh]))
    if all("exp" in s for s in beh):
        mms = vlib.compare([beh], recs, match)
        for mm in mms:
            print("VIOLATION property=%s replay=%s  (%s: %s)" % (PID, path, signature(beh, mm["i"], mm["why"]), mm["why"]))
            if mm["why"] in ("Crash", "Hang"):
                print(err[-3000:])
        return 1 if mms else 0
    events = vlib.merge_trace([beh], recs)
    ok, matched, _ = vlib.validate_trace("Trace_Message", events, tag="Trace_Message_replay")
    if not ok:
        print("VIOLATION property=%s replay=%s  (trace rejected at event %d: %s)" % (
            PID, path, matched, json.dumps(events[matched])[:600] if matched < len(events) else "-"))
    return 0 if ok else 1
