"""X07 (extension of C07) -- scalar TO text and the composite conversion paths (spec/NumText.tla on Convert.tla's numbers).

run_part(ck, tier) adds to the vlib.Check of C07:
  * TLC: exhaustive check of NumText on scaled types (design of the printer / format parser / destination parser /
    ranged numerals / vector dispatch => meaning),
  * binding A: real-width cases enumerated by TLC (Gen_NumText) executed in drv/numtext.c; what TLC can state in
    advance is compared for equality / membership (refusal obliged when the shortest numeral does not fit, stored
    format fields per consumed length, admissible values inside the range, admissible value per vector element),
  * binding B: seeded inputs at full width AND every record of binding A are judged event by event by TLC
    (Trace_NumText: the printed characters denote the source value, print -> parse is the identity, ...).
Python generates inputs, moves bytes and compares for equality; all judgement is in the .tla files.
"""
import json
import os
import re
import struct
import time
from concurrent.futures import ThreadPoolExecutor

import vlib

TAG = "x07"
CFG = {
    "quick": dict(mc="MC_NumText.cfg", gen="Gen_NumText.cfg", nrand=8, chunks=8, a_chunks=3, a_stride=4, all_fns=False, reps=1),
    "thorough": dict(mc="MC_NumText_t.cfg", gen="Gen_NumText_t.cfg", nrand=120, chunks=12, a_chunks=8, a_stride=2, all_fns=False, reps=3),
}
JVM_SMALL = {"JAVA_TOOL_OPTIONS": "-XX:ParallelGCThreads=2 -XX:CICompilerCount=2"}
JVM_MID = {"JAVA_TOOL_OPTIONS": "-XX:ParallelGCThreads=4 -XX:CICompilerCount=3"}
ENV = {"ASAN_OPTIONS": vlib.ASAN_ENV + ":symbolize=0"}
DRV_TIMEOUT = 900

INTS = {"b": (1, 8), "y": (0, 8), "n": (1, 16), "q": (0, 16), "i": (1, 32), "u": (0, 32), "x": (1, 64), "t": (0, 64), "l": (1, 64)}
FLOATS = "fde"
ALLT = "bynqiuxtlfde"
FNS = {"b": ["int8", "char"], "n": ["int16"], "i": ["int32", "int"], "x": ["int64", "long"], "l": ["long"],
       "y": ["uint8", "uchar"], "q": ["uint16"], "u": ["uint32", "uint"], "t": ["uint64", "ulong"],
       "f": ["float"], "d": ["double"], "e": ["ldouble"]}
TSIZE = {"c": 1, "b": 1, "y": 1, "n": 2, "q": 2, "i": 4, "u": 4, "x": 8, "t": 8, "l": 8, "f": 4, "d": 8, "e": 10}


def enabled():
    """The part needs its fix commits (docs/X07_print.md) in the tree under test: it is switched on by the marker file
    checks/x07_print.accepted (created when those commits are integrated) or by VERIF_X07=1, off by VERIF_X07=0."""
    env = os.environ.get("VERIF_X07")
    if env is not None:
        return env not in ("0", "")
    return os.path.exists(os.path.join(vlib.ROOT, "checks", "x07_print.accepted"))


def build():
    return vlib.build_driver("numtext", ["numtext.c"])


# --------------------------------------------------------------------------
# transport: numbers and script lines
# --------------------------------------------------------------------------
def num_arg(v):
    if v["k"] == "nan":
        return "nan"
    if v["k"] == "inf":
        return "inf:%d" % v["neg"]
    return "fin:%d:%d:%s" % (v["neg"], v["e"], ",".join(str(x) for x in v["m"]) or "-")


def int_num(n):
    """Python integer -> number record (transport of an input)"""
    neg, m, limbs = (1 if n < 0 else 0), abs(n), []
    while m:
        limbs.append(m & 0xffff)
        m >>= 16
    return {"k": "fin", "neg": neg if limbs else 0, "m": limbs, "e": 0}


def bytes_arg(chars):
    return ",".join(str(c) for c in chars) or "-"


def sink_arg(arg):
    """sink policy of a print through the callback: all | part | cap (+ bytes taken per call)"""
    cb = arg.get("cb", "all")
    return " cb=%s" % cb + (" cap=%d" % arg.get("cap", 1) if cb == "cap" else "")


def sink_class(arg):
    return arg.get("cb", "all")


def step_line(st, mode=None):
    a, arg = st["a"], st["arg"]
    if a == "print":
        src = ("num=" + num_arg(arg["v"])) if "v" in arg else ("bytes=hex:" + arg["bytes"])
        ln = "print api=%s src=%s %s flags=%d width=%d dec=%d left=%d" % (arg["api"], arg["src"], src, arg["flags"], arg["width"],
                                                                       arg["dec"], arg["left"])
        if arg.get("cb"):
            ln += sink_arg(arg)
    elif a == "printvec":
        if "vs" in arg:
            el = "nums=" + (";".join(num_arg(v) for v in arg["vs"]) or "-")
        else:
            el = "elems=hex:" + arg["elems"]
        ln = "printvec src=%s %s left=%d%s" % (arg["src"], el, arg["left"], sink_arg(arg))
    elif a == "printobj":
        ln = "printobj types=%s elems=hex:%s left=%d%s" % ("".join(arg["types"]) or "-", arg["elems"], arg["left"], sink_arg(arg))
    elif a in ("fmt", "fmtlist"):
        ln = "%s api=%s chars=%s" % (a, arg.get("api", "parse"), bytes_arg(arg["chars"]))
    elif a == "dest":
        ln = "dest sep=%d max=%d chars=%s" % (arg["sep"], arg["max"], bytes_arg(arg["chars"]))
    elif a == "rtext":
        ln = "rtext fn=%s dst=%s base=%d chars=%s lo=%s hi=%s" % (arg["fn"], arg["dst"], arg["base"], bytes_arg(arg["chars"]),
                                                                 num_arg(arg["lo"]), num_arg(arg["hi"]))
    elif a == "vec":
        if "vs" in arg:
            el = "nums=" + (";".join(num_arg(v) for v in arg["vs"]) or "-")
        else:
            el = "elems=hex:" + arg["elems"]
        ln = "vec api=%s sk=%s src=%s dk=%s dst=%s %s" % (arg["api"], arg["sk"], arg["src"], arg["dk"], arg["dst"], el)
    elif a == "key":
        ln = "key sep=%s chars=%s" % (bytes_arg(arg["sep"]), bytes_arg(arg["chars"]))
    else:
        raise vlib.MachineryError("unknown step %r" % (st,))
    if mode:
        ln += " mode=" + mode
    return ln


def script(cases):
    out = []
    for i, st in enumerate(cases):
        out.append("B %d" % i)
        out.append(step_line(st))
    return "\n".join(out) + "\n"


def run_cases(exe, cases, parts=8):
    if not cases:
        return []
    parts = max(1, min(parts, len(cases) // 1500 + 1))
    size = (len(cases) + parts - 1) // parts
    chunks = [cases[i:i + size] for i in range(0, len(cases), size)]

    def one(ch):
        recs, _ = vlib.run_driver(exe, script(ch), timeout=DRV_TIMEOUT, env=ENV)
        by = {}
        for r in recs:
            by.setdefault(r.get("b"), r)
        return [by.get(i) for i in range(len(ch))]
    with ThreadPoolExecutor(max_workers=parts) as ex:
        res = list(ex.map(one, chunks))
    return [r for ch in res for r in ch]


# --------------------------------------------------------------------------
# binding A: equality / membership against what TLC stated in advance
# --------------------------------------------------------------------------
def numkey(n):
    return (n["k"], n["neg"], tuple(n["m"]), n["e"])


def match(exp, obs, step):
    """None when nothing TLC stated in advance is contradicted."""
    a = step["a"]
    r = obs.get("r")
    if r not in ("ok", "refused"):
        if r == "unstable":
            return "unstable: the printed text depends on the previous content of the buffer"
        raise vlib.MachineryError("driver answered %r for %r" % (obs, step))
    if "q" in obs and obs["q"] not in ("none", r):
        return "query: with destination %s, without destination %s" % (r, obs["q"])
    if obs.get("ov"):
        return "over: bytes outside the space handed to the call were written"
    if r == "refused":
        return None
    if a in ("print", "printvec"):
        if exp.get("must") == "refuse":
            return "truncated: accepted although the shortest numeral does not fit into %d bytes" % step["arg"]["left"]
        return None
    if a == "fmt":
        if obs["used"] >= len(exp["byused"]):
            return "used: %d characters reported as consumed of %d" % (obs["used"], len(exp["byused"]) - 1)
        e = exp["byused"][obs["used"]]
        if e["cls"] == "blank":
            return None
        if e["cls"] == "bad":
            return "numeral: the %d consumed characters describe no format with fields in range" % obs["used"]
        if not obs["st"]:
            return "store: accepted but the format was not written (consistently)"
        if obs["w"] != e["w"]:
            return "value: width stored %d, denoted %d" % (obs["w"], e["w"])
        if e["hasdec"] and obs["d"] != e["d"]:
            return "value: precision stored %d, denoted %d" % (obs["d"], e["d"])
        return None
    if a == "rtext":
        if obs["used"] >= len(exp["byused"]):
            return "used: %d characters reported as consumed of %d" % (obs["used"], len(exp["byused"]) - 1)
        e = exp["byused"][obs["used"]]
        if e["cls"] == "skip":
            return None
        if e["cls"] == "blank":
            return "blank: a value was stored for consumed blanks" if obs["st"] else None
        if e["cls"] == "bad":
            return "numeral: the %d consumed characters do not denote a number" % obs["used"]
        if not obs["st"] or not obs["sb"]:
            return "store: accepted but the target was not written (consistently)"
        if numkey(obs["w"]) not in [numkey(x) for x in e["allowed"]]:
            return "value: stored %s, admissible inside the range %s" % (json.dumps(obs["w"]), json.dumps(
                [{k: x[k] for k in ("k", "neg", "m", "e")} for x in e["allowed"]]) if e["allowed"] else "none (must refuse)")
        return None
    if a == "vec":
        if obs["rem"] != 0:
            return "length: the result is no whole number of elements"
        if len(obs["ws"]) != len(exp["allowed"]):
            return "length: %d elements for %d" % (len(obs["ws"]), len(exp["allowed"]))
        for i, (w, al) in enumerate(zip(obs["ws"], exp["allowed"])):
            if numkey(w) not in [numkey(x) for x in al]:
                return "value: element %d is %s, admissible %s" % (i, json.dumps(w), json.dumps(
                    [{k: x[k] for k in ("k", "neg", "m", "e")} for x in al]) if al else "none (must refuse)")
        return None
    return None


def design_equal(st, obs):
    """diagnostic only: does Tier 2 predict the code's answer?  None = not predicted"""
    des = (st.get("exp") or {}).get("design")
    if not des or des.get("r") == "skip" or (st["a"] == "rtext" and st["arg"]["dst"] in FLOATS):     # no model of strtod / "%a"
        return None
    if des["r"] != obs.get("r"):
        return False
    if obs.get("r") != "ok":
        return True
    a = st["a"]
    if a in ("print", "printvec"):
        return des["text"] == obs["text"] and ("off" not in des or des["off"] == obs.get("off"))
    if a == "fmt":
        return all(des[k] == obs[k] for k in ("used", "w", "d"))
    if a == "fmtlist":
        return des["used"] == obs["used"] and des["fmts"] == obs["fmts"]
    if a == "dest":
        return des["used"] == obs["used"] and des["set"] == obs["set"] and all(des["val"][p - 1] == obs["val"][p - 1] for p in obs["set"])
    if a == "rtext":
        return des["used"] == obs["used"] and (obs["st"] == 0 or numkey(des["w"]) == numkey(obs["w"]))
    if a == "vec":
        return [numkey(x) for x in des["ws"]] == [numkey(x) for x in obs["ws"]]
    return None


def fmt_class(arg, obs=None):
    fl = arg.get("flags", 0)
    if arg["src"] in FLOATS:
        c = "g" if not arg.get("dec") else ("f" if not fl & 0xf0 else "a" if fl & 0x10 else "e" if fl & 0x20 else "badflag")
    else:
        c = "dec" if not fl & 0xf else "hex" if fl & 1 else "oct" if fl & 2 else "badflag"
    v = arg.get("v") or (obs or {}).get("v")
    if v and v.get("neg"):
        c += "-neg"
    return c


def signature(step, why, obs=None):
    """x07:<action>:<call family / types>:<argument class>:<kind> -- computed from the failing step"""
    arg = step["arg"]
    kind = why.split(":")[0].lower()
    a = step["a"]
    if a == "print":
        return "x07:print:%s:%s:%s%s:%s" % (arg["api"], arg["src"], fmt_class(arg, obs), ("," + sink_class(arg)) if arg.get("cb") else "", kind)
    if a == "printvec":
        return "x07:printvec:%s:%s:%s" % (arg["src"], sink_class(arg), kind)
    if a == "printobj":
        return "x07:printobj:%s:%s" % (sink_class(arg), kind)
    if a in ("fmt", "fmtlist"):
        return "x07:%s:%s:%s" % (a, arg.get("api", "parse"), kind)
    if a == "dest":
        return "x07:dest:sep=%s:%s" % ("none" if not arg["sep"] else "yes", kind)
    if a == "rtext":
        return "x07:rtext:%s:%s:%s" % (arg["fn"], arg["dst"], kind)
    if a == "vec":
        return "x07:vec:%s:%s:%s>%s:%s:%s" % (arg["api"], arg["sk"], arg["src"], arg["dk"], arg["dst"], kind)
    return "x07:%s:%s" % (a, kind)


def expand_gen(behs, cfg):
    """One TLC case -> the driver cases exercising it."""
    cases = []
    for beh in behs:
        st = beh[0]
        arg = st["arg"]
        a = st["a"]
        if a == "rtext":
            fns = FNS[arg["dst"]]
            for fn in (fns if cfg["all_fns"] else fns[:1]):
                cases.append({"a": a, "arg": dict(arg, fn=fn), "exp": st["exp"]})
        elif a == "fmt":
            cases.append(st)
            cases.append({"a": a, "arg": dict(arg, api="cstr"), "exp": st["exp"]})
        elif a == "fmtlist":
            cases.append({"a": a, "arg": dict(arg, api="parse"), "exp": st["exp"]})
        else:
            cases.append(st)
    return cases


# --------------------------------------------------------------------------
# binding B: inputs at full width (no expected values here)
# --------------------------------------------------------------------------
def int_bytes(v, bits):
    return (v & ((1 << bits) - 1)).to_bytes(bits // 8, "little").hex()


def ext_bytes(sign, exp, mant):
    return (mant.to_bytes(8, "little") + ((sign << 15) | exp).to_bytes(2, "little")).hex()


def ldbl_of(x):
    """hex of the x87 encoding of a Python float (transport)"""
    if x != x:
        return ext_bytes(0, 32767, (1 << 63) | (1 << 62))
    sign = 1 if struct.pack(">d", x)[0] & 0x80 else 0
    x = abs(x)
    if x == 0:
        return ext_bytes(sign, 0, 0)
    if x == float("inf"):
        return ext_bytes(sign, 32767, 1 << 63)
    import math
    m, e = math.frexp(x)                     # x = m * 2^e, 0.5 <= m < 1
    mant = int(m * (1 << 64))
    return ext_bytes(sign, e - 1 + 16383, mant)


def int_values(rng, t, nrand):
    sg, bits = INTS[t]
    lo, hi = (-(1 << (bits - 1)), (1 << (bits - 1)) - 1) if sg else (0, (1 << bits) - 1)
    vals = {0, 1, 7, 8, 9, 10, 15, 16, 63, 64, 99, 100, 255, 256, lo, hi, lo + 1, hi - 1, -1, -2, -8, -10, -16, -128, -255}
    for k in range(1, 65):
        for d in (-1, 0, 1):
            vals.add((1 << k) + d)
            vals.add(-((1 << k) + d))
    for p in range(1, 20):
        vals.update([10 ** p, 10 ** p - 1, -(10 ** p), -(10 ** p) + 1])
    for _ in range(nrand):
        vals.add(rng.randrange(lo, hi + 1))
        vals.add(rng.randrange(lo, hi + 1) >> rng.randrange(bits))
    return sorted(v for v in vals if lo <= v <= hi)


NICE = [0.0, -0.0, 0.1, -0.1, 0.5, 1.0, -1.0, 1.5, 2.5, 3.5, 0.125, 1 / 3.0, 2 / 3.0, 9.5, 9.99, 99.95, 999999.5, 999999.4, 1e5, 1e6,
        123456.0, 1234567.0, 0.0001, 0.00001, 0.000123456, 1e15, 1e16, 1e17, 9007199254740993.0, 1e21, 1e22, 1e23, 1e-5, 1e-7, 5e-324,
        2.2250738585072014e-308, 1.7976931348623157e308, 3.4028234663852886e38, 1.1754943508222875e-38, 1.401298464324817e-45,
        16777216.0, 16777217.0, 4294967296.0, 1.8446744073709552e19, 0.3, 0.7, 2.675, 1.005, 1e100, 1e-100, 1e300, 1e-300, 8.5, 0.15,
        123.456, float("inf"), float("-inf"), float("nan")]


def float_values(rng, t, nrand):
    """raw encodings (hex) of floating sources"""
    import c07
    out = set(c07.float_patterns(type("K", (), {"rng": rng})(), t, {"nrand": max(nrand // 2, 2)}))
    for x in NICE:
        if t == "f":
            try:
                out.add(struct.pack("<f", x).hex())
            except OverflowError:
                pass
        elif t == "d":
            out.add(struct.pack("<d", x).hex())
        else:
            out.add(ldbl_of(x))
    if t == "e":
        # exact powers of ten near 10^+-4900 cost TLC ~0.5 s per judgement: a bounded number of extreme exponents
        def extreme(hx):
            ex = int.from_bytes(bytes.fromhex(hx)[8:10], "little") & 0x7fff
            return ex != 32767 and abs(ex - 16383) > 1100
        ext = sorted(h for h in out if extreme(h))
        keep = set(rng.sample(ext, min(len(ext), 6 + nrand // 3)))
        out = {h for h in out if h in keep or not extreme(h)}
    return sorted(out)


def gen_print_cases(rng, cfg):
    cases = []
    nr = cfg["nrand"]
    iflags = [0, 0, 1, 2, 256, 257, 258, 512, 513, 768, 3, 4, 8, 16, 32]
    for t in INTS:
        bits = INTS[t][1]
        vals = int_values(rng, t, nr)
        for v in vals:
            hx = int_bytes(v, bits)
            digs = len(str(abs(v))) + (1 if v < 0 else 0)
            for _ in range(cfg["reps"] if len(vals) > 150 else cfg["reps"] + 1):
                fl = rng.choice(iflags)
                wd = rng.choice([0, 0, 0, 1, 5, digs, digs + 1, 20, 64, 255])
                left = rng.choice([0, 1, 2, digs - 1, digs, digs + 1, digs + 2, 12, 17, 18, 23, 24, wd, wd + 1, 64, 65, 66, 256, 257, 300])
                cases.append({"a": "print", "arg": {"api": "num", "src": t, "bytes": hx, "flags": fl, "width": wd, "dec": rng.choice([0, 0, 3]),
                                                    "left": max(left, 0)}})
            # exact fit / one short, every radix
            for fl in (0, 1, 2, 256):
                for left in (digs, digs + 1):
                    if rng.random() < 0.08 * cfg["reps"]:
                        cases.append({"a": "print", "arg": {"api": "num", "src": t, "bytes": hx, "flags": fl, "width": 0, "dec": 0, "left": left}})
    fflags = [0, 0, 32, 32, 16, 256, 288, 272, 512, 544, 48, 64, 128, 1]
    rtdec = {"f": [8, 9], "d": [16, 17], "e": [20, 21]}
    for t in FLOATS:
        vals = float_values(rng, t, nr)
        for hx in vals:
            for _ in range(cfg["reps"]):
                fl = rng.choice(fflags)
                dec = rng.choice([0, 0, 1, 2, 3, 5, 6, 8, 9, 15, 16, 17, 18, 20, 21, 30, 40, 100, 126, 255])
                wd = rng.choice([0, 0, 0, 10, 30, 255])
                left = rng.choice([0, 1, 4, 8, 12, 16, 25, 32, 64, 128, 400, 5300, 12000])
                cases.append({"a": "print", "arg": {"api": "num", "src": t, "bytes": hx, "flags": fl, "width": wd, "dec": dec, "left": left}})
            # round-trip precision, scientific and hexadecimal, room enough
            for dec in rtdec[t]:
                cases.append({"a": "print", "arg": {"api": "num", "src": t, "bytes": hx, "flags": 32, "width": 0, "dec": dec, "left": 64}})
            cases.append({"a": "print", "arg": {"api": "num", "src": t, "bytes": hx, "flags": 16, "width": 0, "dec": rng.choice([13, 15, 16, 6]), "left": 64}})
            cases.append({"a": "print", "arg": {"api": "num", "src": t, "bytes": hx, "flags": 0, "width": 0, "dec": 0, "left": 64}})
    # printed through the callback with the default format
    for t in list(INTS) + list(FLOATS) + ["c"]:
        if t == "c":
            vals = [int_bytes(v, 8) for v in (0, 32, 65, 126, 127, 200, 255)]
        elif t in INTS:
            vs = int_values(rng, t, 2)
            vals = [int_bytes(v, INTS[t][1]) for v in rng.sample(vs, min(len(vs), 25 + nr))]
        else:
            vs = float_values(rng, t, 2)
            vals = rng.sample(vs, min(len(vs), 25 + nr))
        for hx in vals:
            for api in ("value", "conv"):
                for cb in ("all", "part", "cap"):
                    left = rng.choice([0, 1, 2, 3, 5, 8, 12, 13, 20, 21, 25, 64, 300])
                    arg = {"api": api, "src": t, "bytes": hx, "flags": 0, "width": 0, "dec": 0, "left": left, "cb": cb}
                    if cb == "cap":          # the sink takes at most cap bytes of every piece offered
                        arg["cap"] = rng.choice([1, 2, 3, 5, 8, 30])
                        arg["left"] = rng.choice([left, 64, 300])
                    cases.append({"a": "print", "arg": arg})
    return cases


def rand_elem(rng, t):
    if t in INTS:
        bits = INTS[t][1]
        sg = INTS[t][0]
        lo, hi = (-(1 << (bits - 1)), (1 << (bits - 1)) - 1) if sg else (0, (1 << bits) - 1)
        v = rng.choice([0, 1, lo, hi, rng.randrange(lo, hi + 1), rng.randrange(lo, hi + 1) >> rng.randrange(bits)])
        return int_bytes(v, bits)
    x = rng.choice(NICE + [rng.uniform(-1000, 1000), rng.uniform(-1, 1) * 10 ** rng.randrange(-30, 30)])
    if t == "f":
        try:
            return struct.pack("<f", x).hex()
        except OverflowError:
            return struct.pack("<f", 1.0).hex()
    if t == "d":
        return struct.pack("<d", x).hex()
    return ldbl_of(x)


def gen_vec_cases(rng, cfg):
    cases = []
    for t in ALLT + "c":
        for n in (0, 1, 2, 5, 40):
            for _ in range(1 + cfg["nrand"] // 10):
                if t == "c":
                    el = "".join("%02x" % rng.choice([65, 66, 48, 32, 122, 200, 1]) for _ in range(n))
                else:
                    el = "".join(rand_elem(rng, t) for _ in range(n))
                # (a character vector is handed on as text: only the all-or-nothing sink)
                cases.append({"a": "printvec", "arg": {"src": t, "elems": el, "left": rng.choice([0, 1, 2, 3, 5, 10, 40, 64, 200, 3000]),
                                                       "cb": "all" if t == "c" else rng.choice(["all", "all", "part"])}})
                if t != "c" and n in (1, 2, 5):
                    # short-writing sink with room enough: every piece is cut to at most cap bytes
                    for cap in (1, 3, rng.choice([2, 4, 5, 8, 12, 30])):
                        cases.append({"a": "printvec", "arg": {"src": t, "elems": el, "left": rng.choice([200, 3000]), "cb": "cap", "cap": cap}})
    for _ in range(20 + 3 * cfg["nrand"]):
        ts = [rng.choice(ALLT) for _ in range(rng.randrange(0, 7))]
        el = "".join(rand_elem(rng, t).ljust(32, "0") for t in ts)
        cb = rng.choice(["all", "all", "part", "cap"])
        cases.append({"a": "printobj", "arg": dict({"types": ts, "elems": el, "left": rng.choice([0, 1, 2, 5, 9, 20, 40, 64, 200, 1000]), "cb": cb},
                                                   **({"cap": rng.choice([1, 2, 3, 6, 30]), "left": 1000} if cb == "cap" else {}))})
    combos = [("value", "scalar"), ("data", "scalar"), ("value", "vec"), ("value", "array"), ("array", "array")]
    for api, sk in combos:
        for src in ALLT + "c":
            for dk in ("vec", "gen", "scalar"):
                for dst in ALLT + "c":
                    if dk == "gen" and dst != src:
                        continue
                    ns = (1,) if sk == "scalar" else ((0, 1, 3) if (src == dst or rng.random() < 0.2) else (rng.choice([0, 1, 2]),))
                    for n in ns:
                        el = "".join(rand_elem(rng, src) if src != "c" else "41" for _ in range(n))
                        cases.append({"a": "vec", "arg": {"api": api, "sk": sk, "src": src, "dk": dk, "dst": dst, "elems": el}})
    return cases


WIDTHS = ["0", "1", "9", "10", "25", "255", "256", "0377", "0400", "0xff", "0x100", "0xFF", "99999999999999999999", "18446744073709551616",
          "-1", "-0", "+5", " 7", "08", "0x", "1e2", "", "300", "4294967296", "4294967297", "65536", "512"]
DECS = [None, "0", "1", "6", "126", "127", "128", "0x7e", "0176", "0177", "255", "256", "383", "99999999999999999999", "-1", "+3", " 2", "", "09",
        "4294967296", "4294967302", "65542"]


def gen_fmt_texts(rng, cfg):
    texts = set()
    for lead in ("", " ", "\t "):
        for sign in ("", "+"):
            for letter in ("", "f", "g", "a", "x", "o", "e", "F", "E", "G", "X", "z", "d", "-"):
                for w in WIDTHS:
                    if rng.random() > (0.12 if cfg["nrand"] < 50 else 0.6) and not (lead == "" and sign == "" and letter in ("", "f")):
                        continue
                    d = rng.choice(DECS) if not (lead == "" and sign == "" and letter == "f") else None
                    for dd in ([d] if d is not None or letter != "f" else DECS):
                        t = lead + sign + letter + w + ("" if dd is None else "." + dd) + rng.choice(["", "", "", " ", " x", "x", ".", ".5", " 3"])
                        texts.add(t)
    texts.update(["", " ", "   ", "+", "f", "f.", "f.3", "+f", "f1.", "f1.2.3", "10.6", "f 5", "f+5", "f-5", "f5 .2", "f5. 2", "\xe9", "f\xe9",
                  "5\xe9", "f0x1f.0x10", "f017.010", "f1" + "0" * 40, "f0." + "9" * 40, "e255.126", "e255.127", "e256.1", "x+0x10"])
    return sorted(texts)


def gen_text_cases(rng, cfg):
    cases = []
    ftexts = gen_fmt_texts(rng, cfg)
    for t in ftexts:
        chars = list(t.encode("latin-1", "replace"))
        if 0 in chars:
            continue
        for api in ("get", "cstr"):
            cases.append({"a": "fmt", "arg": {"api": api, "chars": chars}})
    good = [t for t in ftexts if t.strip() and " " not in t.strip() and len(t) < 12]
    for _ in range(40 + 6 * cfg["nrand"]):
        k = rng.randrange(0, 5)
        parts = [rng.choice(good).strip() for _ in range(k)]
        t = rng.choice(["", " ", "  "]) + rng.choice([" ", "  ", "\t"]).join(parts) + rng.choice(["", "", " ", "  ", "\n"])
        for api in ("parse", "set"):
            cases.append({"a": "fmtlist", "arg": {"api": api, "chars": list(t.encode("latin-1", "replace"))}})
    for t in ["", " ", "f3", "f3 ", " f3", "f3.1 e8.2", "f3.1  e8.2 ", "f3.1 e8.2  \t", "f3 x", "f3 256", "f3\tf4\nf5", "1 2 3 4 5 6 7 8 9 10 11 12",
              "0.09", "f3.08", "f5.126 f5.127"]:
        for api in ("parse", "set"):
            cases.append({"a": "fmtlist", "arg": {"api": api, "chars": list(t.encode())}})
    # destinations
    nums = ["0", "1", "7", "255", "256", "0xff", "0x100", "0377", "0400", "-0", "-1", "+9", "", "300", "99999999999999999999999", " 5", "5 ",
            "08", "0x", "4294967296", "4294967297", "-4294967295", "18446744073709551617", "65536", "1e1", "2.5"]
    for _ in range(150 + 20 * cfg["nrand"]):
        sep = rng.choice([58, 58, 44, 0, 46])
        k = rng.randrange(1, 10)
        t = rng.choice(["", "", " ", "\t "]) + (chr(sep) if sep else " ").join(rng.choice(nums) for _ in range(k)) + rng.choice(["", "", " ", ":", " x", "x"])
        cases.append({"a": "dest", "arg": {"sep": sep, "max": rng.choice([1, 2, 3, 7, 7, 7]), "chars": list(t.encode())}})
    for t in ["", " ", ":", "::", "1", "1:", ":1", "1::3", "1:2:3:4:5:6:7", "1:2:3:4:5:6:7:8", "255:256", "1: 2", "1 :2", "1:x", "x", "300",
              "0x10:010:10", "1:2 3", "-1", "1:-1", "1:+2:-0"]:
        for mx in (1, 3, 7):
            cases.append({"a": "dest", "arg": {"sep": 58, "max": mx, "chars": list(t.encode())}})
    # keys
    for t in ["", " ", "abc", "  abc", "abc def", "abc:def", " a b : c", "a:", ":a", "a\tb", "abc  ", "  a  :b", "a;b:c", "::", "a b"]:
        for sep in ([], [58], [58, 32], [59, 58], [32]):
            cases.append({"a": "key", "arg": {"sep": sep, "chars": list(t.encode())}})
    return cases


def gen_range_cases(rng, cfg):
    cases = []
    for dst, fns in FNS.items():
        if dst in FLOATS:
            continue
        sg, bits = INTS[dst]
        lo, hi = (-(1 << (bits - 1)), (1 << (bits - 1)) - 1) if sg else (0, (1 << bits) - 1)
        cands = sorted({0, 1, -1, 5, 100, -100, lo, hi, lo + 1, hi - 1, lo - 1, hi + 1, hi // 2, 1 << 64, -(1 << 63) - 1})
        for fn in fns:
            for v in cands:
                inr = [x for x in (v - 1, v, v + 1, 0, lo, hi, lo // 2, hi // 2) if lo <= x <= hi]
                if not inr:
                    inr = [lo, hi]
                ranges = {(lo, hi), (hi, lo)}
                for a in inr[:3]:
                    for b in inr[:3]:
                        ranges.add((a, b))
                ranges.add((min(max(v + 1, lo), hi), hi))
                ranges.add((lo, max(min(v - 1, hi), lo)))
                for (a, b) in sorted(ranges):
                    for form in ("%d", "0x%x", " %d", "%dz"):
                        if rng.random() > (0.6 if form == "%d" else 0.2) * (1 if cfg["reps"] > 1 else 0.5):
                            continue
                        txt = (form % v) if v >= 0 or "x" not in form else "-" + (form % -v)
                        cases.append({"a": "rtext", "arg": {"fn": fn, "dst": dst, "base": 0, "chars": list(txt.encode()),
                                                            "lo": int_num(a), "hi": int_num(b)}})
    fl = lambda m, e, neg=0: {"k": "fin", "neg": neg, "m": [m] if m else [], "e": e if m else 0}
    inf = lambda neg: {"k": "inf", "neg": neg, "m": [], "e": 0}
    nan = {"k": "nan", "neg": 0, "m": [], "e": 0}
    franges = [(fl(0, 0), fl(1, 0)), (fl(1, 0, 1), fl(1, 0)), (fl(0, 0), fl(1, 24)), (fl(1, 24), fl(1, 25)), (fl(1, -1), fl(1, -1)),
               (inf(1), inf(0)), (fl(0, 0), inf(0)), (inf(1), fl(0, 0)), (fl(1, 0), fl(0, 0)), (nan, fl(1, 0)), (fl(0, 0), nan),
               (fl(1, -149), fl(1, 100)), (fl(1, 0), fl(1, 0)), (fl(3, -2), fl(5, -2))]
    ftexts = ["0", "-0", "0.5", "0.1", "1", "1.0000001", "0.99999999", "16777217", "16777216", "33554432", "33554433", "1e10", "-1", "-1.5", "inf",
              "-inf", "nan", "1e-50", "1e39", "1e309", "0.75", "1.25", "1.2500000001", "0x1p-1", " 1", "1x", "1e", "", " ", "x"]
    for dst in FLOATS:
        for t in ftexts:
            for (a, b) in franges:
                if cfg["reps"] == 1 and rng.random() > 0.4:
                    continue
                cases.append({"a": "rtext", "arg": {"fn": FNS[dst][0], "dst": dst, "base": 0, "chars": list(t.encode()), "lo": a, "hi": b}})
    return cases


# --------------------------------------------------------------------------
# TLC judges the recorded events
# --------------------------------------------------------------------------
def validate_events(events, nchunks, tag):
    """TLC judges every event; returns (rejected event indices, matched count, transitions).  Events are dealt out
    round-robin so that the expensive ones (long-double prints with huge exponents) are spread over the TLC processes."""
    if not events:
        return [], 0, 0
    nchunks = max(1, min(nchunks, len(events) // 400 + 1), (len(events) + 29999) // 30000)
    spans = [(k, events[k::nchunks]) for k in range(nchunks)]

    def one(sp):
        k, evs = sp
        ok, matched, res = vlib.validate_trace("Trace_NumText", evs, tag="%s-%d" % (tag, k), xss="1g", timeout=1400, extra_env=JVM_SMALL)
        rej = [k + (int(x) - 1) * nchunks for x in re.findall(r'<<"REJECT", (\d+)>>', res.out)]
        if matched != len(evs):
            raise vlib.MachineryError("trace validation stopped at event %d of %d:\n%s" % (matched, len(evs), res.out[-2000:]))
        return rej, matched, res.generated
    with ThreadPoolExecutor(max_workers=min(nchunks, 12)) as ex:
        out = list(ex.map(one, spans))
    return sorted(r for o in out for r in o[0]), sum(o[1] for o in out), sum(o[2] for o in out)


def to_events(cases, recs):
    ev = []
    for i, (st, r) in enumerate(zip(cases, recs)):
        e = {"a": st["a"], "arg": st["arg"], "b": i, "i": 0}
        if r is None:
            e["a"] = "Missing"
        elif r.get("a") in ("Crash", "Hang", "Garbled"):
            e["a"] = r["a"]
        else:
            e["obs"] = r.get("obs") or {}
            if e["obs"].get("r") not in ("ok", "refused", "unstable"):
                raise vlib.MachineryError("driver answered %r for %r" % (r, st))
        ev.append(e)
    return ev


def reject_kind(st, ev):
    if ev["a"] in ("Crash", "Hang"):
        return ev["a"].lower()
    if ev["a"] == "Missing":
        return "missing"
    o = ev.get("obs") or {}
    if "q" in o and o["q"] not in ("none", o.get("r")):
        return "query"
    if o.get("ov"):
        return "over"
    if o.get("r") == "unstable":
        return "unstable"
    return "rejected"


class _Limit:
    """at most three violation files per signature"""

    def __init__(self, ck):
        self.ck = ck
        self.n = {}

    def violation(self, sig, detail):
        self.n[sig] = self.n.get(sig, 0) + 1
        if self.n[sig] > 3:
            notes = self.ck.notes.setdefault("x07_print", {})
            notes["violations_not_written"] = notes.get("violations_not_written", 0) + 1
            return
        detail = dict(detail, part="x07_print")
        self.ck.violation(sig, detail)


def run_part(ck, tier):
    cfg = CFG[tier]
    t0 = time.time()
    exe = build()
    lim = _Limit(ck)
    notes = ck.notes.setdefault("x07_print", {})
    pool = ThreadPoolExecutor(max_workers=4)

    # 1. model level (scaled types) and case export (real widths), side by side
    f_gen = pool.submit(vlib.tlc_to_file, "Gen_NumText", cfg["gen"], os.path.join(vlib.ensure(os.path.join(vlib.WORK, "X07")),
                                                                                   "gen-%d.out" % os.getpid()), 6, 1400, "8g",
                        dict(JVM_MID, JAVA_TOOL_OPTIONS=JVM_MID["JAVA_TOOL_OPTIONS"] + " -Xss256m"))

    f_mc = pool.submit(vlib.tlc, "MC_NumText", cfg["mc"], 4 if tier == "quick" else 8, xss="256m", tag="MC_NumText", env=JVM_MID)

    # 2. binding B inputs, executed while TLC runs
    rng = ck.rng
    bcases = gen_print_cases(rng, cfg) + gen_vec_cases(rng, cfg) + gen_text_cases(rng, cfg) + gen_range_cases(rng, cfg)
    brecs = run_cases(exe, bcases)
    bevents = to_events(bcases, brecs)
    vlib.log("x07 B: %d calls executed (%.1fs)" % (len(bcases), time.time() - t0))
    f_valb = pool.submit(validate_events, bevents, cfg["chunks"], "Trace_NumText_B")

    # 3. binding A
    gen = f_gen.result()
    gpath = os.path.join(vlib.WORK, "X07", "gen-%d.out" % os.getpid())
    if gen.error:
        raise vlib.MachineryError("x07 case export failed: %s" % gen.error)
    with open(gpath, errors="replace") as fh:
        gout = fh.read()
    os.unlink(gpath)
    if re.search(r"Error: (Invariant \S+ is violated|Assumption .* is false)", gout):
        gen.violation = re.search(r"Error: (Invariant \S+ is violated|Assumption .* is false)", gout).group(1)
        gen.out = "\n".join(l for l in gout.splitlines() if not l.startswith('<<"BEHAV"'))[-6000:]
    ck.add_tlc(gen, "x07 real-width cases + invariants " + cfg["gen"])
    behs = vlib.parse_behaviours(gout)
    del gout
    if not behs:
        raise vlib.MachineryError("x07 case export produced nothing")
    acases = expand_gen(behs, cfg)
    vlib.log("x07 A: %d cases exported by TLC (%.1fs)" % (len(acases), time.time() - t0))
    arecs = run_cases(exe, acases)
    aevents = to_events(acases, arecs)
    # every record of binding A is judged by TLC as well (stride in the quick tier; refusals carry no judgement)
    asel = [i for i, e in enumerate(aevents) if e["a"] != acases[i]["a"] or (e.get("obs") or {}).get("r") != "refused"]
    asel = asel[::cfg["a_stride"]]
    f_vala = pool.submit(validate_events, [aevents[i] for i in asel], cfg["a_chunks"], "Trace_NumText_A")
    n_des = n_des_eq = n_acc = n_must = 0
    nontriv = set()
    for st, rec in zip(acases, arecs):
        why = None
        if rec is None:
            why = "Missing"
        elif rec.get("a") in ("Crash", "Hang", "Garbled"):
            why = rec["a"]
        else:
            obs = rec.get("obs") or {}
            why = match(st["exp"], obs, st)
            de = design_equal(st, obs)
            if de is not None:
                n_des += 1
                n_des_eq += 1 if de else 0
            if obs.get("r") == "ok":
                n_acc += 1
                nontriv.add(step_line(st))
            elif st["a"] == "print" and st["exp"].get("must") == "refuse":
                n_must += 1
                nontriv.add(step_line(st))
        if why:
            lim.violation(signature(st, why, (rec or {}).get("obs")), {"binding": "A(replay)", "behaviour": [st], "why": why, "record": rec})
    ck.cov["evaluations"] += len(acases)
    notes["replayed_cases"] = len(acases)
    notes["replayed_accepted"] = n_acc
    notes["replayed_refusal_obliged"] = n_must
    notes["design_prediction_equal_to_code"] = "%d of %d (diagnostic: how closely Tier 2 mirrors the code; not a verdict)" % (n_des_eq, n_des)
    vlib.log("x07 A: compared (%.1fs)" % (time.time() - t0))

    # 4. TLC's verdicts on the recorded events
    total_ok = 0
    for name, fut, cases, events, sel in (("B", f_valb, bcases, bevents, None), ("A", f_vala, acases, aevents, asel)):
        rejected, matched, trans = fut.result()
        evs = events if sel is None else [events[i] for i in sel]
        idx = (lambda j: j) if sel is None else (lambda j: sel[j])
        ck.cov["transitions"] += trans
        confirmed = []
        if rejected:
            sub = [evs[j] for j in rejected]
            rej2, _, _ = validate_events(sub, 4, "Trace_NumText_re" + name)     # re-run before reporting
            confirmed = [rejected[j] for j in rej2]
        for j in confirmed:
            st, ev = cases[idx(j)], evs[j]
            kind = reject_kind(st, ev)
            lim.violation("trace:" + signature(st, kind, ev.get("obs")), {"binding": "B(trace validation)", "behaviour": [{"a": st["a"], "arg": st["arg"]}],
                                                           "why": kind + ": event not admitted by NumText", "event": {k: ev[k] for k in ev if k != "exp"}})
        total_ok += matched - len(confirmed)
        notes["trace_events_" + name] = matched
        notes["trace_events_rejected_" + name] = len(confirmed)
        vlib.log("x07 %s: %d events judged by TLC, %d rejected (%.1fs)" % (name, matched, len(confirmed), time.time() - t0))
    for st, ev in zip(bcases, bevents):
        if (ev.get("obs") or {}).get("r") == "ok":
            nontriv.add(step_line(st))
    ck.cov["traces_validated_against_impl"] += total_ok
    ck.cov["evaluations"] += len(bevents)
    ck.cov["distinct_nontrivial"] += len(nontriv)
    notes["seeded_calls"] = len(bcases)
    notes["seeded_calls_by_action"] = {a: sum(1 for c in bcases if c["a"] == a) for a in sorted({c["a"] for c in bcases})}
    notes["seeded_calls_accepted_by_code"] = sum(1 for e in bevents if (e.get("obs") or {}).get("r") == "ok")

    ck.add_tlc(f_mc.result(), "x07 scaled types " + cfg["mc"])
    pool.shutdown()
    notes["wall_s"] = round(time.time() - t0, 1)
    notes["rule"] = ("Model: every value of the scaled types x format set x buffer sizes; every string over the alphabets up to the "
                     "length bound (formats, destinations, ranged numerals); vectors up to VecLen (exhaustive).  A: every "
                     "TLC-enumerated real-width case.  B: seeded full-width inputs; every accepted record of A and B judged by TLC.  "
                     "Non-trivial = the code accepted and the result was judged, or TLC obliged a refusal; distinct by call line.")
    mid = len(acases) // 2
    ck.cov["samples"] = ck.cov.get("samples", []) + [vlib.sample_repr([acases[mid]]),
                                                     [{"a": e["a"], "arg": e["arg"], "obs": e.get("obs")} for e in bevents[:1]]]
    ck.assumptions += ["x07: drv/numtext.c copies bytes, transliterates type values to limbs (frexp/ldexp, two's complement) and maps "
                       "return codes to ok/refused without judgement; the re-parse of printed text uses the library's own parsers",
                       "x07: floating prints: within one unit of the last printed place, strictly inside the rounding interval from "
                       "9/17/21 significant digits on; which of two neighbouring decimals is printed is not decided",
                       "x07: '%a' output and floating prints at real widths have no Tier 2 model (judged by Tier 1 on recorded events only)"]
    return ck


def replay(det, path=""):
    beh = det.get("behaviour")
    if not beh:
        print(json.dumps(det, indent=1)[:4000])
        return 2
    exe = build()
    st = beh[0]
    recs = run_cases(exe, [st], parts=1)
    rec = recs[0]
    if rec is None or rec.get("a") in ("Crash", "Hang", "Garbled"):
        print("VIOLATION property=C07 replay=%s  (%s: %s)" % (path, signature(st, "crash"), rec))
        return 1
    if "exp" in st and st["exp"]:
        why = match(st["exp"], rec.get("obs") or {}, st)
        if why:
            print("VIOLATION property=C07 replay=%s  (%s: %s)" % (path, signature(st, why), why))
            return 1
    events = to_events([{"a": st["a"], "arg": st["arg"]}], recs)
    rej, _, _ = validate_events(events, 1, "Trace_NumText_replay")
    if rej:
        print("VIOLATION property=C07 replay=%s  (event not admitted by NumText: %s)" % (path, json.dumps(events[0])[:600]))
    return 1 if rej else 0
