"""X22 -- extension of C10 (spec/Mapping.tla): the second keyed store of the library, the table that binds data
sources to plot destinations: mpt_mapping_add / mpt_mapping_del / mpt_mapping_cmp (mptplot/mapping.c), the mpt++
wrapper graphic::mapping (add / del / destinations / clear, destination registry set_cycle / cycle / clear_cycles;
mpt++/mapping.cpp, destination.cpp) and the text front ends mpt_output_bind_string, mpt_output_bind_list,
mpt_valsrc_state, mpt_output_init_plot.

run_part(ck, tier) adds its TLC results, replay / trace counts, violations and notes to the given vlib.Check of C10.
All judgement is TLC's: Python transports calls and expected answers from the specification to the drivers
(drv/mapping.c, drv/mapping_cxx.cpp), compares for equality (for a binding text: membership of the observed result in
the list of permitted results the specification computed) and counts."""
import json
import os
import random
import re
import sys
import threading

sys.path.insert(0, os.path.join(os.path.dirname(os.path.abspath(__file__)), "..", "bin"))
import vlib

TAG = "X22"
FAST_ENV = {"ASAN_OPTIONS": vlib.ASAN_ENV + ":symbolize=0"}

CFG = {
    "quick": dict(mc=["MC_Mapping.cfg", "MC_Mapping_cxx.cfg", "MC_Mapping_text.cfg"],
                  gen=[("Gen_Mapping.cfg", "c"), ("Gen_Mapping_cxx.cfg", "cxx"), ("Gen_Mapping_text.cfg", "c"),
                       ("Gen_Mapping_pure.cfg", "c")],
                  nhist=12, steps=70),
    "thorough": dict(mc=["MC_Mapping_t.cfg", "MC_Mapping_k3.cfg", "MC_Mapping_k4_t.cfg", "MC_Mapping_cxx_t.cfg", "MC_Mapping_text_t.cfg"],
                     gen=[("Gen_Mapping_t.cfg", "c"), ("Gen_Mapping_d3_t.cfg", "c"), ("Gen_Mapping_cxx_t.cfg", "cxx"),
                          ("Gen_Mapping_text_t.cfg", "c"), ("Gen_Mapping_pure_t.cfg", "c")],
                     nhist=40, steps=120),
}
# the universe of the trace configurations (spec/Trace_Mapping.tla: TDims, TMasks, TClis, TPaths); the init event
# carries it and TLC refuses a trace whose universe is not the configuration's
T_DIMS, T_MASKS, T_CLIS = [0, 1, 2], [1, 2, 7, 8], [0, 1, 65535]
T_PATHS = [[1, 1, 1], [1, 1, 2], [1, 2, 1], [2, 1, 1], [2, 1, 2], [255, 255, 255]]
TABLE_ACTIONS = ("init", "add", "del", "clear", "setcycle", "clearcycles")


def enabled():
    """The part needs its fix commits (docs/X22_mapping.md) in the tree under test: it is switched on by the marker
    file checks/x22_mapping.accepted (created when those commits are integrated) or by VERIF_X22=1, off by VERIF_X22=0."""
    env = os.environ.get("VERIF_X22")
    if env is not None:
        return env not in ("0", "")
    return os.path.exists(os.path.join(vlib.ROOT, "checks", "x22_mapping.accepted"))


def build():
    return {"c": vlib.build_driver("mapping", ["mapping.c"], libs=("mptplot", "mptcore")),
            "cxx": vlib.build_driver("mapping_cxx", ["mapping_cxx.cpp"], libs=("mpt++", "mptplot", "mptcore"), cxx=True)}


# ---------------------------------------------------------------------------
# script language (transport only)
def hexs(s):
    return "hex:" + s.encode("latin-1").hex()


def fmt_step(st, quiet):
    toks = [st["a"]]
    for k, v in (st.get("arg") or {}).items():
        if k in ("items", "gaps"):            # the structure behind "text" (for the specification only)
            continue
        if k == "text":
            toks.append("text=" + hexs(v))
        elif k in ("names", "vals"):
            toks.append("%s=%s" % (k, ";".join(x.encode("latin-1").hex() if x else "-" for x in v)))
        else:
            toks.append("%s=%s" % (k, vlib.fmt_val(v)))
    if quiet:
        toks.append("q=1")
    return " ".join(toks)


def script(behs, quiet_prefix=True):
    lines = []
    for i, beh in enumerate(behs):
        lines.append("B %d" % i)
        for j, st in enumerate(beh):
            lines.append(fmt_step(st, quiet_prefix and j < len(beh) - 1))
    return "\n".join(lines) + "\n"


def match(exp, obs, step=None, rec=None, prev=None):
    """Verdict projection: the answers of every lookup of the universe (and of cycle() for every path) after the
    call, the documented answer class; for a binding text the observed records and lookups must be one of the
    results the specification permits, no message may stay open and nothing but binding / log messages be sent."""
    if not exp:
        return None
    if step and step["a"] == "bindtext":
        for k in ("open", "junk"):
            if obs.get(k) != exp[k]:
                return "%s: expected %s, observed %s" % (k, exp[k], obs.get(k))
        byrecs = [o for o in exp["outcomes"] if o["recs"] == obs.get("recs")]
        if not byrecs:
            return "recs: observed %s, permitted %s" % (json.dumps(obs.get("recs"))[:300],
                                                        json.dumps([o["recs"] for o in exp["outcomes"]])[:400])
        o = byrecs[0]
        if o["all"] != obs.get("all"):
            return "all: lookups after the records %s" % json.dumps(obs.get("recs"))[:200]
        if not exp["anyret"] and o["ret"] != obs.get("ret"):
            return "ret: expected %s, observed %s" % (o["ret"], obs.get("ret"))
        return None
    order = [k for k in ("all", "cyc") if k in exp] + [k for k in exp if k not in ("all", "cyc")]
    for k in order:
        v = exp[k]
        if v == "any":
            continue
        if k not in obs:
            return "%s: missing" % k
        if obs[k] != v:
            if k == "all":
                diff = [i for i, (x, y) in enumerate(zip(v, obs[k])) if x != y] if len(v) == len(obs[k]) else ["len"]
                return "all: lookups %s: expected %s, observed %s" % (diff[:5], json.dumps([v[i] for i in diff[:3] if i != "len"])[:200],
                                                                      json.dumps([obs[k][i] for i in diff[:3] if i != "len"])[:200])
            return "%s: expected %s, observed %s" % (k, json.dumps(v)[:300], json.dumps(obs[k])[:300])
    return None


def arg_class(st, before=()):
    """discriminating condition of a failing step, computed from its arguments and the calls made before it"""
    a = st["a"]
    arg = st.get("arg") or {}
    if a == "add":
        adds = [s["arg"] for s in before if s["a"] == "add"]
        if any(x["cli"] == arg["cli"] and x["dst"] == arg["dst"] for x in adds):
            rel = "same_dest_again"
        elif any(x["cli"] == arg["cli"] for x in adds):
            rel = "other_dest_same_client"
        elif adds:
            rel = "other_client"
        else:
            rel = "first"
        return rel
    if a == "del":
        return "%s,%s" % ("src" if arg.get("src") else "nosrc", "dst" if arg.get("dst") else "nodst")
    if a == "clearcycles":
        return "hint=" + "".join("x" if h >= 0 else "*" for h in arg.get("hint", []))
    if a == "setcycle":
        return "tok" if arg.get("tok") else "notok"
    if a == "bindtext":
        items = arg.get("items") or []
        # a number, its separator, a blank: the field behind the separator is left out and the destination ends
        if re.search(r"[0-9]:[ \t]", arg.get("text") or ""):
            return "number_sep_blank"
        cl = ["items=%d" % min(len(items), 3)]
        if any(all(f < 0 for f in it) for it in items):
            cl.append("empty_item")
        if any(0 in it for it in items):
            cl.append("zero_field")
        if any(f > 255 for it in items for f in it):
            cl.append("bad_field")
        g = arg.get("gaps") or [0]
        if g[-1]:
            cl.append("trailing_blank")
        return ",".join(cl)
    if a == "srctext":
        t = arg.get("text", "")
        return "letters=%d,%s" % (min(len(t.split()), 3), "blank_after" if (" " in t or "\t" in t) else "no_blank")
    if a == "bindlist":
        return "nodes=%d" % min(len(arg.get("names", [])), 3)
    return "-"


def signature(mm, impl, beh=None):
    st = mm["step"]
    why = mm["why"]
    cls = arg_class(st, (beh or [])[:mm["i"]])
    if why in ("Crash", "Hang", "Garbled") or why.startswith("no record"):
        return "x22:%s:%s:%s:%s" % (impl, st["a"], why.split(" ")[0].lower(), cls)
    return "x22:%s:%s:%s:%s" % (impl, st["a"], why.split(":")[0], cls)


def callkey(beh):
    return json.dumps([(s["a"], s.get("arg")) for s in beh], sort_keys=True)


def nontrivial_a(beh):
    """table: the judged call acts on a table that holds a binding (or follows a call of the destination registry);
    text: the text names at least two items; pure front ends: every case"""
    a = beh[-1]["a"]
    if a in ("srctext", "bindlist", "initplot", "bindclear"):
        return True
    if a == "bindtext":
        return len(beh[-1]["arg"].get("items") or []) >= 2 or len(beh) > 2
    return len(beh) >= 3


# ---------------------------------------------------------------------------
# binding A
def export(gencfg, out):
    try:
        out[gencfg] = vlib.tlc("Gen_Mapping", gencfg, workers=3, tag="Gen_Mapping-" + gencfg.replace(".cfg", ""), xss="64m")
    except Exception as e:
        out[gencfg] = e


def binding_a(ck, exes, gencfg, impl, nt, samples, gen):
    if isinstance(gen, Exception):
        raise vlib.MachineryError("X22 behaviour export failed: %s" % gen)
    if gen.error or gen.violation:
        raise vlib.MachineryError("X22 behaviour export %s failed: %s %s" % (gencfg, gen.error, gen.violation))
    behs = vlib.parse_behaviours(gen.out)
    if not behs or len(behs) > gen.generated:
        raise vlib.MachineryError("X22 behaviour export %s: %d lines for %d transitions" % (gencfg, len(behs), gen.generated))
    label = gencfg.replace("Gen_Mapping", "").replace(".cfg", "").strip("_") or "table"
    nmm = 0
    failed = {}
    for lo in range(0, len(behs), 6000):
        part = behs[lo:lo + 6000]
        recs, _ = vlib.run_driver(exes[impl], script(part), env=FAST_ENV, timeout=900)
        for mm in vlib.compare(part, recs, match):
            failed[callkey(part[mm["b"]])] = part[mm["b"]]
            nmm += 1
    for beh in behs:
        if nontrivial_a(beh):
            nt.add(impl + callkey(beh))
    samples.append({"impl": "x22:%s:%s" % (impl, label), "behaviour": vlib.sample_repr(behs[(2 * len(behs)) // 3])})
    # report the failing behaviours none of whose prefixes fails, once more, fully logged
    rootb = []
    for key, beh in sorted(failed.items(), key=lambda kv: len(kv[1])):
        calls = json.loads(key)
        if any(json.dumps(calls[:k], sort_keys=True) in failed for k in range(1, len(calls))):
            continue
        rootb.append(beh)
    persig = {}
    if rootb:
        recs, _ = vlib.run_driver(exes[impl], script(rootb[:400], quiet_prefix=False))
        for mm in vlib.compare(rootb[:400], recs, match):
            beh = rootb[mm["b"]]
            sig = signature(mm, impl, beh)
            persig[sig] = persig.get(sig, 0) + 1
            if persig[sig] <= 2:
                ck.violation(sig, {"binding": "A(replay)", "part": "x22", "impl": impl, "behaviour": beh, "step": mm["i"],
                                   "why": mm["why"], "record": mm["rec"]})
    ck.cov["evaluations"] += len(behs)
    ck.cov["transitions"] += gen.generated
    ck.notes.setdefault("x22_replay", []).append({"cfg": gencfg, "impl": impl, "behaviours": len(behs), "mismatches": nmm,
                                                  "mismatches_without_failed_prefix": len(rootb), "signatures": persig,
                                                  "tlc_generated": gen.generated, "tlc_distinct": gen.distinct,
                                                  "tlc_wall_s": round(gen.wall, 1)})
    return len(behs)


# ---------------------------------------------------------------------------
# binding B: seeded histories (call sequences only), recorded and validated by TLC
GAPSTR = {0: "", 1: " ", 2: "  ", 3: "\t", 4: " \t "}


def render(items, gaps):
    """text of an item list (TLC checks it against TextOf of the specification before it judges the event)"""
    out = GAPSTR[gaps[0]]
    for it, g in zip(items, gaps[1:]):
        out += ":".join("" if f < 0 else "x" if f == 1000 else str(f) for f in it) + GAPSTR[g]
    return out


def gen_history(rng, impl, steps):
    dests = [[1, 1, 1, 0], [1, 1, 1, 1], [1, 1, 2, 0], [1, 1, 2, 1], [1, 2, 1, 0], [2, 1, 1, 0], [2, 1, 1, 1], [2, 1, 2, 0],
             [255, 255, 255, 0], [255, 255, 255, 1], [1, 1, 1, 2], [2, 1, 2, 3]]
    clis = [0, 1, 65535, 2, 300]
    dims = [0, 1, 2, 3]
    masks = [1, 2, 3, 4, 5, 6, 7, 8, 8, 8, 9, 10, 12, 15]       # every state bit of the header: Init, Step, Fini, Fail
    hist = [{"a": "init", "arg": {"dims": T_DIMS, "masks": T_MASKS, "clis": T_CLIS,
                                  "paths": [x for p in (T_PATHS if impl == "cxx" else []) for x in p]}}]
    if impl == "cxx":       # most paths registered early, so that the table grows
        for p in rng.sample(T_PATHS, rng.choice([3, 5, 6])):
            hist.append({"a": "setcycle", "arg": {"path": p, "tok": rng.choice([0, 1, 2, 3])}})
    grow = rng.random() < 0.6       # phases that mostly add: tens of bindings, growth over the allocation granularity
    for _ in range(steps):
        x = rng.random()
        pa = 0.75 if grow else 0.45
        if rng.random() < 0.03:
            grow = not grow
        if x < pa:
            hist.append({"a": "add", "arg": {"src": [rng.choice(dims), rng.choice(masks)], "dst": rng.choice(dests), "cli": rng.choice(clis)}})
        elif x < pa + 0.18 or impl == "c" and x < 0.92:
            src = [rng.choice(dims), rng.choice(masks)] if rng.random() < 0.7 else []
            dst = rng.choice(dests) if rng.random() < 0.6 else []
            hist.append({"a": "del", "arg": {"src": src, "dst": dst, "cli": rng.choice(clis)}})
        elif impl == "c":
            items = []
            for _ in range(rng.choice([1, 1, 2, 3, 4])):
                # fields left out at every position: leading, middle, trailing (a trailing one directly behind a
                # number and before a blank is the open finding number_sep_blank, decided by the replay: not here)
                form = rng.choice([[0], [0, 1], [0, 1, 2], [1], [1, 2], [2], [0, 2], [], []])
                n = (max(form) + 1) if form else rng.choice([2, 3])
                it = [-1] * n
                for k in form:
                    it[k] = rng.choice([1, 1, 2, 2, 255, 7])
                if form and n < 3 and rng.random() < 0.35:
                    it += [-1] * (3 - n) if n == 1 else []
                items.append(it)
            gaps = [rng.choice([0, 0, 1])] + [rng.choice([1, 1, 2, 3, 4]) for _ in items[1:]] + [0]
            hist.append({"a": "bindtext", "arg": {"text": render(items, gaps), "cli": rng.choice(clis), "items": items, "gaps": gaps}})
        else:
            y = rng.random()
            if y < 0.5:
                hist.append({"a": "setcycle", "arg": {"path": rng.choice(T_PATHS), "tok": rng.choice([0, 1, 2, 3])}})
            elif y < 0.9:
                p = rng.choice(T_PATHS)
                h = rng.choice([[-1, -1, -1], [p[0], -1, -1], [p[0], p[1], -1], p, [-1, -1, p[2]], [-1, p[1], -1], [p[0], -1, p[2]]])
                hist.append({"a": "clearcycles", "arg": {"hint": h}})
            else:
                hist.append({"a": "clear", "arg": {"x": 0}})
                for p in rng.sample(T_PATHS, rng.choice([2, 4, 6])):
                    hist.append({"a": "setcycle", "arg": {"path": p, "tok": rng.choice([0, 1, 2])}})
    return hist


def nontrivial_b(hist, recs):
    """the table reached at least 9 entries (growth beyond the first allocation of 64 bytes) and shrank again"""
    lens = [(r.get("dbg") or {}).get("len", (r.get("dbg") or {}).get("entries", 0)) for r in recs]
    return bool(lens) and max(lens) >= 9 and any(b < a for a, b in zip(lens, lens[1:]))


def trace_signature(ev, impl, beh):
    if ev is None:
        return "x22:%s:trace:short" % impl
    call = beh[-1] if beh else None
    cls = arg_class(call, beh[:-1]) if call else "-"
    if ev["a"] in ("Crash", "Hang", "Garbled", "Missing"):
        return "x22:%s:trace:%s:%s:%s" % (impl, call["a"] if call else "?", ev["a"].lower(), cls)
    return "x22:%s:trace:%s:rejected:%s" % (impl, ev["a"], cls)


def binding_b(exes, rng, n, steps):
    """runs beside binding A in a thread: returns what is to be added to the Check (no shared state is touched)"""
    out = {"violations": [], "nt": set(), "transitions": 0, "good": 0, "n": 0, "notes": {}, "sample": None}
    for impl, tcfg in (("c", "Trace_Mapping.cfg"), ("cxx", "Trace_Mapping_cxx.cfg")):
        hists = [gen_history(rng, impl, steps) for _ in range(n if impl == "c" else max(3, n // 2))]
        recs, _ = vlib.run_driver(exes[impl], script(hists, quiet_prefix=False))
        events = vlib.merge_trace(hists, recs)
        tag = "Trace_Mapping-" + impl
        ok, matched, tres = vlib.validate_trace("Trace_Mapping", events, cfg=tcfg, tag=tag, xss="512m")
        out["transitions"] += tres.generated
        if not ok:      # once more before reporting
            ok2, matched2, _ = vlib.validate_trace("Trace_Mapping", events, cfg=tcfg, tag=tag, xss="512m")
            if not ok2 and matched2 == matched:
                ev = events[matched] if matched < len(events) else None
                beh = hists[ev["b"]][:ev["i"] + 1] if ev else None
                out["violations"].append((trace_signature(ev, impl, beh),
                                          {"binding": "B(trace validation)", "part": "x22", "impl": impl, "trace_cfg": tcfg,
                                           "matched_prefix": matched, "rejected_event": ev, "behaviour": beh,
                                           "tlc_tail": tres.out[-1500:]}))
            else:
                ok = ok2
        by = vlib.group_records(recs)
        bad_b = events[matched]["b"] if (not ok and matched < len(events)) else None
        maxlen = 0
        for b, h in enumerate(hists):
            rs = by.get(b, [])
            lens = [(r.get("dbg") or {}).get("len", 0) for r in rs]
            maxlen = max([maxlen] + lens)
            if nontrivial_b(h, rs):
                out["nt"].add("b" + impl + callkey(h))
            if ok or (bad_b is not None and b < bad_b):
                out["good"] += 1
        out["n"] += len(hists)
        acts = {}
        for e in events:
            acts[e["a"]] = acts.get(e["a"], 0) + 1
        out["notes"][impl] = {"histories": len(hists), "events": len(events), "events_matched": matched, "by_action": acts,
                              "largest_table": maxlen, "tlc_wall_s": round(tres.wall, 1)}
        if out["sample"] is None:
            out["sample"] = [{"a": s["a"], "arg": s["arg"]} for s in hists[0][:7]]
    return out


# ---------------------------------------------------------------------------
def run_part(ck, tier):
    cfg = CFG[tier]
    exes = build()
    mcres = []

    def model_check(mcs):
        for mc in mcs:
            try:
                mcres.append((mc, vlib.tlc("MC_Mapping", mc, tag="MC_Mapping-" + mc, workers=max(2, vlib.NCPU // 4), xss="64m")))
            except Exception as e:
                mcres.append((mc, e))
    mths = [threading.Thread(target=model_check, args=(cfg["mc"][k::2],)) for k in range(2)]
    for t in mths:
        t.start()
    nt = set()
    samples = []
    exports = {}
    gths = [threading.Thread(target=export, args=(g, exports)) for g, _ in cfg["gen"]]
    for t in gths:
        t.start()
    replayed = 0
    bres = {}
    brng = random.Random(ck.rng.randrange(1 << 30))

    def traces():
        try:
            bres["out"] = binding_b(exes, brng, cfg["nhist"], cfg["steps"])
        except Exception as e:
            bres["out"] = e
    bth = threading.Thread(target=traces)
    bth.start()
    try:
        for (g, impl), t in zip(cfg["gen"], gths):
            t.join()
            replayed += binding_a(ck, exes, g, impl, nt, samples, exports[g])
    finally:
        for t in gths + mths + [bth]:
            t.join()
    b = bres.get("out")
    if isinstance(b, Exception) or b is None:
        raise b if isinstance(b, vlib.MachineryError) else vlib.MachineryError("X22 trace validation: %r" % (b,))
    for sig, det in b["violations"]:
        ck.violation(sig, det)
    nt |= b["nt"]
    ck.cov["transitions"] += b["transitions"]
    ck.cov["traces_validated_against_impl"] += b["good"]
    ck.cov["evaluations"] += b["n"]
    ck.notes["x22_trace"] = b["notes"]
    sample_b = b["sample"]
    if len(mcres) != len(cfg["mc"]):
        raise vlib.MachineryError("X22 model checking run did not finish")
    for mc, res in sorted(mcres, key=lambda x: cfg["mc"].index(x[0])):
        if isinstance(res, Exception):
            raise vlib.MachineryError("X22 model checking %s: %s" % (mc, res))
        ck.add_tlc(res, "x22 exhaustive " + mc)
    ck.cov["distinct_nontrivial"] = ck.cov.get("distinct_nontrivial", 0) + len(nt)
    ck.cov["samples"] = list(ck.cov.get("samples") or [])[:4] + samples[:1] + [{"impl": "x22 (recorded history)", "calls": sample_b}]
    ck.cov["rule"] = (ck.cov.get("rule") or "") + (
        "  X22 (Mapping): A: one behaviour per call transition of the TLC graph of Mapping (2 source dimensions x state "
        "masks over 2 bits x 2 [3] destinations x 2 clients, tables of up to 2 [3] entries: every add / del by source, "
        "destination, client; mpt++: plus clear and the destination registry; binding texts of up to 2 [3] items over the "
        "item forms of the .cfg; state letter texts; node lists; plot headers), replayed into mpt_mapping_* on a plain "
        "array and into graphic::mapping, every lookup of the universe asked after the judged call; B: seeded histories "
        "(12 destinations x 5 clients, tables of tens of entries) recorded from the real code and validated by TLC.  "
        "Non-trivial (A) = the judged call acts on a table that holds a binding or follows a registry call, a text of >= 2 "
        "items, every pure front-end case; (B) = the table grew beyond 8 entries (first allocation) and shrank again.")
    ck.assumptions += ["X22: drv/mapping.c, drv/mapping_cxx.cpp project without judgement (lookups sorted, return codes mapped "
                       "to the documented classes, completed binding messages decoded and added to the table in the place of "
                       "the receiving application)",
                       "X22: the recording output of drv/mapping.c appends pushed data to the message being composed and "
                       "completes it on push(0, 0), as mpt_stream_push does"]
    ck.notes["x22"] = {"behaviours_replayed": replayed}


def replay(det, path="-"):
    """re-run one recorded violation of this part (called by c10.replay)"""
    beh = det.get("behaviour")
    if not beh:
        print(json.dumps(det, indent=1)[:4000])
        return 2
    exes = build()
    impl = det.get("impl", "c")
    recs, _ = vlib.run_driver(exes[impl], script([beh], quiet_prefix=False))
    if not any("exp" in st for st in beh):
        events = vlib.merge_trace([beh], recs)
        tcfg = det.get("trace_cfg", "Trace_Mapping.cfg")
        ok, matched, _ = vlib.validate_trace("Trace_Mapping", events, cfg=tcfg, tag="Trace_Mapping-replay", xss="512m")
        if not ok:
            print("VIOLATION property=C10 replay=%s  (x22 trace rejected at event %d: %s)" %
                  (path, matched, json.dumps(events[matched])[:600] if matched < len(events) else "-"))
        return 0 if ok else 1
    mms = vlib.compare([beh], recs, match)
    for mm in mms:
        print("VIOLATION property=C10 replay=%s  (%s: %s)" % (path, signature(mm, impl, beh), mm["why"]))
    return 1 if mms else 0


if __name__ == "__main__":
    # standalone runner of the part (development): python3 checks/x22_mapping.py [quick|thorough]
    tier = sys.argv[1] if len(sys.argv) > 1 else "quick"
    import glob
    for old in glob.glob(os.path.join(vlib.WORK, "violations", "X22dev-*.json")):
        os.unlink(old)
    ck = vlib.Check("C10", tier)
    ck.pid = "X22dev"          # own violation files; the open findings of C10 apply
    try:
        run_part(ck, tier)
    except vlib.MachineryError as e:
        print("MACHINERY:", e)
        sys.exit(2)
    import time
    wall = time.time() - ck.t0
    for sig, f in ck.known_hit.items():
        print("KNOWN-FINDING: %s [%s]" % (f.get("what", "")[:100], sig))
    seen = set()
    for sig, p in ck.violations:
        if sig not in seen:
            seen.add(sig)
            print("VIOLATION property=C10 replay=%s  (%s)" % (p, sig))
    print(json.dumps({k: v for k, v in ck.notes.items()}, indent=1)[:6000])
    print(json.dumps({k: v for k, v in ck.cov.items() if k not in ("samples", "rule")}))
    print("x22 %s: %d violation(s) in %.1fs" % (tier, len(seen), wall))
    sys.exit(1 if seen else 0)
