"""C16 -- names are stored and compared faithfully at every length (spec/Ident.tla)."""
import json
import os
import time
import vlib
import vseam

PID = "C16"
MANIFEST = dict(
        spec="Ident.tla (+MC_Ident, Gen_Ident, Trace_Ident)",
        text="TLC checks exhaustively (2 identifiers, inline capacities 2/3/6, names of 0..8 bytes in three byte patterns, "
             "text and zero-pointer content, a scaled length limit) that the storage design (inline bytes overlaying the block "
             "pointer, separate block iff the stored length exceeds the inline capacity) reads back exactly what was set, that "
             "copy yields an equal value and leaves every other identifier untouched, that compare/inequal agree with equality "
             "of content, and that every block is released exactly once and none is leaked -- including the order in which the "
             "old block must be remembered before the inline bytes are overwritten.  Every transition of the model's control "
             "skeleton is replayed into the real mpt_identifier_* code (C) and into mpt::identifier (C++) at inline capacities "
             "0/2/3/5/12 with malloc/free observed through the allocation seam; seeded call histories at storage sizes 16..300 "
             "with lengths around every inline capacity and at 65534/65535/65536 bytes are recorded from the real code and "
             "validated by TLC against the same specification.",
        note="Trusted: TLC, drv/ident.c + drv/seam.h (projection only).  'never leaks / corrupts' is decided for allocations "
             "that pass the malloc seam (identifier.c, node_new.c) and by read-back; out-of-bounds access is observed by ASan "
             "on every executed call (storage allocated at its exact size), not proved.  Allocation failure is not injected.",
        technique="TLA+ spec + TLC exhaustive check; TLC-generated behaviours replayed into the C and C++ code; TLC trace validation of recorded runs",
        design="5/C16")
CFG = {
    "quick":    dict(mc="MC_Ident.cfg",   gen="Gen_Ident.cfg",   nhist=120, steps=40, big=1),
    "thorough": dict(mc="MC_Ident_t.cfg", gen="Gen_Ident_t.cfg", nhist=900, steps=60, big=3),
}
C_SRC = ["mptcore/misc/identifier.c", "mptcore/node/node_new.c", "mptcore/node/node_locate.c"]
CXX_SRC = ["mpt++/identifier.cpp"]
VALSZ = 4


def build():
    return [("c", vseam.build_seam_driver("ident", ["ident.c"], C_SRC)),
            ("cxx", vseam.build_seam_driver("ident_cxx", ["ident_cxx.cpp"], C_SRC, CXX_SRC, cxx=True))]


def report(ck, sig, detail):
    vlib.ensure(os.path.join(vlib.WORK, "violations"))     # other runs may prune _work concurrently
    return ck.violation(sig, detail)


def match(exp, obs, step, rec, prev):
    """Verdict projection: answer class, every identifier's length and bytes, allocation ownership, comparison result."""
    a = step["a"]
    if exp["ret"] != "any" and obs.get("ret") != exp["ret"]:
        return "ret: expected %s, observed %s" % (exp["ret"], obs.get("ret"))
    eids, oids = exp["ids"], obs.get("ids") or []
    for k, e in enumerate(eids):
        o = oids[k] if k < len(oids) else None
        if o is None:
            if e["live"]:
                return "ids: slot %d not reported" % (k + 1)
            continue
        if (o["live"], o["len"], o["data"]) != (e["live"], e["len"], e["data"]):
            return "ids: slot %d expected len %d %s, observed len %d %s" % (
                k + 1, e["len"], json.dumps(e["data"])[:120], o["len"], json.dumps(o["data"])[:120])
    if obs.get("badfree") != exp["badfree"]:
        return "badfree: %s releases of something that is not a live block" % obs.get("badfree")
    if obs.get("orphans") != exp["orphans"]:
        return "orphans: %s live blocks no identifier owns" % obs.get("orphans")
    if exp["eq"] in ("equal", "differs") and obs.get("eq") != exp["eq"]:
        return "eq: expected %s, observed %s" % (exp["eq"], obs.get("eq"))
    if a == "locate" and exp["idx"] != -1 and obs.get("idx") != exp["idx"]:
        return "idx: expected %s, observed %s" % (exp["idx"], obs.get("idx"))
    return None


def step_class(step, prev):
    """Discriminating condition of a step, from its arguments and the state logged before it."""
    a, arg = step["a"], step.get("arg") or {}
    d = (prev or {}).get("dbg") or {}
    if a in ("set", "setself", "setraw", "copy", "copynull", "tinit"):
        i = arg.get("id", 0) - 1
        was = "new" if a == "tinit" else ("ext" if (d.get("ext") or [0] * 8)[i:i + 1] == [1] else "inl")
        mx = 12 if a == "tinit" else (d.get("max") or [0] * 8)[i:i + 1]
        mx = mx[0] if isinstance(mx, list) and mx else (mx if isinstance(mx, int) else 0)
        if a == "set":
            n = len(arg.get("data") or []) + 1
        elif a == "setself":
            n = arg.get("n", 0) + 1
        elif a == "setraw":
            n = arg.get("n", 0)
        elif a == "copynull":
            n = 0
        else:
            src = arg.get("src", 0)
            ids = ((prev or {}).get("obs") or {}).get("ids") or []
            n = ids[src - 1]["len"] if 0 < src <= len(ids) else 0
        if n > 65535:
            return "%s>toolong" % was
        now = "ext" if n > mx else "inl"
        ov = ":len>%d" % VALSZ if (now == "inl" and n > VALSZ) else ""
        return "%s>%s%s" % (was, now, ov)
    if a in ("compare",):
        return "mode=%s" % arg.get("mode")
    if a == "locate":
        return "pos%s" % ("+" if arg.get("pos", 0) > 0 else "-" if arg.get("pos", 0) < 0 else "0")
    return "-"


def signature(mm, prev, api):
    st = mm["step"]
    return "%s:%s:%s:%s" % (api, st["a"], step_class(st, prev), mm["why"].split(":")[0].lower())


def prev_of(recs_by, mm):
    rs = recs_by.get(mm["b"], [])
    return rs[mm["i"] - 1] if mm["i"] and mm["i"] - 1 < len(rs) else None


# ---------------------------------------------------------------------------
# binding B: inputs only (sizes, lengths, bytes, call order); no expected values
# ---------------------------------------------------------------------------
SIZES = [16, 16, 16, 17, 20, 24, 32, 32, 64, 128, 255, 256, 300, 8, 5]
NEWLENS = [0, 8, 27, 28, 29, 59, 60, 61, 124, 125, 251, 252, 253, 300, 1000]
NODELENS = [0, 16, 20, 24, 25, 84, 88, 89, 212, 216, 217, 400]


def rnd_bytes(rng, n, zeros):
    if zeros:
        return [rng.choice([0, 0, 1, 65, 255]) if rng.random() < 0.2 else rng.randrange(1, 256) for _ in range(n)]
    return [rng.randrange(1, 256) for _ in range(n)]


def gen_histories(ck, n, steps):
    rng = ck.rng
    behs = []
    for _ in range(n):
        ns = rng.choice([2, 3, 3, 4])
        sizes = [rng.choice(SIZES) for _ in range(ns)]
        cap = [min(s - 4, 252) for s in sizes]           # input selection only
        live = [True] * ns
        last = [[] for _ in range(ns)]                   # best guess of the text (to pick equal / near-miss inputs)
        ilen = [0] * ns                                  # stored length when it follows from the calls alone, else None
        beh = [{"a": "init", "arg": {"sizes": sizes}}]
        for _ in range(steps):
            lv = [i for i in range(ns) if live[i]]
            dead = [i for i in range(ns) if not live[i]]
            op = rng.choice(["set"] * 6 + ["setself"] * 2 + ["setraw"] * 2 + ["copy"] * 5 + ["copynull", "compare", "compare", "compare",
                            "inequal", "inequal", "locate", "locate", "fini", "make", "make", "tinit", "tinit"])
            if op in ("make", "tinit") and not dead:
                op = "fini" if rng.random() < 0.3 else "set"
            if op not in ("make", "tinit") and not lv:
                op = "make"

            def around(i):
                c = cap[i]
                return max(0, rng.choice([0, 1, 3, 4, 5, c - 2, c - 1, c, c + 1, c + 2, rng.randrange(0, 2 * c + 8), 7, 11, 12]))
            if op == "set":
                i = rng.choice(lv)
                mode = rng.choice(["len", "len", "cstr"])
                k = around(i)
                d = rnd_bytes(rng, k, mode == "len")
                fail = 1 if rng.random() < 0.1 else 0
                beh.append({"a": "set", "arg": {"id": i + 1, "data": d, "mode": mode, "fail": fail}})
                if not fail:
                    last[i] = d
                    ilen[i] = k + 1
                else:
                    ilen[i] = None
            elif op == "setself":
                cand = [i for i in lv if ilen[i] is not None]      # only where the stored length is known from the calls
                if not cand:
                    continue
                i = rng.choice(cand)
                n0 = ilen[i]
                off = min(rng.choice([0, 0, 1, 2, rng.randrange(n0 + 1)]), n0)
                k = rng.choice([n0 - off, max(n0 - off - 1, 0), max(n0 - off - 1, 0), rng.randrange(n0 - off + 1)])
                beh.append({"a": "setself", "arg": {"id": i + 1, "off": off, "n": k}})
                last[i] = (last[i] + [0] * n0)[off:off + k]
                ilen[i] = k + 1
            elif op == "setraw":
                i = rng.choice(lv)
                k = around(i)
                beh.append({"a": "setraw", "arg": {"id": i + 1, "n": k}})
                last[i] = []
                ilen[i] = k
            elif op == "copy":
                i, j = rng.choice(lv), rng.choice(lv)
                fail = 1 if rng.random() < 0.1 else 0
                beh.append({"a": "copy", "arg": {"id": i + 1, "src": j + 1, "fail": fail}})
                if not fail:
                    last[i] = last[j]
                    ilen[i] = ilen[j]
                elif i != j:
                    ilen[i] = None
            elif op == "copynull":
                i = rng.choice(lv)
                beh.append({"a": "copynull", "arg": {"id": i + 1}})
                last[i] = []
                ilen[i] = 0
            elif op in ("compare", "locate"):
                i = rng.choice(lv)
                d = list(last[rng.choice(lv)])
                m = rng.randrange(6)
                if m == 1 and d:
                    d = d[:-1]
                elif m == 2:
                    d = d + [rng.randrange(1, 256)]
                elif m == 3 and d:
                    p = rng.randrange(len(d))
                    d[p] = (d[p] % 255) + 1
                elif m == 4:
                    d = d + [0]
                if op == "compare":
                    mode = "cstr" if (0 not in d and rng.random() < 0.4) else "len"
                    beh.append({"a": "compare", "arg": {"id": i + 1, "data": d, "mode": mode}})
                else:
                    beh.append({"a": "locate", "arg": {"data": d, "pos": rng.choice([-2, -1, 0, 1, 1, 2, 3])}})
            elif op == "inequal":
                beh.append({"a": "inequal", "arg": {"id": rng.choice(lv) + 1, "other": rng.choice(lv) + 1}})
            elif op == "fini":
                i = rng.choice(lv)
                beh.append({"a": "fini", "arg": {"id": i + 1}})
                live[i] = False
            elif op == "make":
                i = rng.choice(dead)
                how = rng.choice(["init", "new", "node", "macro", "nodemacro"])
                sz = (rng.choice(SIZES) if how == "init" else rng.choice(NEWLENS) if how == "new" else
                      rng.choice(NODELENS) if how == "node" else 16)
                beh.append({"a": "make", "arg": {"id": i + 1, "size": sz, "how": how}})
                live[i] = True
                last[i] = []
                ilen[i] = 0
                cap[i] = (min(sz - 4, 252) if how in ("init", "macro", "nodemacro") else
                          rng.choice([28, 60, 124, 252]) if how == "new" else rng.choice([20, 84, 212]))
            elif op == "tinit":
                i = rng.choice(dead)
                j = rng.choice(lv + [-1]) if lv else -1
                fail = 1 if rng.random() < 0.1 else 0
                beh.append({"a": "tinit", "arg": {"id": i + 1, "src": j + 1, "fail": fail}})
                live[i] = True
                last[i] = last[j] if j >= 0 else []
                ilen[i] = 0 if j < 0 else (ilen[j] if not fail else None)
                cap[i] = 12
        behs.append(beh)
    return behs


def gen_big(ck, n):
    """Histories at the 65535-byte limit (few: every event carries the full content)."""
    rng = ck.rng
    behs = []
    for k in range(n):
        sz = [16, 256, 32][k % 3]
        b = rng.randrange(1, 256)
        beh = [{"a": "init", "arg": {"sizes": [sz, 16]}}]
        for ln in (65534, 65535, 65536):
            beh.append({"a": "set", "arg": {"id": 1, "data": [b] * ln, "mode": rng.choice(["len", "cstr"]), "fail": 0}})
        beh.append({"a": "copy", "arg": {"id": 2, "src": 1, "fail": 0}})
        beh.append({"a": "inequal", "arg": {"id": 1, "other": 2}})
        beh.append({"a": "compare", "arg": {"id": 2, "data": [b] * 65534, "mode": "cstr"}})
        beh.append({"a": "compare", "arg": {"id": 2, "data": [b] * 65533 + [b % 255 + 1], "mode": "len"}})
        for ln in (65535, 65536):
            beh.append({"a": "setraw", "arg": {"id": 1, "n": ln}})
        beh.append({"a": "set", "arg": {"id": 1, "data": [b] * 5, "mode": "len", "fail": 0}})
        beh.append({"a": "copy", "arg": {"id": 2, "src": 1, "fail": 0}})
        beh.append({"a": "fini", "arg": {"id": 1}})
        beh.append({"a": "fini", "arg": {"id": 2}})
        behs.append(beh)
    return behs


def nontrivial(recs):
    """some identifier switched between inline and separately allocated content."""
    last = None
    for r in recs:
        e = (r.get("dbg") or {}).get("ext")
        if e is None:
            continue
        if last is not None and len(last) == len(e) and any(x != y for x, y in zip(last, e)):
            return True
        last = e
    return False


def callseq(beh):
    return json.dumps([(s["a"], s.get("arg")) for s in beh], sort_keys=True)


def validate(tag, hist, recs, api, max_rejects=6):
    """TLC decides whether the recorded executions are behaviours of Ident.  A rejected history is reported and
    taken out, the rest is validated again.  Returns (accepted histories, [(signature, detail)], transitions, events)."""
    events = vlib.merge_trace(hist, recs)
    nev = len(events)
    found = []
    trans = 0
    dropped = set()
    while True:
        evs = [e for e in events if e["b"] not in dropped]
        if not evs:
            break
        ok, matched, tres = vlib.validate_trace("Trace_Ident", evs, tag="Trace_Ident_" + tag, xss="1g")
        trans += tres.generated
        if ok:
            break
        ok2, matched2, _ = vlib.validate_trace("Trace_Ident", evs, tag="Trace_Ident_" + tag, xss="1g")
        if ok2:
            break
        matched = min(matched, matched2)
        ev = evs[matched] if matched < len(evs) else None
        if ev is None:
            found.append(("%s:trace:short" % api, {"binding": "B(trace validation)", "api": api, "matched_prefix": matched}))
            break
        prev = evs[matched - 1] if matched and evs[matched - 1].get("b") == ev.get("b") else None
        if ev["a"] in ("Crash", "Hang", "Missing", "Garbled"):
            st = hist[ev["b"]][ev["i"]]
            sig = "%s:%s:%s:%s" % (api, st["a"], step_class(st, prev), ev["a"].lower())
        else:
            sig = "%s:%s:%s:rejected" % (api, ev["a"], step_class(ev, prev))
        small = len(json.dumps(ev)) < 20000
        found.append((sig, {"binding": "B(trace validation)", "api": api, "matched_prefix": matched,
                            "rejected_event": ev if small else {"a": ev.get("a"), "b": ev.get("b"), "i": ev.get("i"),
                                                                "note": "event too large, see behaviour"},
                            "previous_event": prev if prev and len(json.dumps(prev)) < 20000 else None,
                            "behaviour": hist[ev["b"]][:ev["i"] + 1]}))
        dropped.add(ev["b"])
        if len(dropped) >= max_rejects:
            break
    tdir = os.path.join(vlib.WORK, "traces")
    for f in (os.listdir(tdir) if os.path.isdir(tdir) else []):
        if f.startswith("Trace_Ident_%s-%d." % (tag, os.getpid())):
            os.unlink(os.path.join(tdir, f))      # the violation file carries the behaviour
    return len(hist) - len(dropped) if len(dropped) < max_rejects else 0, found, trans, nev


def run(tier):
    from concurrent.futures import ThreadPoolExecutor
    cfg = CFG[tier]
    ck = vlib.Check(PID, tier)
    drivers = build()
    pool = ThreadPoolExecutor(max_workers=8)

    # 1. the storage design (Tier 2) implements the value meaning (Tier 1) for all histories in the bound
    #    (runs while the bindings below are exercised)
    mc = pool.submit(vlib.tlc, "MC_Ident", cfg["mc"], coverage=(tier == "thorough"), workers=max(4, vlib.NCPU // 2))

    # 3. binding B (started first, needs no TLC export): recorded executions at production sizes validated by TLC
    hist = gen_histories(ck, cfg["nhist"], cfg["steps"])
    big = gen_big(ck, cfg["big"])

    def trace_job(api, exe, tag, hs):
        recs2 = vseam.rerun_hung(exe, hs, vseam.run_parallel(exe, hs, nproc=2))
        acc, found, trans, nev = validate("%s_%s" % (api, tag), hs, recs2, api)
        by2 = vlib.group_records(recs2)
        keys = set()
        for b, beh in enumerate(hs):
            if nontrivial(by2.get(b, [])):
                keys.add(api + callseq(beh) if tag == "big" else callseq(beh))
        return api, tag, len(hs), acc, found, trans, nev, keys
    tjobs = [pool.submit(trace_job, api, exe, tag, hs)
             for api, exe in drivers for tag, hs in (("main", hist), ("big", big))]

    # 2. binding A: every transition of the control skeleton replayed into the C and the C++ code
    gen = vlib.tlc("Gen_Ident", cfg["gen"], workers=4)
    if gen.error or gen.violation:
        raise vlib.MachineryError("behaviour export failed: %s %s" % (gen.error, gen.violation))
    behs = vlib.parse_behaviours(gen.out)
    gen.out = ""
    vlib.log("C16 %d behaviours exported in %.1fs" % (len(behs), gen.wall))
    nt = set()
    ck.notes["replayed_behaviours"] = {}
    ck.notes["replay_mismatches"] = {}

    def replay_job(api, exe):
        recs = vseam.run_parallel(exe, behs, nproc=4)
        by = vlib.group_records(recs)
        mms = vseam.recheck_transient(exe, behs, vlib.compare(behs, recs, match), match)
        keys = set(callseq(beh) for b, beh in enumerate(behs) if nontrivial(by.get(b, [])))
        return api, mms, [prev_of(by, mm) for mm in mms], keys
    rjobs = [pool.submit(replay_job, api, exe) for api, exe in drivers]
    for job in rjobs:
        api, mms, prevs, keys = job.result()
        seen = {}
        for mm, prev in zip(mms, prevs):
            sig = signature(mm, prev, api)
            seen[sig] = seen.get(sig, 0) + 1
            if seen[sig] > 2:
                continue          # same action, same class, same symptom: two written-out cases are enough
            report(ck, sig,
                         {"binding": "A(replay)", "api": api, "behaviour": behs[mm["b"]][:mm["i"] + 1], "step": mm["i"],
                          "why": mm["why"], "record": mm["rec"]})
        nt |= keys
        ck.cov["evaluations"] += len(behs)
        ck.notes["replayed_behaviours"][api] = len(behs)
        ck.notes["replay_mismatches"][api] = len(mms)
        ck.notes.setdefault("replay_mismatch_signatures", {}).update(seen)
        vlib.log("C16 replay %s: %d behaviours, %d mismatches (t=%.0fs)" % (api, len(behs), len(mms), time.time() - ck.t0))
    samples = [vlib.sample_repr(b) for b in behs[len(behs) // 2: len(behs) // 2 + 2]]

    accepted = 0
    ck.notes["trace_events"] = 0
    for job in tjobs:
        api, tag, n, acc, found, trans, nev, keys = job.result()
        for sig, det in found:
            report(ck, sig, det)
        accepted += acc
        nt |= keys
        ck.cov["transitions"] += trans
        ck.cov["evaluations"] += n
        ck.notes["trace_events"] += nev
        vlib.log("C16 traces %s/%s: %d histories, %d accepted (t=%.0fs)" % (api, tag, n, acc, time.time() - ck.t0))

    res = mc.result()
    ck.add_tlc(res, "exhaustive " + cfg["mc"])
    vlib.log("C16 model checked: %d states, %d transitions, %.1fs" % (res.distinct, res.generated, res.wall))
    pool.shutdown()
    ck.cov["traces_validated_against_impl"] = accepted
    ck.cov["distinct_nontrivial"] = len(nt)
    ck.cov["exhaustive"] = True
    ck.cov["rule"] = ("A: one behaviour per transition of the TLC state graph of Ident under the view (kind, inline capacity, "
                      "stored length per identifier; which identifiers are equal) [every set/setraw/copy/clear/compare/inequal/"
                      "locate/fini/make/construct-as-copy with every offered length and byte pattern from every such state], "
                      "replayed into mpt_identifier_* (C) and mpt::identifier (C++); B: seeded call histories at storage sizes "
                      "5..300 (mpt_identifier_init, mpt_identifier_new, mpt_node_new) with lengths around each inline capacity and "
                      "histories at 65534/65535/65536 bytes, recorded from both bindings and validated by TLC against Ident.  "
                      "Non-trivial = some identifier switched between inline and separately allocated content during the "
                      "behaviour; distinct by call sequence.  exhaustive refers to the scaled model (MC cfg) and its replay.")
    ck.cov["samples"] = samples + [vlib.sample_repr(hist[0][:8])]
    ck.assumptions = ["TLC/SANY and the CommunityModules Json/IOUtils are correct",
                      "drv/ident.c and drv/seam.h project the state without judgement (copy bytes, map pointers to slots, count seam blocks)",
                      "the sources compiled through the malloc seam (identifier.c, node_new.c, node_locate.c, mpt++/identifier.cpp) are the code that ships",
                      "out-of-bounds access is observed by ASan on every executed call, not proved; allocation failure is not injected",
                      "the exhaustive model is bounded (see MC cfg); beyond it coverage is by the seeded histories"]
    return ck.finish()


def replay(path):
    d = json.load(open(path))
    det = d["detail"]
    beh = det.get("behaviour")
    if not beh:
        print(json.dumps(det, indent=1)[:4000])
        return 2
    rc = 0
    for api, exe in build():
        if det.get("api") and det["api"] != api:
            continue
        recs, err = vlib.run_driver(exe, vlib.to_script([beh]))
        if all("exp" in s for s in beh):
            by = vlib.group_records(recs)
            for mm in vlib.compare([beh], recs, match):
                print("VIOLATION property=%s replay=%s  (%s: %s)" % (PID, path, signature(mm, prev_of(by, mm), api), mm["why"]))
                rc = 1
            continue
        events = vlib.merge_trace([beh], recs)
        ok, matched, _ = vlib.validate_trace("Trace_Ident", events, tag="Trace_Ident_replay", xss="1g")
        if not ok:
            print("VIOLATION property=%s replay=%s  (%s: trace rejected at event %d: %s)" % (
                PID, path, api, matched, json.dumps(events[matched])[:400] if matched < len(events) else "-"))
            rc = 1
    return rc
