"""C11 -- event dispatch reaches exactly the registered handler (spec/Dispatch.tla)."""
import json
import os
import resource
import vlib

PID = "C11"
MANIFEST = dict(
        spec="Dispatch.tla (+MC_Dispatch, Gen_Dispatch, Trace_Dispatch)",
        text="TLC checks exhaustively over histories of register/replace/unregister/reserve/clear-all/drop/teardown, taking "
             "and releasing a snapshot handle on the table's buffer (array copy of the public _d member, alive across any of "
             "these, released before or after teardown) and "
             "emit(id | message | none)/hash dispatch on a small id domain (two ids, one hashed command text, 3 (quick) / 4 "
             "(thorough) registrations, handlers answering flag combinations or an error, with or without clearing ev.id) that "
             "the slot table (ids of emptied slots staying behind, slot reuse, compaction by reserve, typed vs raw buffer) "
             "implements the map id -> handler, that an event reaches exactly the handler registered for its id, else the "
             "fallback, never a finalised one, that every registration sees exactly one end-of-life notification (replace, "
             "remove, clear, buffer drop, teardown -- with a snapshot handle alive as well, whose release adds none unless the "
             "dispatcher dropped its table to it), that the default id follows the Default flag, and that reserved ids are "
             "new among the live ones and within the width's range.  Every transition of the model's control skeleton is "
             "replayed into mpt_dispatch_*/mpt_command_* (C) and into the mpt++ dispatch class (C++) with one harness handler "
             "that logs (token, end-of-life?, ev->id, message?) and returns what the model chose; seeded histories over 20 ids "
             "and hashed command words over the whole byte alphabet (embedded NUL, bytes >= 128, quoted blanks, 127..255 "
             "bytes, fragmented anywhere; table growth past 8 and 16 slots) recorded from the real code are validated by TLC "
             "against the same specification including its action properties.",
        note="Trusted: TLC, drv/dispatch.c and drv/dispatch_cxx.cpp (projection only), bounded model.  The command-text rule of "
             "mpt_message_argv (white space, graphic and blank separators with quotes, NUL) and djb2 over all bytes (signed "
             "char, 16-bit limbs) are specified; handlers that change the table while they run and the smdb hash are not "
             "modelled.",
        technique="TLA+ spec + TLC exhaustive check; TLC-generated behaviours replayed into the C and C++ code; TLC trace validation of recorded runs",
        design="5/C11")
CFG = {
    "quick":    dict(mc="MC_Dispatch.cfg",   gens=["Gen_Dispatch.cfg", "Gen_Dispatch_f.cfg"],   nhist=24,  steps=100),
    "thorough": dict(mc="MC_Dispatch_t.cfg", gens=["Gen_Dispatch_t.cfg", "Gen_Dispatch_f.cfg"], nhist=200, steps=250),
}
ENV = {"ASAN_OPTIONS": vlib.ASAN_ENV + ":symbolize=0"}
CHUNK = 8000
MAX_FAULTS = 150
CXX_ACTIONS = {"init", "set", "settext", "clear", "seterror", "reserve", "fini", "emit", "emitmsg", "emitnone", "hash",
               "setdefault"}


def cpu_mark(ck, name, _last=[None]):
    """CPU seconds (children + self) spent since the previous mark -- wall time depends on the machine's load."""
    a, b = resource.getrusage(resource.RUSAGE_CHILDREN), resource.getrusage(resource.RUSAGE_SELF)
    now = a.ru_utime + a.ru_stime + b.ru_utime + b.ru_stime
    if _last[0] is not None:
        ck.notes.setdefault("phase_cpu_s", {})[name] = round(now - _last[0], 1)
    _last[0] = now


def match(exp, obs, step, rec, prev):
    """Key-wise equality.  Which id mpt_command_reserve hands out is the implementation's choice: when only that
    differs from the design's prediction the behaviour is handed to TLC (trace validation decides uniqueness/range)."""
    if step["a"] == "reserve" and exp.get("ret") == "ok" and obs.get("ret") == "ok" and obs.get("id") != exp.get("id"):
        rest = {k: v for k, v in exp.items() if k not in ("id", "table")}
        return vlib.default_match(rest, obs, step, rec, prev) or "reserve-id-differs"
    return vlib.default_match(exp, obs, step, rec, prev)


def signature(mm, binding=""):
    st = mm["step"]
    a, arg = st["a"], st.get("arg") or {}
    why = mm["why"]
    key = why.lower() if why in ("Crash", "Hang", "Garbled") else why.split(":")[0].split(" ")[0]
    cls = ""
    if "r" in arg:
        cls = ":r=%s%s" % ("neg" if arg["r"] < 0 else "default" if arg["r"] % 2 else "plain", ",clear" if arg.get("clear") else "")
    elif "new" in arg:
        cls = ":new=%s" % arg["new"]
    elif "w" in arg:
        cls = ":w=%s" % arg["w"]
    return "%s%s:%s%s" % (binding, a, key, cls)


def run_chunks(exe, behs):
    recs = []
    faults = 0
    done = 0
    for lo in range(0, len(behs), CHUNK):
        part = behs[lo:lo + CHUNK]
        r, _ = vlib.run_driver(exe, vlib.to_script(part), env=ENV)
        for x in r:
            if isinstance(x.get("b"), int):
                x["b"] += lo
            if x.get("a") in ("Crash", "Hang"):
                faults += 1
        recs += r
        done = lo + len(part)
        if faults > MAX_FAULTS:
            break
    return recs, done


def reserve_choice(ck, behs, recs, mms, binding):
    """Behaviours whose only difference is the reserved id: recorded prefix validated by TLC."""
    mine = [mm for mm in mms if mm["why"] == "reserve-id-differs"]
    if not mine:
        return mms
    by = vlib.group_records(recs)
    sub = [behs[mm["b"]][:mm["i"] + 1] for mm in mine]
    rs = []
    for k, mm in enumerate(mine):
        for r in by.get(mm["b"], [])[:mm["i"] + 1]:
            r2 = dict(r)
            r2["b"] = k
            rs.append(r2)
    events = vlib.merge_trace(sub, rs)
    ok, matched = validate(ck, events, "reserve", sub, binding)
    ck.notes["reserve_id_differs_from_design"] = ck.notes.get("reserve_id_differs_from_design", 0) + len(mine)
    return [mm for mm in mms if mm["why"] != "reserve-id-differs"]


def report(ck, behs, mms, binding):
    per_sig = {}
    for mm in mms:
        sig = signature(mm, binding)
        per_sig[sig] = per_sig.get(sig, 0) + 1
        if per_sig[sig] > 2:
            continue
        ck.violation(sig, {"binding": "A(replay%s)" % (" C++" if binding else ""), "behaviour": behs[mm["b"]],
                           "step": mm["i"], "why": mm["why"], "record": mm["rec"], "cxx": bool(binding)})
    return per_sig


def nontrivial(recs):
    """an event reached a handler AND a registration got its end-of-life notification."""
    ev = fin = 0
    for r in recs:
        for c in (r.get("obs") or {}).get("calls") or []:
            if c.get("fin"):
                fin += 1
            else:
                ev += 1
    return ev > 0 and fin > 0


def key_of(beh):
    return json.dumps([(s["a"], s.get("arg")) for s in beh], sort_keys=True)


# ---------------------------------------------------------------------------
# binding B inputs: call sequences only, no expected values
# ---------------------------------------------------------------------------
def _long(rng, n):
    """n bytes that are no blank, quote, NUL or usual separator (so the whole word is one argument)."""
    ok = [c for c in range(1, 256) if c not in (9, 10, 11, 12, 13, 32, 34, 39, 44, 47, 58, 92)]
    return [rng.choice(ok) for _ in range(n)]


def word_pool(rng):
    """Command words over the whole byte alphabet: plain, embedded NUL, bytes >= 128, quoted blanks,
    escaped quotes, form feed inside, and texts around the 128 byte staging buffer of mpt_dispatch_hash."""
    fixed = [b"go", b"stop", b"stop!", b"a", b"a\0b", b"x\0\0y\xe9", b"\xc8\xff\x80", b"\x80", b"status\xff",
             b'"a b"', b"'q\\' r'", b'k"\tz"w', b"k\x0cz", b"set.value", b"quit_now_please"]
    pool = [list(w) for w in fixed]
    for n in (127, 128, 129, rng.choice([130, 200, 255])):
        pool.append(_long(rng, n))
    w = _long(rng, 127)
    w[rng.randrange(1, 126)] = 0                      # long word with an embedded NUL
    pool.append(w)
    return pool


def hash_message(rng, words):
    """One message for mpt_dispatch_hash: header bytes, payload, fragment cuts (input only, no expectation)."""
    w = rng.choice(words + [[ord(c) for c in "nope"]])
    junk = [rng.randrange(256) for _ in range(rng.randrange(6))]
    lead = [rng.choice([32, 9, 10, 12, 13, 11]) for _ in range(rng.choice([0, 0, 1, 3]))]
    form = rng.randrange(6)
    if form == 0:                                     # command, graphic separator
        free = [c for c in (58, 47, 44, 59, 33, 126) if c not in w] or [58]
        sep = rng.choice(free)
        arg = dict(cmd=4, sep=sep, payload=lead + w + ([sep] + junk if rng.random() < 0.7 else []))
    elif form == 1:                                   # command, zero terminated
        arg = dict(cmd=4, sep=0, payload=w + ([0] + junk if rng.random() < 0.7 else []))
    elif form == 2:                                   # not a command message: argument byte ignored
        arg = dict(cmd=rng.choice([0, 1, 5, 16, 255]), sep=rng.choice([0, 58, 32, 200]),
                   payload=w + ([0] + junk if rng.random() < 0.5 else []))
    elif form in (3, 4):                              # command, blank separated (any non-graphic argument byte)
        sep = rng.choice([32, 32, 9, 10, 1, 127, 128, 200, 255])
        arg = dict(cmd=4, sep=sep, payload=lead + w + ([rng.choice([32, 9, 10, 13, 11])] + junk if rng.random() < 0.8 else []))
    else:                                             # arbitrary bytes
        arg = dict(cmd=rng.choice([4, 4, 0]), sep=rng.randrange(256),
                   payload=[rng.choice([0, 32, 34, 39, 92, 58, rng.randrange(256)]) for _ in range(rng.randrange(12))])
    total = len(arg["payload"]) + 2
    cuts = sorted(set(rng.randrange(0, total + 1) for _ in range(rng.choice([0, 1, 1, 2, 3]))))
    arg["cuts"] = cuts
    return arg


def limbs(v):
    return [(v >> (16 * i)) & 0xffff for i in range(4)]


def gen_histories(ck, n, steps, cxx=False):
    rng = ck.rng
    behs = []
    for _ in range(n):
        beh = [{"a": "init", "arg": {"x": 0}}]
        tok = 0
        nid = rng.choice([3, 6, 12, 20])
        ids = [limbs(rng.choice([k + 1, k + 1, 200 + k, (1 << 32) + k, (1 << 63) + k])) for k in range(nid)]
        if rng.random() < 0.3:
            ids.append(limbs(0))        # id 0 can be registered like any other
        pool = word_pool(rng)
        texts = rng.sample(pool, rng.randrange(2, 7))

        def hr():
            return {"r": rng.choice([0, 0, 1, 1, 2, 3, 4, 5, 6, 7, -1, -2]), "clear": rng.choice([0, 0, 1])}
        for _ in range(steps):
            ops = ["set", "set", "set", "settext", "clear", "clear", "emit", "emit", "emit", "emitmsg", "emitnone",
                   "hash", "hash", "seterror", "reserve"]
            if not cxx:
                ops += ["cmdset", "cmdset", "clearall", "drop", "fini", "snapshot", "dropsnapshot"]
            op = rng.choice(ops)
            if op == "set":
                tok += 1
                beh.append({"a": "set", "arg": {"id": rng.choice(ids), "tok": tok}})
            elif op == "settext":
                tok += 1
                beh.append({"a": "settext", "arg": {"text": rng.choice(texts), "tok": tok}})
            elif op == "cmdset":
                tok += 1
                beh.append({"a": "cmdset", "arg": {"id": rng.choice(ids), "new": rng.choice([1, 1, 0]), "tok": tok}})
            elif op == "clear":
                beh.append({"a": "clear", "arg": {"id": rng.choice(ids)}})
            elif op == "seterror":
                if rng.random() < 0.3:
                    tok += 1
                    beh.append({"a": "seterror", "arg": {"tok": tok}})
            elif op == "reserve":
                if rng.random() < 0.6:
                    tok += 1
                    beh.append({"a": "reserve", "arg": {"w": rng.choice([1, 1, 2, 3, 4, 8]), "tok": tok}})
            elif op in ("clearall", "drop", "fini"):
                if rng.random() < 0.15:
                    beh.append({"a": op, "arg": {"x": 0}})
            elif op in ("snapshot", "dropsnapshot"):
                # a second handle on the table's buffer, alive across whatever follows
                if rng.random() < 0.4:
                    beh.append({"a": op, "arg": {"x": 0}})
            elif op == "emit":
                i = rng.choice(ids + [limbs(k) for k in (1, 2, 3, 4, 5)])
                beh.append({"a": "emit", "arg": dict(id=i, **hr())})
            elif op == "emitmsg":
                data = [] if rng.random() < 0.05 else [rng.choice([0, 1, 2, 3, 4, 5, 6, 200, 201])] + \
                    [rng.randrange(256) for _ in range(rng.randrange(4))]
                beh.append({"a": "emitmsg", "arg": dict(data=data, **hr())})
            elif op == "emitnone":
                beh.append({"a": "emitnone", "arg": hr()})
            elif op == "hash":
                arg = hash_message(rng, texts)
                arg.update(hr())
                beh.append({"a": "hash", "arg": arg})
        if cxx:
            beh.append({"a": "fini", "arg": {"x": 0}})
        else:
            # everything released at the end, the snapshot before or after the teardown
            tail = rng.choice([["fini"], ["snapshot", "fini", "dropsnapshot"], ["fini", "dropsnapshot"],
                               ["dropsnapshot", "fini"]])
            beh += [{"a": a, "arg": {"x": 0}} for a in tail]
        behs.append(beh)
    return behs


def validate(ck, events, what, behs, binding=""):
    ok, matched, tres = vlib.validate_trace("Trace_Dispatch", events, tag="Trace_Dispatch_" + what)
    ck.cov["transitions"] += tres.generated
    if not ok:
        ok2, matched2, tres2 = vlib.validate_trace("Trace_Dispatch", events, tag="Trace_Dispatch_" + what)
        if not ok2 and matched2 == matched:
            ev = events[matched] if matched < len(events) else None
            if ev and ev.get("cxx"):
                binding = "cxx:"
            if ev is None:
                sig = "trace:%s:short" % what
            elif ev["a"] in ("Crash", "Hang", "Garbled", "Missing"):
                prev = behs[ev["b"]][ev["i"]]
                sig = "trace:" + signature({"step": prev, "why": ev["a"] if ev["a"] != "Missing" else "Crash"}, binding)
            else:
                sig = "trace:" + signature({"step": ev, "why": "rejected"}, binding)
            ck.violation(sig, {"binding": "B(trace validation%s)" % (" C++" if binding else ""), "matched_prefix": matched,
                               "rejected_event": ev, "previous_event": events[matched - 1] if matched else None,
                               "behaviour": behs[ev["b"]] if ev and ev.get("b") is not None else None,
                               "tlc": (tres2.violation or ""), "cxx": bool(binding)})
        else:
            ok = ok2
    return ok, matched


def cxx_subset(behs):
    """behaviours the mpt++ dispatch class can execute: its own calls only, nothing after the destructor."""
    out = []
    for b in behs:
        names = [s["a"] for s in b]
        if any(a not in CXX_ACTIONS for a in names):
            continue
        if "fini" in names[:-1]:
            continue
        out.append(b)
    return out


def run(tier):
    cfg = CFG[tier]
    ck = vlib.Check(PID, tier)
    exe = vlib.build_driver("dispatch", ["dispatch.c"])
    exx = vlib.build_driver("dispatch_cxx", ["dispatch_cxx.cpp"], libs=("mpt++", "mptcore"), cxx=True)

    cpu_mark(ck, "build")
    # 1. model
    res = vlib.tlc("MC_Dispatch", cfg["mc"])
    ck.add_tlc(res, "exhaustive " + cfg["mc"])

    cpu_mark(ck, "model_check")
    # 2. binding A: every transition of the control skeleton replayed into the real code (C, then C++)
    behs = []
    for g in cfg["gens"]:
        gen = vlib.tlc("Gen_Dispatch", g, workers=1, tag="Gen_Dispatch_" + g.split(".")[0][-1])
        if gen.error or gen.violation:
            raise vlib.MachineryError("behaviour export failed (%s): %s %s" % (g, gen.error, gen.violation))
        behs += vlib.parse_behaviours(gen.out)
    cpu_mark(ck, "behaviour_export")
    recs, done = run_chunks(exe, behs)
    mms = reserve_choice(ck, behs, recs, vlib.compare(behs[:done], recs, match), "")
    kinds = report(ck, behs, mms, "")
    by = vlib.group_records(recs)
    nt = set()
    for b, beh in enumerate(behs[:done]):
        if nontrivial(by.get(b, [])):
            nt.add(key_of(beh))
    bx = cxx_subset(behs)
    recx, donex = run_chunks(exx, bx)
    mmx = reserve_choice(ck, bx, recx, vlib.compare(bx[:donex], recx, match), "cxx:")
    kinds.update(report(ck, bx, mmx, "cxx:"))
    ck.cov["evaluations"] += done + donex
    ck.notes["replayed_behaviours"] = {"c": done, "cxx": donex}
    ck.notes["behaviours_generated"] = len(behs)
    ck.notes["replay_mismatches"] = len(mms) + len(mmx)
    ck.notes["replay_mismatch_kinds"] = kinds
    if done < len(behs) or donex < len(bx):
        ck.notes["replay_cut_short"] = "more than %d crashes" % MAX_FAULTS

    cpu_mark(ck, "replay")
    # 3. binding B: recorded executions over larger tables validated by TLC
    hist = gen_histories(ck, cfg["nhist"], cfg["steps"])
    recs2, _ = vlib.run_driver(exe, vlib.to_script(hist), env=ENV)
    events = [e for e in vlib.merge_trace(hist, recs2) if (e.get("obs") or {}).get("ret") != "skipped"]
    hx = gen_histories(ck, max(cfg["nhist"] // 2, 10), cfg["steps"], cxx=True)
    recs3, _ = vlib.run_driver(exx, vlib.to_script(hx), env=ENV)
    evx = vlib.merge_trace(hx, recs3)
    for e in evx:
        e["cxx"] = 1
        e["b"] += len(hist)
    ok, matched = validate(ck, events + evx, "both", hist + hx)
    okx, matchedx = ok, max(matched - len(events), 0)
    matched = min(matched, len(events))
    cpu_mark(ck, "trace_validation")
    by2 = vlib.group_records(recs2)
    grow = 0
    for b, beh in enumerate(hist):
        if nontrivial(by2.get(b, [])):
            nt.add(key_of(beh))
        if any((r.get("dbg") or {}).get("slots", 0) > 8 for r in by2.get(b, [])):
            grow += 1
    ck.cov["traces_validated_against_impl"] = (len(hist) if ok else 0) + (len(hx) if okx else 0)
    ck.cov["evaluations"] += len(hist) + len(hx)
    ck.notes["trace_events"] = {"c": len(events), "cxx": len(evx)}
    ck.notes["trace_events_matched"] = {"c": matched, "cxx": matchedx}
    ck.notes["histories_with_table_beyond_8_slots"] = grow
    ck.cov["distinct_nontrivial"] = len(nt)
    ck.cov["exhaustive"] = True
    ck.cov["rule"] = ("A: one behaviour per transition of the TLC state graph of Dispatch under the view (buffer kind, id and "
                      "liveness of every slot, default id, kind of fallback) -- every registration call and every emit/hash "
                      "form from every such table shape (one handler result), plus every handler result (flags 0..6, error, "
                      "with/without clearing ev.id) from every shape of a one-id table -- replayed into the C functions and, "
                      "for the calls the class offers, into mpt++ dispatch.  B: seeded histories over up to 20 ids (small, "
                      ">2^32, >2^63) and hashed texts recorded from both bindings and validated by TLC.  Non-trivial = an "
                      "event reached a handler and a registration got its end-of-life call; distinct by call sequence.")
    ck.cov["samples"] = [vlib.sample_repr(b) for b in (behs[len(behs) // 3: len(behs) // 3 + 1] + [behs[-1]])] + \
                        [vlib.sample_repr(hist[0][:10])]
    ck.assumptions = ["TLC/SANY and the CommunityModules Json/IOUtils are correct",
                      "drv/dispatch.c / drv/dispatch_cxx.cpp project without judgement (log handler invocations, read _def "
                      "and the slot array, sort the live entries by token)",
                      "replacing the fallback handler follows mpt++ dispatch::set_error (no C function exists)",
                      "the exhaustive model is bounded (see MC cfg); beyond it coverage is by the seeded histories",
                      "memory safety of the calls is observed (ASan), not proved"]
    # extension X11: the input loop that feeds the dispatcher (checks/x11_notify.py, docs/X11_notify.md)
    import x11_notify
    if x11_notify.enabled():
        x11_notify.run_part(ck, tier)
    # extension X24: the stock handlers mpt_dispatch_param registers (checks/x24_params.py, docs/X24_params.md)
    import x24_params
    if x24_params.enabled():
        x24_params.run_part(ck, tier)
    # extension X26: how inputs come into existence and are exchanged (checks/x26_iosetup.py, docs/X26_iosetup.md)
    import x26_iosetup
    if x26_iosetup.enabled():
        x26_iosetup.run_part(ck, tier)
    return ck.finish()


def replay(path):
    d = json.load(open(path))
    det = d["detail"]
    if det.get("part") == "x11_notify":
        import x11_notify
        return x11_notify.replay(det, path)
    if det.get("part") == "x24_params":
        import x24_params
        return x24_params.replay(det, path)
    if det.get("part") == "x26_iosetup":
        import x26_iosetup
        return x26_iosetup.replay(det, path)
    beh = det.get("behaviour")
    if not beh:
        print(json.dumps(det, indent=1)[:4000])
        return 2
    if det.get("cxx"):
        exe = vlib.build_driver("dispatch_cxx", ["dispatch_cxx.cpp"], libs=("mpt++", "mptcore"), cxx=True)
    else:
        exe = vlib.build_driver("dispatch", ["dispatch.c"])
    recs, err = vlib.run_driver(exe, vlib.to_script([beh]))
    if all("exp" in s for s in beh):
        mms = vlib.compare([beh], recs, match)
        for mm in mms:
            print("VIOLATION property=%s replay=%s  (%s: %s)" % (PID, path, signature(mm), mm["why"]))
        return 1 if mms else 0
    events = [e for e in vlib.merge_trace([beh], recs) if (e.get("obs") or {}).get("ret") != "skipped"]
    ok, matched, _ = vlib.validate_trace("Trace_Dispatch", events, tag="Trace_Dispatch_replay")
    if not ok:
        print("VIOLATION property=%s replay=%s  (trace rejected at event %d: %s)" % (
            PID, path, matched, json.dumps(events[matched])[:400] if matched < len(events) else "-"))
    return 0 if ok else 1
