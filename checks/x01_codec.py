"""X01 (extension of C01, reaching into C03) -- the codec calls the base checks leave out (spec/CodecOps.tla).

run_part(ck, tier) adds to the vlib.Check of C01:
  * TLC: exhaustive check of CodecOps (one run, four parts): encoder sessions with Delete(k) and text framings with
    delimiters of 1..3 bytes (bare encoders), the array path with a consuming reader / ShiftFront / Prepare / raw
    data, the decoder design of CobsDec with SizeQuery and Reset at every point, longer frames of short blocks,
  * binding A: every transition of those models replayed into drv/codecops.c (repository encoders/decoders compiled
    at block limits 3/5, mpt_encode_string, a real mpt::encode_array object); where code and design differ TLC
    re-judges the recorded calls against Tier 1 alone (Trace_CodecOps, scaled constants),
  * binding B: seeded call sequences at production sizes (codecs selected through the library's encoding names,
    sessions with deletions through the bare encoders, encode_array and encode_queue, size queries / resets,
    decode_queue recv/peek) validated by TLC against Trace_CodecOps.
"""
import concurrent.futures
import json
import os
import subprocess

import vlib
import c01

TAG = "x01"
CFG = {
    "quick":    dict(mc="MC_CodecOps.cfg",   gen="Gen_CodecOps.cfg",   nsess=160,  nsingle=120,  ndec=120,  nqueue=80),
    "thorough": dict(mc="MC_CodecOps_t.cfg", gen="Gen_CodecOps_t.cfg", nsess=1500, nsingle=1000, ndec=1000, nqueue=700),
}
NAMES = {"cmd": "command", "cobs": "cobs", "cobs_r": "cobs/r", "zpe": "cobs/zpe", "zpe_r": "cobs/zpe+r"}
DESIGN_ONLY = ("safe",)
CHUNK = 4000
MAX_FAULTS = 40          # crashes / hangs after which a replay is cut short (a broken tree faults everywhere)
ENV = {"ASAN_OPTIONS": vlib.ASAN_ENV + ":symbolize=0"}


def enabled():
    """The part needs its fix commits (docs/X01_codec.md) in the tree under test: it is switched on by the marker file
    checks/x01_codec.accepted (created when those commits are integrated) or by VERIF_X01=1, off by VERIF_X01=0."""
    env = os.environ.get("VERIF_X01")
    if env is not None:
        return env not in ("0", "")
    return os.path.exists(os.path.join(vlib.ROOT, "checks", "x01_codec.accepted"))


def build():
    """drv/codecops.c compiled as C (it includes the repository's codec sources), linked with the C++ side."""
    vlib.build_libs(True)
    odir = vlib.ensure(os.path.join(vlib.WORK, "drv-" + vlib.repo_key()))
    obj = os.path.join(odir, "codecops_c.o")
    cmd = ["clang"] + vlib.SAN_FLAGS.split() + ["-Wno-unused-function", "-c", "-I" + vlib.DRV]
    cmd += ["-I" + os.path.join(vlib.REPO, i) for i in vlib.INCLUDES]
    cmd += [os.path.join(vlib.DRV, "codecops.c"), "-o", obj + ".tmp%d" % os.getpid()]
    r = subprocess.run(cmd, stdout=subprocess.PIPE, stderr=subprocess.STDOUT, text=True)
    if r.returncode:
        raise vlib.MachineryError("driver build failed (codecops.c):\n" + r.stdout[-4000:])
    os.replace(obj + ".tmp%d" % os.getpid(), obj)
    return vlib.build_driver("codecops", ["codecops_cxx.cpp", obj], libs=("mpt++", "mptcore"), cxx=True)


# --------------------------------------------------------------------------
def match(exp, obs, step, rec, prev):
    """Equality of the design's prediction with what the code did."""
    if obs.get("guards") == 0 or obs.get("dec_guards") == 0:
        return "guard bytes around a buffer were overwritten"
    for k, v in exp.items():
        if k in DESIGN_ONLY or v == "any":
            continue
        if obs.get(k) != v:
            return "%s: design %s, code %s" % (k, json.dumps(v)[:200], json.dumps(obs.get(k))[:200])
    return None


def parse_gen(out):
    """Gen_CodecOps lines: {"p": part, "h": [steps], "fin": expected completion (encoder parts)} -> behaviours by part"""
    parts = {"enc": [], "arr": [], "dec": []}
    for d in vlib.parse_behaviours(out):
        beh = list(d["h"])
        if "fin" in d:
            beh.append({"a": "xfin", "arg": {"x": 0}, "exp": d["fin"]})
        parts["dec" if d["p"] == "size" else d["p"]].append(beh)
    return parts


def kind_label(a0):
    k = a0.get("kind") or a0.get("name") or "?"
    if k == "text":
        k = "text%d%s" % (len(a0.get("dl") or []), a0.get("how") or "")
    return k


def signature(beh, i, why, rec=None):
    """x01:<action>:<framing>:<path>:<class>[:<discriminating observation>] -- computed from the failing step."""
    st = beh[i] if i < len(beh) else {"a": "?"}
    a0 = beh[0].get("arg") or {}
    cls = {"Crash": "crash", "Hang": "hang", "Missing": "norecord", "Garbled": "norecord"}.get(why, "rejected")
    cond = ""
    o = (rec or {}).get("obs") or {}
    if o.get("guards") == 0 or o.get("dec_guards") == 0:
        cond = ":guards"
    elif st["a"] == "delete":
        arg = st.get("arg") or {}
        cond = ":k%s:%s" % (arg.get("k"), o.get("ret"))
    elif st["a"] == "size":
        cond = ":bound"
    elif o.get("ret") not in (None, "ok"):
        cond = ":" + str(o.get("ret"))
    elif "decs" in o:
        cond = ":decs"
    return "x01:%s:%s:%s:%s%s" % (st["a"], kind_label(a0), a0.get("path", "dec"), cls, cond)


def judge(ck, behs, recs, events, what, max_report=60):
    """TLC (Trace_CodecOps) decides on the recorded events; returns the rejected (behaviour, event) pairs."""
    if not events:
        return []
    tag = "Trace_CodecOps_" + "".join(ch for ch in what if ch.isalnum())
    rej, res = c01.tlc_trace("Trace_CodecOps", events, tag)
    ck.cov["transitions"] += res.generated
    if rej:
        rej2, _ = c01.tlc_trace("Trace_CodecOps", events, tag)     # re-run once before reporting
        if rej2 != rej:
            raise vlib.MachineryError("trace validation not reproducible")
    byb = vlib.group_records(recs)
    bad = []
    per_sig = ck.notes.setdefault("x01_codec", {}).setdefault("rejected_by_signature", {})
    for n, idx in enumerate(rej):
        ev = events[idx]
        b = ev["b"]
        bad.append((b, ev))
        why = ev["a"] if ev["a"] in ("Crash", "Hang", "Missing", "Garbled") else "rejected"
        sig = signature(behs[b], ev["i"], why, {"obs": ev.get("obs")})
        per_sig[sig] = per_sig.get(sig, 0) + 1
        if per_sig[sig] <= 2 and n < max_report * 20:
            ck.violation(sig, {"part": "x01_codec", "binding": what, "rejected_event": ev,
                               "behaviour": [{"a": s["a"], "arg": s.get("arg")} for s in behs[b]][:80],
                               "records": byb.get(b, [])[:40]})
    return bad


NEEDED = {"enc": ["push:ok", "push:nobuf", "push:err", "term:ok", "term:nobuf", "term:err", "next:ok", "delete:ok", "delete:err",
                  "grow:ok"],
          "arr": ["push:ok", "term:ok", "next:ok", "delete:ok", "delete:err", "shift:ok", "front:any", "prepare:any"],
          "dec": ["size:ok", "reset:ok", "call:msg", "call:more", "call:err", "call:nobuf", "feed:ok", "grant:ok"]}


def vacuity(behs, what, notes):
    """every action of the model with every class of answer occurs as the last step of an exported behaviour"""
    cnt = {}
    for beh in behs:
        st = beh[-2] if what != "dec" else beh[-1]         # encoder behaviours end with the driver's xfin
        key = "%s:%s" % (st["a"], (st.get("exp") or {}).get("ret"))
        cnt[key] = cnt.get(key, 0) + 1
    notes["model_steps_" + what] = cnt
    dead = [k for k in NEEDED[what] if not cnt.get(k)]
    if dead:
        raise vlib.MachineryError("vacuous model (%s): never taken: %s" % (what, dead))


def replay_a(ck, exe, behs, what, notes):
    """binding A for one exported model: equality with the design, Tier 1 (TLC) where they differ"""
    nmm = ndiv = nacc = faults = done = 0
    for lo in range(0, len(behs), CHUNK):
        part = behs[lo:lo + CHUNK]
        recs, _ = vlib.run_driver(exe, vlib.to_script(part), timeout=1200, env=ENV)
        faults += sum(1 for r in recs if r.get("a") in ("Crash", "Hang"))
        mms = vlib.compare(part, recs, match)
        nmm += len(mms)
        diverged = sorted({mm["b"] for mm in mms})[:400]
        if diverged:
            evs = c01.events_of(part, recs, only=set(diverged))
            bad = judge(ck, part, recs, evs, "A(replay,%s)" % what)
            ndiv += len(diverged)
            nacc += len(diverged) - len({b for b, _ in bad})
            notes.setdefault("diverged_sample", [{"b": vlib.sample_repr(part[mm["b"]]), "why": mm["why"]} for mm in mms[:2]])
        done = lo + len(part)
        if faults > MAX_FAULTS:
            notes["replay_cut_short_" + what] = "more than %d crashes/hangs; %d of %d behaviours replayed" % (MAX_FAULTS, done, len(behs))
            break
    notes["replayed_" + what] = done
    notes["design_mismatches_" + what] = nmm
    notes["design_divergences_judged_by_tlc"] = notes.get("design_divergences_judged_by_tlc", 0) + ndiv
    notes["design_divergences_accepted_by_tier1"] = notes.get("design_divergences_accepted_by_tier1", 0) + nacc
    ck.cov["evaluations"] += done


# --------------------------------------------------------------------------
# binding B inputs: call sequences only, no expected values
# --------------------------------------------------------------------------
TEXT_DELIMS = [([10], "ctx"), ([10], "buf"), ([13, 10], "buf"), ([13, 13, 10], "buf"), ([255], "ctx"),
               ([1, 2, 1], "buf"), ([0, 0], "buf"), ([65, 65], "buf"), ([65, 65, 65], "buf")]


def contains(hay, needle):
    n = len(needle)
    return any(hay[i:i + n] == needle for i in range(len(hay) - n + 1))


def text_message(rng, dl, admitted):
    """bytes around the delimiter: its prefixes, its single bytes, repetitions.  admitted: the frame m+dl holds the
    delimiter at its end only (input construction; the verdict on what the code does with it is TLC's)."""
    alpha = list(dict.fromkeys(dl + [dl[0], dl[-1], 97, 0, 32]))
    for _ in range(200):
        n = rng.choice([0, 1, 1, 2, 3, 4, 5, 8, 17, 40])
        m = [rng.choice(alpha) for _ in range(n)]
        if rng.random() < 0.4 and len(dl) > 1:
            at = rng.randrange(len(m) + 1)
            m[at:at] = dl[:rng.randrange(1, len(dl))]          # a proper prefix of the delimiter
        ok = not contains((m + dl)[:-1], dl)
        if ok == admitted:
            return m
        if not admitted:
            at = rng.randrange(len(m) + 1)
            m[at:at] = dl
            return m
    return []


def cobs_message(rng):
    runs = [0, 1, 2, 3, 29, 30, 31, 32, 60, 222, 223, 224, 254, 255, 256]
    m = []
    for _ in range(rng.choice([1, 1, 2, 3])):
        n = rng.choice(runs)
        fill = rng.choice([1, 0x41, 0xDF, 0xE0, 0xFF, None])
        m += [fill if fill else 1 + ((j * 7 + len(m)) % 255) for j in range(n)]
        m += [0] * rng.choice([0, 1, 2, 3])
    if m and rng.random() < 0.5:
        m[-1] = rng.choice([1, 2, 3, 31, 32, 0xDF, 0xE0, 0xFF])
    return m[:900]


def pushes(rng, beh, n, path, upto=None):
    """split n bytes into push steps (the driver re-offers what was not accepted); returns bytes offered"""
    left = n if upto is None else upto
    cnt = 0
    while left > 0 and cnt < 12:
        k = rng.choice([left, left, rng.randrange(1, left + 1), 1, 2, 31, 223, 254])
        k = min(k, left)
        beh.append({"a": "push", "arg": {"k": k}})
        if path == "direct" and rng.random() < 0.5:     # small steps: the next offer is accepted in part
            beh.append({"a": "grow", "arg": {"n": rng.choice([1, 1, 2, 2, 3, 5, 64, 300])}})
        left -= k
        cnt += 1


def bulk_session(rng, i):
    """array / queue path: the reader has taken most of a long earlier frame, a long message is pushed in one piece
    (mpt_array_push then takes it in many installments while it enlarges the buffer)"""
    kind = rng.choice(["cobs", "cobs_r", "zpe", "zpe_r", "cmd"])
    path = rng.choice(["array", "array", "queue"])
    n1 = rng.choice([300, 700, 1500])
    base = rng.randrange(1, 200)
    m1 = [1 + ((base + j * 7) % 255) for j in range(n1)]
    m2 = [1 + ((base + j * 11) % 255) for j in range(rng.choice([200, 700, 1100, 2400]))]
    if kind != "cmd" and rng.random() < 0.5:
        step = rng.choice([3, 31, 254])
        m2 = [0 if j % step == step - 1 else b for j, b in enumerate(m2)]
    arg = {"kind": kind, "name": NAMES[kind], "m": 0, "dl": [0], "how": "-", "cap": 0, "path": path, "msg": m1}
    beh = [{"a": "xinit", "arg": arg}, {"a": "push", "arg": {"k": n1}}, {"a": "fin", "arg": {"x": 0}},
           {"a": "shift", "arg": {"n": rng.choice([n1, n1 - 40, n1 // 2, 130])}},
           {"a": "next", "arg": {"msg": m2}}]
    if rng.random() < 0.3:
        beh.append({"a": "push", "arg": {"k": rng.choice([1, 63, 64, 65])}})
    beh += [{"a": "push", "arg": {"k": len(m2)}}, {"a": "fin", "arg": {"x": 0}}, {"a": "xfin", "arg": {"x": 0}}]
    return beh


def session(rng, i):
    """several messages in one output, deletions of the message in progress and of finished ones, a reader"""
    if i % 10 == 9:
        return bulk_session(rng, i)
    fam = rng.choice(["cobs", "cobs", "cobs", "cmd", "text", "text", "raw"])
    arg = {"m": 0, "dl": [0], "how": "-", "cap": rng.choice([0, 0, 2, 16, 64, 600])}
    if fam == "cobs":
        kind = rng.choice(["cobs", "cobs_r", "zpe", "zpe_r"])
        arg.update(kind=kind, name=rng.choice([NAMES[kind], NAMES[kind].upper()]) if kind != "zpe" else rng.choice(["cobs/zpe", "cobs/c"]),
                   path=rng.choice(["direct", "array", "queue"]))
    elif fam == "cmd":
        arg.update(kind="cmd", name="command", path=rng.choice(["direct", "array", "queue"]))
    elif fam == "text":
        dl, how = rng.choice(TEXT_DELIMS)
        arg.update(kind="text", dl=dl, how=how, path="direct", cap=len(dl) + rng.choice([0, 1, 5, 40]))
        if rng.random() < 0.3:        # the line separators the library names (mpt_newline_string)
            nl = rng.choice([1, 2, 3])
            arg.update(nl=nl, dl={1: [13], 2: [10], 3: [13, 10]}[nl], how="buf" if nl == 3 else rng.choice(["ctx", "buf"]))
            arg["cap"] = len(arg["dl"]) + rng.choice([0, 1, 5, 40])
    else:
        arg.update(kind="raw", path="array", dl=[])
    path = arg["path"]
    if path == "array" and fam != "cmd":
        arg["via"] = rng.choice([0, 0, 1, 2, 3])

    def message():
        if fam == "cobs" or fam == "raw":
            return cobs_message(rng)
        if fam == "cmd":
            return [b if b else 1 for b in cobs_message(rng)][:300]
        return text_message(rng, arg["dl"], True)

    beh = []
    nfin = 0
    shifted = False
    nmsgs = rng.choice([2, 3, 3, 4, 6])
    for j in range(nmsgs):
        m = message()
        if j == 0:
            arg["msg"] = m
            beh.append({"a": "xinit", "arg": arg})
        else:
            beh.append({"a": "next", "arg": {"msg": m}})
        abort = rng.random() < 0.3 and len(m) > 0 and fam != "raw"
        if abort:
            # the message is given up half way (what mpt_stream_push(srm, 1, 0) does after a failed push)
            part = rng.randrange(1, len(m) + 1)
            pushes(rng, beh, len(m), path, upto=part)
            if shifted and fam in ("cmd", "text"):
                beh.append({"a": "fin", "arg": {"x": 0}})       # a reader may hold the begin of the text: finish it
                nfin += 1
            else:
                beh.append({"a": "delete", "arg": {"k": 1}})
                # a refused request (its start is with the reader) leaves the message in progress: finish it
                beh.append({"a": "fin", "arg": {"x": 0}})
                nfin += 0
        else:
            if rng.random() < 0.8:
                pushes(rng, beh, len(m), path)
            beh.append({"a": "fin", "arg": {"x": 0}})
            nfin += 1
        r = rng.random()
        if r < 0.25 and not shifted and fam != "raw" and not (fam == "text" and arg["how"] == "buf"):
            beh.append({"a": "delete", "arg": {"k": rng.choice([1, 1, 2, 3, 7])}})
        elif r < 0.45 and path != "direct":
            beh.append({"a": "shift", "arg": {"n": rng.choice([1, 2, 3, 5, 64, 100000])}})
            shifted = True
            if rng.random() < 0.5:
                beh.append({"a": rng.choice(["front", "prepare"]), "arg": {"n": rng.choice([1, 64, 1000])}})
    beh.append({"a": "xfin", "arg": {"x": 0}})
    return beh


def single(rng, i):
    """one message that the framing may not admit: pushes that cut the delimiter, then the attempt to finish"""
    if i % 3 == 0:
        arg = {"kind": "cmd", "name": "command", "m": 0, "dl": [0], "how": "-", "path": rng.choice(["direct", "array", "queue"]),
               "cap": rng.choice([0, 4, 64])}
        m = [rng.choice([0, 0, 97, 98, 32]) for _ in range(rng.choice([1, 2, 3, 6, 20]))]
    else:
        dl, how = rng.choice(TEXT_DELIMS)
        arg = {"kind": "text", "m": 0, "dl": dl, "how": how, "path": "direct", "cap": len(dl) + rng.choice([0, 1, 3, 40])}
        m = text_message(rng, dl, rng.random() < 0.3)
    arg["msg"] = m
    beh = [{"a": "xinit", "arg": arg}]
    left = len(m)
    n = 0
    while left > 0 and n < 10:
        k = min(rng.choice([1, 1, 2, 3, left]), left)
        beh.append({"a": "push", "arg": {"k": k}})
        if arg["path"] == "direct":
            beh.append({"a": "grow", "arg": {"n": rng.choice([1, 2, 8])}})
        left -= k
        n += 1
    beh.append({"a": "fin", "arg": {"x": 0}})
    # give the message up and go on with one the framing admits
    beh.append({"a": "delete", "arg": {"k": 1}})
    beh.append({"a": "xfin", "arg": {"x": 0}})
    return beh


def short_block_frame(rng, kind, n):
    """a frame of n blocks '02 xx' (COBS family): every code byte stands for a zero of the message"""
    body = []
    for _ in range(n):
        body += [2, rng.choice([1, 65, 200])]
    return body + [0]


def dec_schedule(rng, i, frames):
    """feed / call / peek / grant with size queries and resets at frame boundaries and inside frames"""
    kind = rng.choice(["cobs", "cobs_r", "zpe", "zpe_r", "cmd"])
    arg = {"kind": kind, "m": 0, "slack": rng.choice([0, 2, 16, 64]), "name": NAMES[kind]}
    beh = [{"a": "dinit", "arg": arg}]
    stream = []
    probe = i % 4 == 0
    if probe and kind != "cmd":
        # a frame of at least 255 short blocks first: the size of its unread rest is asked for below
        stream += short_block_frame(rng, kind, rng.choice([255, 256, 300, 520]))
    for _ in range(rng.choice([1, 2, 3]) if not stream else 0):
        r = rng.random()
        cand = [f for (k, f) in frames if k == kind]
        if kind != "cmd" and r < 0.35:
            stream += short_block_frame(rng, kind, rng.choice([3, 120, 255, 256, 300, 520]))
        elif cand and r < 0.85:
            stream += rng.choice(cand)
        else:
            stream += [rng.choice([1, 2, 3, 65, 0xE0, 0xE2, 0xFF]) for _ in range(rng.choice([1, 5, 40]))] + [0]
    pos = 0
    if probe:
        # the first bytes are decoded, the rest of the stream is there but not yet read: ask for its size
        k = min(rng.choice([1, 1, 2, 3]), len(stream))
        beh.append({"a": "feed", "arg": {"data": stream[:k]}})
        beh.append({"a": "call", "arg": {"seg": 0, "mis": rng.randrange(16)}})
        beh.append({"a": "grant", "arg": {"k": 8, "cond": 1}})
        beh.append({"a": "call", "arg": {"seg": 0, "mis": 0}})
        if len(stream) > k:
            beh.append({"a": "feed", "arg": {"data": stream[k:]}})
            beh.append({"a": "size", "arg": {"n": len(stream) - k}})
        pos = len(stream)
        for _ in range(4):
            beh.append({"a": "call", "arg": {"seg": rng.choice([0, 2, 3]), "mis": rng.randrange(16)}})
            beh.append({"a": "grant", "arg": {"k": rng.choice([64, 600]), "cond": 1}})
    while pos < len(stream) and len(beh) < 60:
        k = min(rng.choice([1, 1, 2, 3, 7, 64, 300, len(stream)]), len(stream) - pos)
        beh.append({"a": "feed", "arg": {"data": stream[pos:pos + k]}})
        pos += k
        r = rng.random()
        if r < 0.45:
            beh.append({"a": "size", "arg": {"n": rng.choice([1, 2, k, k, len(stream), 600, 1100])}})
        for _ in range(rng.choice([1, 1, 2])):
            beh.append({"a": "call", "arg": {"seg": rng.choice([0, 0, 1, 2, 3, 4, 5]), "mis": rng.randrange(16)}})
            beh.append({"a": "grant", "arg": {"k": rng.choice([2, 3, 8, 64, 600]), "cond": 1}})
        r = rng.random()
        if r < 0.15:
            beh.append({"a": "peek", "arg": {"x": 0}})
        elif r < 0.35:
            beh.append({"a": "reset", "arg": {"x": 0}})
            if rng.random() < 0.5:
                beh.append({"a": "reset", "arg": {"x": 0}})
        elif r < 0.5:
            beh.append({"a": "size", "arg": {"n": rng.choice([1, 3, 64, 600])}})
    return beh


def queue_schedule(rng, i, frames):
    """decode_queue: bytes arrive in pieces, mpt_queue_peek between the mpt_queue_recv calls"""
    kind = "cmd" if i % 2 == 0 else rng.choice(["cobs", "cobs_r", "zpe", "zpe_r", "cmd"])
    beh = [{"a": "qinit", "arg": {"kind": kind, "m": 0, "name": NAMES[kind]}}]
    stream = []
    cand = [f for (k, f) in frames if k == kind]
    for _ in range(rng.choice([1, 2, 3, 5])):
        if kind == "cmd" and rng.random() < 0.6:
            stream += [rng.choice([97, 98, 32, 45, 1, 255]) for _ in range(rng.choice([0, 1, 2, 5, 30, 300]))] + [0]
        elif cand:
            stream += rng.choice(cand)
        else:
            stream += [1, 0]
    pos = 0
    while pos < len(stream) and len(beh) < 80:
        k = min(rng.choice([1, 2, 3, 3, 5, 7, 64, 300, len(stream)]), len(stream) - pos)
        beh.append({"a": "qfeed", "arg": {"data": stream[pos:pos + k]}})
        pos += k
        for _ in range(rng.choice([1, 2, 3])):
            if rng.random() < 0.6:
                beh.append({"a": "qpeek", "arg": {"max": rng.choice([0, 1, 4, 64, 1000])}})
            beh.append({"a": "qrecv", "arg": {"x": 0}})
    for _ in range(3):
        beh.append({"a": "qpeek", "arg": {"max": 64}})
        beh.append({"a": "qrecv", "arg": {"x": 0}})
    return beh


def nontrivial(beh):
    """a deletion, a delimiter longer than one byte, a reader taking bytes, a size query or a reset took part"""
    acts = {s["a"] for s in beh}
    a0 = beh[0].get("arg") or {}
    return bool(acts & {"delete", "shift", "size", "reset", "qpeek"}) or len(a0.get("dl") or []) > 1


# --------------------------------------------------------------------------
def run_part(ck, tier):
    import time
    cfg = CFG[tier]
    t0 = time.time()
    exe = build()
    notes = ck.notes.setdefault("x01_codec", {})
    phases = notes.setdefault("wall_phases_s", {})
    phases["build"] = round(time.time() - t0, 1)

    # 1. exhaustive model check (started now, collected at the end) and behaviour export side by side
    pool = concurrent.futures.ThreadPoolExecutor(max_workers=2)
    fmc = pool.submit(vlib.tlc, "MC_CodecOps", cfg["mc"], workers=max(vlib.NCPU // 2, 2), tag="MC_CodecOps_" + tier)
    gen = vlib.tlc("Gen_CodecOps", cfg["gen"], workers=6, tag="Gen_CodecOps_" + tier)
    if gen.error or gen.violation:
        raise vlib.MachineryError("behaviour export failed: %s %s" % (gen.error, gen.violation))
    parts = parse_gen(gen.out)
    del gen

    # 2. binding A
    nt = set()
    samples = []
    for what in ("enc", "arr", "dec"):
        behs = parts[what]
        if not behs:
            raise vlib.MachineryError("behaviour export empty (%s)" % what)
        vacuity(behs, what, notes)
        if what == "arr":
            for i, beh in enumerate(behs):           # schedule choice: the pushed bytes handed over as a message of parts
                if beh[0]["arg"].get("kind") != "cmd":   # (push(message) only says yes/no: not for offers that may be refused half way)
                    beh[0]["arg"]["via"] = i % 4
        replay_a(ck, exe, behs, what, notes)
        for beh in behs:
            if nontrivial(beh):
                nt.add(json.dumps([(s["a"], s.get("arg")) for s in beh], sort_keys=True))
        samples.append(vlib.sample_repr(behs[len(behs) // 2][:8]))
    del parts

    phases["export+replay"] = round(time.time() - t0, 1)
    # 3. binding B: production constants, public paths, codecs by name
    rng = ck.rng
    sess = [session(rng, i) for i in range(cfg["nsess"])] + [single(rng, i) for i in range(cfg["nsingle"])]
    srecs, _ = vlib.run_driver(exe, vlib.to_script(sess), timeout=1200, env=ENV)
    frames = []
    byb = vlib.group_records(srecs)
    for b, beh in enumerate(sess):
        k = beh[0]["arg"].get("kind")
        for r in byb.get(b, []):
            o = r.get("obs") or {}
            if r.get("a") == "fin" and o.get("ret") == "ok" and k in NAMES and len(o.get("frame") or []) < 1200:
                frames.append((k, o["frame"]))
    decs = [dec_schedule(rng, i, frames) for i in range(cfg["ndec"])]
    ques = [queue_schedule(rng, i, frames) for i in range(cfg["nqueue"])]
    drecs, _ = vlib.run_driver(exe, vlib.to_script(decs + ques), timeout=1200, env=ENV)
    allb = sess + decs + ques
    ev_s = c01.events_of(sess, srecs)
    ev_d = c01.events_of(decs + ques, drecs)
    for e in ev_d:
        e["b"] += len(sess)
    for r in drecs:
        if isinstance(r.get("b"), int):
            r["b"] += len(sess)
    bad = judge(ck, allb, srecs + drecs, ev_s + ev_d, "B(trace,production)")
    nbad = len({b for b, _ in bad})
    ck.cov["traces_validated_against_impl"] += len(allb) - nbad
    ck.cov["evaluations"] += len(allb)
    for beh in allb:
        if nontrivial(beh):
            nt.add(json.dumps([(s["a"], s.get("arg")) for s in beh], sort_keys=True))
    notes["production_traces"] = {"sessions": cfg["nsess"], "single_messages": cfg["nsingle"], "decoder_schedules": len(decs),
                                  "queue_schedules": len(ques), "events": len(ev_s) + len(ev_d), "rejected": nbad}
    acts = {}
    for e in ev_s + ev_d:
        key = e["a"] + ":" + str((e.get("obs") or {}).get("ret"))
        acts[key] = acts.get(key, 0) + 1
    notes["production_answers"] = acts
    ck.cov["distinct_nontrivial"] += len(nt)

    phases["production"] = round(time.time() - t0, 1)
    # 4. the exhaustive model check that ran meanwhile
    ck.add_tlc(fmc.result(), "exhaustive CodecOps " + cfg["mc"])
    pool.shutdown()
    phases["model_checks_collected"] = round(time.time() - t0, 1)
    ck.cov["samples"] = ck.cov.get("samples", []) + samples[:2]
    notes["rule"] = ("A: one behaviour per transition of the TLC state graphs of CodecOps (encoder sessions under the view "
                     "framing / bytes to push / bytes of the message in progress / open block / free room / frame ends / "
                     "reader position; decoder under the view of Gen_CobsDec) that contains a size query or reset "
                     "(decoder) resp. any step (encoder), replayed into the scaled codecs, mpt_encode_string and a real "
                     "encode_array; B: seeded sessions (2..6 messages, aborted messages, deletions, reader) through the "
                     "bare encoders, encode_array and encode_queue with the codec chosen by encoding name, single "
                     "messages the framing may not admit, decoder schedules with size queries / resets, decode_queue "
                     "recv/peek schedules, all validated by TLC.  Non-trivial: the behaviour holds a deletion, a reader "
                     "step, a size query, a reset, a queue peek or a delimiter longer than one byte.")
    ck.assumptions += ["x01: drv/codecops.c / codecops_cxx.cpp move bytes and follow the caller protocol without judgement "
                       "(a caller keeping a delimiter longer than one byte writes it behind the finished data and sets "
                       "state.scratch, as encode_string.c expects)",
                       "x01: text framings with other delimiters than zero have no decoder in the library; their frames are "
                       "read by the reference text decoder of CodecOps.tla only"]
    return ck


def replay(det, path=""):
    """Re-run the behaviour of a violation file written by run_part; returns 0/1/2 like check.py --replay."""
    beh = det.get("behaviour")
    if not beh:
        print(json.dumps(det, indent=1)[:4000])
        return 2
    exe = build()
    recs, _ = vlib.run_driver(exe, vlib.to_script([beh]), env=ENV)
    evs = c01.events_of([beh], recs)
    rej, _ = c01.tlc_trace("Trace_CodecOps", evs, "Trace_CodecOps_replay")
    for idx in rej:
        print("VIOLATION property=C01 replay=%s  (x01 trace rejected at event %d: %s)" % (path, idx, json.dumps(evs[idx])[:600]))
    return 1 if rej else 0
