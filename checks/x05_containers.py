"""Extension of C05 (with C04 as second ingredient): containers of managed elements (spec/Containers.tla).

C++ reference_array<T>, item_array<T>/item<T>, item_group + add_items (drv/containers.cpp); C fixtures for the
library's own managed element types: config items (mpt_config_item_reserve/_query + traits), commands
(mpt_command_set/_clear + traits), rawdata stages / value stores (mpt_stage_data + traits) (drv/containers.c).

run_part(ck, tier) adds TLC results, replay and trace counts, violations and notes to the Check of the base property.
"""
import json
import os
import subprocess
import sys

sys.path.insert(0, os.path.join(os.path.dirname(os.path.dirname(os.path.abspath(__file__))), "bin"))
import vlib  # noqa: E402

PART = "x05_containers"
CXX_KINDS = ("ref", "item", "group")
C_KINDS = ("cfg", "cmd", "stage")
CFG = {
    "quick":    dict(mc=("MC_Containers.cfg", "MC_Containers_cfg.cfg"), gen="Gen_Containers.cfg", nhist=8, steps=40,
                     iomc="MC_IoBuf.cfg", iogen="Gen_IoBuf.cfg", ionhist=10, iosteps=40),
    "thorough": dict(mc=("MC_Containers_t.cfg", "MC_Containers_t2.cfg", "MC_Containers_cfg_t.cfg",
                         "MC_Containers_cfg_t2.cfg"), gen="Gen_Containers_t.cfg",
                     nhist=40, steps=80, iomc="MC_IoBuf_t.cfg", iogen="Gen_IoBuf_t.cfg", ionhist=80, iosteps=80),
}
ANY_OUT = -99
KEYS = ("vals", "refs", "fin", "under")


def enabled():
    """The part needs its fix commits (docs/X05_containers.md) in the tree under test: it is switched on by the marker file
    checks/x05_containers.accepted (created when those commits are integrated) or by VERIF_X05=1, off by VERIF_X05=0."""
    env = os.environ.get("VERIF_X05")
    if env is not None:
        return env not in ("0", "")
    return os.path.exists(os.path.join(vlib.ROOT, "checks", "x05_containers.accepted"))


def match(exp, obs, step=None, rec=None, prev=None):
    why = regular(exp, obs)
    alt = exp.get("alt")
    if why and alt and (rec or {}).get("dbg", {}).get("fired") and (obs.get("ret") == "refused" or exp["ret"] == "any"):
        # the injected allocation failure struck: TLC's expectation for the failed outcome (everything reads as before);
        # the model state went on with the regular outcome, the rest of the behaviour is not comparable
        for k in ("vals", "refs"):
            if obs.get(k) != alt[k]:
                return "%s: expected %s after the failed call, observed %s" % (k, json.dumps(alt[k])[:300], json.dumps(obs.get(k))[:300])
        if obs.get("under") != 0:
            return "under: expected 0, observed %s" % obs.get("under")
        return vlib.STOP
    return why


def regular(exp, obs):
    for k in KEYS:
        if obs.get(k) != exp[k]:
            return "%s: expected %s, observed %s" % (k, json.dumps(exp[k])[:300], json.dumps(obs.get(k))[:300])
    if exp["ret"] != "any" and obs.get("ret") != exp["ret"]:
        return "ret: expected %s, observed %s" % (exp["ret"], obs.get("ret"))
    if exp["out"] != ANY_OUT and obs.get("out") != exp["out"]:
        return "out: expected %s, observed %s" % (exp["out"], obs.get("out"))
    if exp["leak"] != -1 and obs.get("leak") != exp["leak"]:
        return "leak: expected %s, observed %s" % (exp["leak"], obs.get("leak"))
    return None


# --------------------------------------------------------------------------
# signatures: action + class of the failing step, computed from arguments and the previous state
# --------------------------------------------------------------------------
def argclass(step, prev_mdl, prev_vals):
    a, arg = step["a"], step.get("arg") or {}
    h = arg.get("h", 1) - 1
    parts = []
    if prev_mdl is not None and 0 <= h < len(prev_mdl["refs"]):
        used = len(prev_vals[h]) if prev_vals else 0
        if prev_mdl["null"][h]:
            parts.append("null")
        else:
            if prev_mdl["refs"][h] > 1:
                parts.append("shared")
            if used == 0:
                parts.append("empty")
        pos = arg.get("pos", arg.get("off", arg.get("dim")))
        if pos is not None:
            if pos < 0:
                pos += used
            if pos < 0:
                parts.append("pos<0")
            elif pos > used:
                parts.append("pos>used")
            elif pos == used:
                parts.append("pos=end")
        if arg.get("o") == 0:
            parts.append("o=0")
        if arg.get("q"):
            parts.append("nested")
        if a == "cfgdel":
            parts.append("mode=%d" % arg.get("mode", 0))
        if a == "resize" and arg.get("len", 0) < used:
            parts.append("len<used")
    return ",".join(parts) or "plain"


def signature(kind, mm_why, beh, i):
    st = beh[i]
    prev = beh[i - 1] if i else None
    why = mm_why.split(":")[0].lower()
    cls = argclass(st, prev and prev.get("mdl"), prev and prev.get("exp", {}).get("vals"))
    return "x:%s:%s:%s:%s" % (kind, st["a"], why, cls)


def trace_sig(hist, events, k):
    ev = events[k]
    prev = events[k - 1] if k and events[k - 1]["b"] == ev["b"] else None
    why = ev["a"].lower() if ev["a"] in ("Crash", "Hang", "Missing") else "rejected"
    beh = hist[ev["b"]]
    st = beh[ev["i"]]
    kind = beh[0]["arg"]["kind"]
    if prev and "dbg" in prev and "obs" in prev:
        pm = {"refs": prev["dbg"].get("refs", []), "null": prev["dbg"].get("null", [])}
        cls = argclass(st, pm, prev["obs"].get("vals"))
    else:
        cls = "first"
    return "x:%s:%s:%s:%s" % (kind, st["a"], why, cls), prev


# --------------------------------------------------------------------------
# builds
# --------------------------------------------------------------------------
_BUILT = {}


def build_seam():
    """drv/containers_seam.c (the repository's buffer_alloc.c and identifier.c with failure injection) compiled as C."""
    odir = vlib.ensure(os.path.join(vlib.WORK, "drv-" + vlib.repo_key()))
    obj = os.path.join(odir, "containers_seam.o")
    cmd = ["clang"] + vlib.SAN_FLAGS.split() + ["-c", "-I" + vlib.DRV] + ["-I" + os.path.join(vlib.REPO, i) for i in vlib.INCLUDES]
    cmd += [os.path.join(vlib.DRV, "containers_seam.c"), "-o", obj + ".tmp%d" % os.getpid()]
    r = subprocess.run(cmd, stdout=subprocess.PIPE, stderr=subprocess.STDOUT, text=True)
    if r.returncode:
        raise vlib.MachineryError("seam build failed:\n" + r.stdout[-3000:])
    os.replace(obj + ".tmp%d" % os.getpid(), obj)
    return obj


def build(kind):
    key = "cxx" if kind in CXX_KINDS else "c"
    if key not in _BUILT:
        if key == "cxx":
            _BUILT[key] = vlib.build_driver("containers_cxx", ["containers.cpp", build_seam()],
                                            libs=("mptcore", "mptplot", "mpt++"), cxx=True)
        else:
            _BUILT[key] = vlib.build_driver("containers_c", ["containers.c"], libs=("mptcore", "mptplot"))
    return _BUILT[key]


# --------------------------------------------------------------------------
# binding A
# --------------------------------------------------------------------------
def kind_of(beh):
    return beh[0]["arg"]["kind"]


def seq_key(beh):
    return json.dumps([(s["a"], s.get("arg")) for s in beh], sort_keys=True)


def nontrivial(recs):
    """a call released at least one reference while another element kept one alive (counters logged by the harness),
    or was made through a handle whose buffer was shared."""
    prev = None
    for r in recs:
        o, d = r.get("obs"), r.get("dbg")
        if prev is not None and o and o.get("refs") and prev.get("refs"):
            if any(x < y for x, y in zip(o["refs"], prev["refs"])) and sum(o["refs"]) > len(o["refs"]):
                return True
        if d and any(x > 1 for x in d.get("refs", [])) and r.get("a") not in ("copy", "init"):
            return True
        if o:
            prev = o
    return False


def do_replay(key, behs):
    """replay + comparison for one driver (thread safe: no bookkeeping on the Check)"""
    exe = build("ref" if key == "cxx" else "cfg")
    recs, _ = vlib.run_driver(exe, vlib.to_script(behs), timeout=1500)
    mms = vlib.compare(behs, recs, match)
    found = []
    for mm in mms:
        beh = behs[mm["b"]]
        found.append((signature(kind_of(beh), mm["why"], beh, mm["i"]),
                      {"binding": "A(replay)", "part": PART, "behaviour": beh[:mm["i"] + 1], "step": mm["i"],
                       "why": mm["why"], "record": mm["rec"]}))
    by = vlib.group_records(recs)
    nt = set()
    per = {}
    for b, beh in enumerate(behs):
        k = kind_of(beh)
        per[k] = per.get(k, 0) + 1
        if nontrivial(by.get(b, [])):
            nt.add(k + seq_key(beh))
    mid = len(behs) // 2
    return dict(key=key, found=found, nt=nt, note=dict(behaviours=len(behs), steps=sum(len(b) for b in behs),
                                                        mismatches=len(mms), per_kind=per),
                samples=[vlib.sample_repr(b) for b in behs[mid:mid + 1]])


def do_gen(cfgname):
    gen = vlib.tlc("Gen_Containers", cfgname, workers=1, tag="Gen_Containers")
    if gen.error or gen.violation:
        raise vlib.MachineryError("behaviour export failed (%s): %s %s" % (cfgname, gen.error, gen.violation or ""))
    behs = vlib.parse_behaviours(gen.out)
    gen.out = ""
    return behs, gen.generated, gen.distinct


# --------------------------------------------------------------------------
# binding B: seeded call sequences (inputs only)
# --------------------------------------------------------------------------
NH, NO, NN = 4, 4, 5
HEAP_NAMES = (2, 5)
SOLO = (3, 4)        # objects that refuse further references (Trace_Containers.cfg: Solo); 4 = a library text metatype (cfg)


def gen_history(rng, kind, steps):
    beh = [{"a": "init", "arg": {"kind": kind, "n": NH, "no": NO, "solo": list(SOLO)}}]
    est = [0] * NH

    def pos(h):
        return rng.choice([0, 0, 1, -1, -2, est[h], est[h] // 2, max(0, est[h] - 1), est[h] + 1, rng.randrange(0, 12)])

    def obj():
        return rng.choice([0] + list(range(1, NO + 1)) * 2)

    def fail():
        """which allocation of the call is made to fail (0: none)"""
        return rng.choice([0, 0, 0, 0, 1, 1, 2])

    def name(f=0, long_ok=False):
        """name index; 99 = a name too long to be stored; names 2 and 5 need storage of their own"""
        if long_ok and rng.random() < 0.15:
            return 99
        return rng.choice([n for n in range(0, NN + 1) if not (f and n in HEAP_NAMES)])

    for _ in range(steps):
        h = rng.randrange(NH)
        g = rng.choice([x for x in range(NH) if x != h])
        r = rng.random()
        if r < 0.12:
            beh.append({"a": "copy", "arg": {"h": h + 1, "from": g + 1}})
            est[h] = est[g]
            continue
        if r < 0.17:
            beh.append({"a": "release", "arg": {"h": h + 1}})
            est[h] = 0
            continue
        if kind == "ref":
            op = rng.choice(["rinsert"] * 4 + ["rset"] * 3 + ["rclear", "rclear", "rcompact", "count", "resize", "reserve", "ctor"])
            if op == "rinsert":
                beh.append({"a": op, "arg": {"h": h + 1, "pos": pos(h), "o": obj(), "f": fail()}})
                est[h] += 1
            elif op == "rset":
                beh.append({"a": op, "arg": {"h": h + 1, "pos": pos(h), "o": obj()}})
            elif op == "rclear":
                beh.append({"a": op, "arg": {"h": h + 1, "o": obj()}})
            elif op in ("rcompact", "count"):
                beh.append({"a": op, "arg": {"h": h + 1}})
            elif op == "ctor":
                beh.append({"a": op, "arg": {"h": h + 1, "len": rng.choice([-1, 0, 1, 3, 9])}})
            elif op == "resize":
                k = rng.choice([0, 1, est[h], max(0, est[h] - 1), est[h] + 2, rng.randrange(0, 20)])
                beh.append({"a": op, "arg": {"h": h + 1, "len": k, "f": fail()}})
                est[h] = k
            else:
                beh.append({"a": op, "arg": {"h": h + 1, "len": rng.choice([-1, -2, 0, est[h], est[h] + 3, 17])}})
        elif kind == "item":
            op = rng.choice(["iappend"] * 4 + ["iinsert", "iset", "iset", "ielem", "ielem", "icompact", "icompact", "count",
                                              "resize", "reserve", "ctor"])
            if op == "iappend":
                beh.append({"a": op, "arg": {"h": h + 1, "o": obj(), "n": name(long_ok=True), "f": fail()}})
                est[h] += 1
            elif op == "iinsert":
                beh.append({"a": op, "arg": {"h": h + 1, "pos": pos(h), "f": fail()}})
                est[h] += 1
            elif op == "iset":
                f = fail()
                beh.append({"a": op, "arg": {"h": h + 1, "pos": pos(h), "o": obj(), "n": name(f), "f": f}})
            elif op == "ielem":
                beh.append({"a": op, "arg": {"h": h + 1, "pos": max(0, pos(h)), "o": obj()}})
            elif op in ("icompact", "count"):
                beh.append({"a": op, "arg": {"h": h + 1}})
            elif op == "ctor":
                beh.append({"a": op, "arg": {"h": h + 1, "len": rng.choice([-1, 0, 1, 3, 9])}})
            elif op == "resize":
                k = rng.choice([0, 1, est[h], max(0, est[h] - 1), est[h] + 2, rng.randrange(0, 12)])
                beh.append({"a": op, "arg": {"h": h + 1, "len": k, "f": fail()}})
                est[h] = k
            else:
                beh.append({"a": op, "arg": {"h": h + 1, "len": rng.choice([-1, -2, 0, est[h], est[h] + 3, 9])}})
        elif kind == "group":
            op = rng.choice(["gappend"] * 4 + ["gadd"] * 2 + ["gclear"] * 3)
            if op in ("gappend", "gadd"):
                f = fail()
                beh.append({"a": op, "arg": {"h": h + 1, "o": rng.randrange(1, NO + 1), "n": name(f), "f": f}})
                est[h] += 1
            else:
                beh.append({"a": op, "arg": {"h": h + 1, "o": rng.randrange(1, NO + 1)}})
        elif kind == "cfg":
            op = rng.choice(["cfgset"] * 6 + ["cfgq"] * 2 + ["cfgdel"] * 3 + ["tcopy", "cut", "reuse"])
            p, q = rng.randrange(1, NN + 1), rng.choice([0, 0, 0] + list(range(1, NN + 1)))
            if op == "reuse":
                # an element with nested elements is marked unused and its slot taken over by another name
                p2 = rng.choice([x for x in range(1, NN + 1) if x != p])
                p3 = rng.choice([x for x in range(1, NN + 1) if x != p])
                beh.append({"a": "cfgset", "arg": {"h": h + 1, "p": p, "q": rng.randrange(1, NN + 1), "o": obj()}})
                beh.append({"a": "cfgset", "arg": {"h": h + 1, "p": p2, "q": rng.choice([0, 0, 1]), "o": obj()}})
                beh.append({"a": "cfgdel", "arg": {"h": h + 1, "p": p, "q": 0, "mode": 1}})
                beh.append({"a": "cfgset", "arg": {"h": h + 1, "p": p3, "q": rng.choice([0, 0, 2]), "o": obj()}})
                est[h] += 2
                continue
            if op == "cfgset":
                beh.append({"a": op, "arg": {"h": h + 1, "p": p, "q": q, "o": obj()}})
                est[h] += 1
            elif op == "cfgq":
                beh.append({"a": op, "arg": {"h": h + 1, "p": p, "q": q}})
            elif op == "cfgdel":
                beh.append({"a": op, "arg": {"h": h + 1, "p": p, "q": q, "mode": rng.choice([0, 0, 1, 1, 2])}})
            elif op == "tcopy":
                beh.append({"a": op, "arg": {"h": h + 1, "from": g + 1, "off": rng.choice([0, est[h], max(0, est[h] - 1), 1])}})
            else:
                beh.append({"a": op, "arg": {"h": h + 1, "off": rng.choice([0, 1, est[h], 2]), "n": rng.choice([0, 1, 1, 2, est[h]])}})
        elif kind == "cmd":
            op = rng.choice(["cmdset"] * 7 + ["cmdclear", "tcopy", "cut", "cut"])
            if op == "cmdset":
                beh.append({"a": op, "arg": {"h": h + 1, "id": rng.randrange(1, NN + 1), "tok": obj()}})
            elif op == "cmdclear":
                beh.append({"a": op, "arg": {"h": h + 1}})
            elif op == "tcopy":
                beh.append({"a": op, "arg": {"h": h + 1, "from": g + 1, "off": rng.choice([0, 1, 2])}})
            else:
                beh.append({"a": op, "arg": {"h": h + 1, "off": rng.choice([0, 1, 2, 3]), "n": rng.choice([0, 1, 1, 2])}})
        else:
            op = rng.choice(["stage"] * 6 + ["tcopy", "cut", "cut"])
            if op == "stage":
                d = rng.choice([0, 0, 1, 1, 2, 3, est[h], est[h] + 1, rng.randrange(0, 9)])
                beh.append({"a": op, "arg": {"h": h + 1, "dim": d, "o": obj()}})
                est[h] = max(est[h], d + 1)
            elif op == "tcopy":
                beh.append({"a": op, "arg": {"h": h + 1, "from": g + 1, "off": rng.choice([0, est[h], max(0, est[h] - 1), 1])}})
            else:
                beh.append({"a": op, "arg": {"h": h + 1, "off": rng.choice([0, 1, est[h], 2]), "n": rng.choice([0, 1, 1, 2, est[h]])}})
    beh.append({"a": "final", "arg": {"n": NH}})
    return beh


def record_traces(ck, cfg, kinds=CXX_KINDS + C_KINDS):
    hist = []
    for kind in kinds:
        for _ in range(cfg["nhist"]):
            hist.append(gen_history(ck.rng, kind, cfg["steps"]))
    recs = []
    order = []
    for key, ks in (("cxx", CXX_KINDS), ("c", C_KINDS)):
        idx = [i for i, b in enumerate(hist) if kind_of(b) in ks]
        if not idx:
            continue
        rr, _ = vlib.run_driver(build(ks[0]), vlib.to_script([hist[i] for i in idx]))
        for r in rr:
            if isinstance(r.get("b"), int) and 0 <= r["b"] < len(idx):
                r["b"] = idx[r["b"]]
        recs += rr
        order += idx
    return hist, recs, vlib.merge_trace(hist, recs)


def validate_traces(ck, hist, events, module="Trace_Containers", sigfn=None):
    """TLC validates the recorded events; an event rejected with the signature of an open known finding cuts its
    behaviour there and validation is repeated on the rest (pattern of checks/c04.py)."""
    total_gen, cuts, confirmed = 0, 0, set()
    tag = module
    sigfn = sigfn or trace_sig
    for _ in range(12):
        ok, matched, tres = vlib.validate_trace(module, events, tag=tag, xss="1g")
        total_gen += tres.generated
        if ok:
            return True, matched, total_gen, cuts
        ok2, matched2, _ = vlib.validate_trace(module, events, tag=tag, xss="1g")
        if ok2 or matched2 != matched:
            continue
        if matched >= len(events):
            ck.violation("x:trace:short", {"binding": "B(trace validation)", "part": PART, "matched_prefix": matched})
            return False, matched, total_gen, cuts
        ev = events[matched]
        sig, prev = sigfn(hist, events, matched)
        detail = {"binding": "B(trace validation)", "part": PART, "io": module == "Trace_IoBuf", "matched_prefix": matched,
                  "rejected_event": ev,
                  "previous_event": prev, "behaviour": hist[ev["b"]][:ev["i"] + 1]}
        if ck.violation(sig, detail):
            return False, matched, total_gen, cuts
        confirmed.add(sig)
        drop = {ev["b"]: ev["i"]}
        for k, e in enumerate(events):
            if e["b"] in drop or "obs" not in e:
                continue
            if sigfn(hist, events, k)[0] in confirmed:
                drop[e["b"]] = e["i"]
        cuts += len(drop)
        events = [e for e in events if e["b"] not in drop or e["i"] < drop[e["b"]]]
    raise vlib.MachineryError("trace validation did not settle after 12 rounds")



# --------------------------------------------------------------------------
# io::buffer over copy-on-write arrays (spec/IoBuf.tla, drv/iobuf.cpp)
# --------------------------------------------------------------------------
IO_KEYS = ("arrs", "q", "pos", "on", "data")


def io_match(exp, obs, step=None, rec=None, prev=None):
    for k in IO_KEYS:
        if obs.get(k) != exp[k]:
            return "%s: expected %s, observed %s" % (k, json.dumps(exp[k])[:300], json.dumps(obs.get(k))[:300])
    if exp["ret"] != "any" and obs.get("ret") != exp["ret"]:
        return "ret: expected %s, observed %s" % (exp["ret"], obs.get("ret"))
    if exp["out"] != ANY_OUT and obs.get("out") != exp["out"]:
        return "out: expected %s, observed %s" % (exp["out"], obs.get("out"))
    return None


def io_class(step, pos, scratch, q):
    arg = step.get("arg") or {}
    k = arg.get("k", 0) - 1
    parts = []
    if pos is not None and 0 <= k < len(pos):
        if pos[k] > 0:
            parts.append("consumed")
        if scratch and scratch[k] > 0:
            parts.append("unfinished")
        if q is not None and not q[k]:
            parts.append("empty")
    if arg.get("n") == 0 or ("data" in arg and not arg["data"]):
        parts.append("n=0")
    if arg.get("esz") == 0:
        parts.append("esz=0")
    return ",".join(parts) or "plain"


def io_signature(why, beh, i):
    st = beh[i]
    prev = beh[i - 1] if i else None
    pe, pm = (prev or {}).get("exp"), (prev or {}).get("mdl")
    return "x:io:%s:%s:%s" % (st["a"], why.split(":")[0].lower(),
                              io_class(st, pe and pe["pos"], pm and pm["scratch"], pe and pe["q"]))


def io_trace_sig(hist, events, k):
    ev = events[k]
    prev = events[k - 1] if k and events[k - 1]["b"] == ev["b"] else None
    why = ev["a"].lower() if ev["a"] in ("Crash", "Hang", "Missing") else "rejected"
    st = hist[ev["b"]][ev["i"]]
    if prev and "obs" in prev and "dbg" in prev:
        cls = io_class(st, prev["obs"].get("pos"), prev["dbg"].get("scratch"), prev["obs"].get("q"))
    else:
        cls = "first"
    return "x:io:%s:%s:%s" % (st["a"], why, cls), prev


def build_io():
    if "io" not in _BUILT:
        _BUILT["io"] = vlib.build_driver("iobuf_cxx", ["iobuf.cpp"], libs=("mptcore", "mptio", "mpt++"), cxx=True)
    return _BUILT["io"]


def io_nontrivial(recs):
    """bytes were written behind a consumed prefix, or a buffer was written while another buffer / array held the
    same content (clone / construction from an array logged before)."""
    seen_share = False
    for r in recs:
        o, d = r.get("obs"), r.get("dbg")
        if r.get("a") in ("bclone", "bnew") and o and o.get("ret") == "ok":
            seen_share = True
        if r.get("a") in ("bwrite", "bpush", "bshift") and o and d:
            if seen_share or any(p > 0 for p in o.get("pos", [])):
                return True
    return False


def do_io_replay(cfgname):
    gen = vlib.tlc("Gen_IoBuf", cfgname, workers=1, tag="Gen_IoBuf")
    if gen.error or gen.violation:
        raise vlib.MachineryError("behaviour export failed (%s): %s %s" % (cfgname, gen.error, gen.violation or ""))
    behs = vlib.parse_behaviours(gen.out)
    gen.out = ""
    recs, _ = vlib.run_driver(build_io(), vlib.to_script(behs), timeout=1500)
    mms = vlib.compare(behs, recs, io_match)
    found = []
    for mm in mms:
        beh = behs[mm["b"]]
        found.append((io_signature(mm["why"], beh, mm["i"]),
                      {"binding": "A(replay)", "part": PART, "io": True, "behaviour": beh[:mm["i"] + 1], "step": mm["i"],
                       "why": mm["why"], "record": mm["rec"]}))
    by = vlib.group_records(recs)
    nt = set()
    for b, beh in enumerate(behs):
        if io_nontrivial(by.get(b, [])):
            nt.add("io" + seq_key(beh))
    mid = len(behs) // 2
    return dict(key="io", found=found, nt=nt,
                note=dict(behaviours=len(behs), steps=sum(len(b) for b in behs), mismatches=len(mms),
                          transitions=gen.generated, skeleton_states=gen.distinct),
                samples=[vlib.sample_repr(b) for b in behs[mid:mid + 1]], transitions=gen.generated)


IO_NA, IO_NB = 3, 3
IO_EDGES = (0, 1, 2, 3, 62, 63, 64, 65, 127, 128, 129)


def gen_io_history(rng, steps):
    beh = [{"a": "init", "arg": {"na": IO_NA, "nb": IO_NB}}]
    ctr = [0]

    def data(n, text=False):
        d = []
        for _ in range(n):
            ctr[0] += 1
            d.append(0 if (text and rng.random() < 0.25) else 1 + ctr[0] % 250)
        return d

    def length():
        return rng.choice([0, 1, 1, 2, 3, 4, 6, rng.randrange(0, 40), rng.choice(IO_EDGES)])

    for _ in range(steps):
        k = rng.randrange(IO_NB) + 1
        h = rng.randrange(IO_NA) + 1
        op = rng.choice(["aset", "aappend", "bnew", "bnew", "bclone", "brelease", "bwrite", "bwrite", "bwrite", "bpush", "bread",
                         "bread", "bread", "bshift", "bshift", "breset", "bvalue", "badvance", "badvance"])
        if op in ("aset", "aappend"):
            beh.append({"a": op, "arg": {"h": h, "data": data(length(), True)}})
        elif op == "bnew":
            beh.append({"a": op, "arg": {"k": k, "h": h}})
        elif op == "bclone":
            beh.append({"a": op, "arg": {"k": k, "from": rng.choice([x for x in range(1, IO_NB + 1) if x != k])}})
        elif op in ("brelease", "breset", "bvalue", "badvance"):
            beh.append({"a": op, "arg": {"k": k}})
        elif op == "bwrite":
            esz = rng.choice([1, 1, 1, 2, 3])
            n = length()
            beh.append({"a": op, "arg": {"k": k, "data": data(n - n % esz, True), "esz": esz}})
        elif op == "bpush":
            beh.append({"a": op, "arg": {"k": k, "data": data(rng.choice([0, 0, 1, 2, 5]), True)}})
        elif op == "bread":
            beh.append({"a": op, "arg": {"k": k, "n": rng.choice([0, 1, 1, 2, 3, 5, 70, length()]), "esz": rng.choice([0, 1, 1, 1, 2, 3])}})
        else:
            beh.append({"a": op, "arg": {"k": k, "n": rng.choice([0, 0, 0, 1, 2, 3, length()])}})
    return beh


def io_record(ck, cfg):
    hist = [gen_io_history(ck.rng, cfg["iosteps"]) for _ in range(cfg["ionhist"])]
    recs, _ = vlib.run_driver(build_io(), vlib.to_script(hist))
    return hist, recs, vlib.merge_trace(hist, recs)

class _Locked:
    """Check.violation from worker threads (file names are numbered: one at a time)"""

    def __init__(self, ck):
        import threading
        self.ck, self.lock = ck, threading.Lock()

    def violation(self, sig, detail):
        with self.lock:
            return self.ck.violation(sig, detail)


# --------------------------------------------------------------------------
def run_part(ck, tier):
    from concurrent.futures import ThreadPoolExecutor
    import time
    t0 = time.time()
    cfg = CFG[tier]
    build("ref")
    build("cfg")
    build_io()
    hist, recs, events = record_traces(ck, cfg)            # uses ck.rng: before the threads start
    iohist, iorecs, ioevents = io_record(ck, cfg)
    with ThreadPoolExecutor(max_workers=7) as ex:
        mcs = [("containers: exhaustive " + m, ex.submit(vlib.tlc, "MC_Containers", m, 4, tag="MC_" + m)) for m in cfg["mc"]]
        mcs.append(("containers: exhaustive " + cfg["iomc"], ex.submit(vlib.tlc, "MC_IoBuf", cfg["iomc"], 4, tag="MC_IoBuf")))
        iorep = ex.submit(do_io_replay, cfg["iogen"])
        lck = _Locked(ck)
        tv = ex.submit(validate_traces, lck, hist, events)
        tvio = ex.submit(validate_traces, lck, iohist, ioevents, "Trace_IoBuf", io_trace_sig)
        behs, ngen, nst = do_gen(cfg["gen"])
        reps = [ex.submit(do_replay, "cxx", [b for b in behs if kind_of(b) in CXX_KINDS]),
                ex.submit(do_replay, "c", [b for b in behs if kind_of(b) in C_KINDS])]
        results = [f.result() for f in reps] + [iorep.result()]
        mcres = [(w, f.result()) for w, f in mcs]
        ok, matched, tgen, cuts = tv.result()
        iook, iomatched, iotgen, iocuts = tvio.result()
    for what, res in mcres:
        ck.add_tlc(res, what)
    ck.cov["transitions"] += ngen + results[-1]["transitions"]
    note = ck.notes.setdefault(PART, {})
    note["skeleton_states"] = nst
    nt = set()
    for r in results:
        for sig, detail in r["found"]:
            ck.violation(sig, detail)
        nt |= r["nt"]
        ck.cov["evaluations"] += r["note"]["behaviours"]
        note.setdefault("replay", {})[r["key"]] = r["note"]
        ck.cov["samples"] = list(ck.cov.get("samples") or []) + r["samples"][:1]
    ck.cov["transitions"] += tgen + iotgen
    by = vlib.group_records(recs)
    for b, beh in enumerate(hist):
        if nontrivial(by.get(b, [])):
            nt.add("t" + seq_key(beh))
    by = vlib.group_records(iorecs)
    for b, beh in enumerate(iohist):
        if io_nontrivial(by.get(b, [])):
            nt.add("tio" + seq_key(beh))
    if ok:
        ck.cov["traces_validated_against_impl"] += len(hist)
    if iook:
        ck.cov["traces_validated_against_impl"] += len(iohist)
    ck.cov["evaluations"] += len(hist) + len(iohist)
    ck.cov["distinct_nontrivial"] += len(nt)
    note["trace"] = dict(histories=len(hist), events=len(events), matched=matched, accepted=ok,
                         behaviours_cut_at_known_finding=cuts)
    note["trace_io"] = dict(histories=len(iohist), events=len(ioevents), matched=iomatched, accepted=iook,
                            behaviours_cut_at_known_finding=iocuts)
    note["distinct_nontrivial"] = len(nt)
    note["wall_s"] = round(time.time() - t0, 1)
    ck.cov["rule"] = (ck.cov.get("rule") or "") + (
        "  Containers part: one behaviour per transition of the TLC state graph of Containers under the view (kind; handle 1: "
        "per element named / holds object / first element with the same object and name / nested fill; buffer present, "
        "no-copy; other handles: present, shares with 1, length), replayed into reference_array, item_array, item_group + "
        "add_items (C++) and into config item, command and value store tables (C); the same for IoBuf (buffer 1: consumed / "
        "readable / unfinished counts, first zero byte) replayed into io::buffer::metatype; seeded histories (4 handles, 4 "
        "objects, 5 names per kind; 3 arrays, 3 buffers, lengths around the allocation granularity) validated by TLC.  "
        "Non-trivial = a call released a reference while another element kept one, acted on a shared buffer, or wrote "
        "behind consumed bytes / next to a clone.")
    ck.assumptions = list(ck.assumptions or []) + [
        "drv/containers.cpp, drv/containers.c and drv/iobuf.cpp count addref/unref/end-of-life calls and heap blocks and copy "
        "bytes without judgement",
        "heap blocks alive are counted through the sanitizer's malloc/free hooks (final release only)"]
    return ok and iook


def replay(det, path="-"):
    beh = det.get("behaviour")
    if not beh:
        print(json.dumps(det, indent=1)[:4000])
        return 2
    io = bool(det.get("io"))
    exe = build_io() if io else build(kind_of(beh))
    recs, _ = vlib.run_driver(exe, vlib.to_script([beh]))
    if all("exp" in s for s in beh):
        mms = vlib.compare([beh], recs, io_match if io else match)
        for mm in mms:
            sig = io_signature(mm["why"], beh, mm["i"]) if io else signature(kind_of(beh), mm["why"], beh, mm["i"])
            print("VIOLATION property=C05 replay=%s  (%s: %s)" % (path, sig, mm["why"]))
        return 1 if mms else 0
    events = vlib.merge_trace([beh], recs)
    module = "Trace_IoBuf" if io else "Trace_Containers"
    ok, matched, _ = vlib.validate_trace(module, events, tag=module + "_replay", xss="1g")
    if not ok:
        print("VIOLATION property=C05 replay=%s  (trace rejected at event %d: %s)" %
              (path, matched, json.dumps(events[matched])[:600] if matched < len(events) else "-"))
    return 0 if ok else 1


if __name__ == "__main__":
    # development entry: runs the part alone, prints violations, writes no evidence
    tier = sys.argv[1] if len(sys.argv) > 1 else "quick"
    if tier == "replay":
        sys.exit(replay(json.load(open(sys.argv[2]))["detail"], sys.argv[2]))
    ck = vlib.Check("C05", tier)
    ck.pid = "X05dev"
    run_part(ck, tier)
    seen = set()
    for sig, f in ck.known_hit.items():
        print("KNOWN-FINDING: %s [%s]" % (f.get("what", "")[:100], sig))
    for sig, path in ck.violations:
        if sig not in seen:
            seen.add(sig)
            print("VIOLATION replay=%s (%s)" % (path, sig))
    print(json.dumps({"cov": {k: v for k, v in ck.cov.items() if k not in ("samples", "rule")}, "notes": ck.notes}, indent=1, default=str)[:6000])
    sys.exit(1 if seen else 0)
