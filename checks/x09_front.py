"""X09 (extension of C09, clean-failure side reads C08's statement) -- front ends of the configuration parser
(spec/ParseFront.tla = ConfText (a text denotes a forest) composed with ParseMon (clean failure)).

run_part(ck, tier) adds to the vlib.Check of C09:
  * TLC: exhaustive check of ParseFront (Load through every front end x flag string x failAt; Tier 2 = the arrangement
    of the front ends around the core parse refines the Tier-1 result; a refused load never changes the target),
  * binding A: every (document, front end, flag string, failAt) case TLC exports is replayed into drv/parsefront.c
    (mpt_parse_node over memory / FILE* / descriptor, mpt_node_parse, mpt_parse_folder; all of mptcore behind the
    allocation seam; failAt = k for every k the call reaches) and drv/parsefront_cxx.cpp (mpt::config_parser),
  * binding B: seeded longer documents loaded in sequence into one target through random front ends with random
    allocation failures; the recorded runs are validated by TLC (Trace_ParseFront, with ParseMon's rules R3/R4/R6).
"""
import concurrent.futures
import hashlib
import json
import os
import random
import shutil
import time
import vlib
import vseam

TAG = "x09"
CFG = {
    "quick":    dict(mc=["MC_ParseFront.cfg", "MC_ParseFront_d.cfg"],
                     gen=["Gen_ParseFront.cfg", "Gen_ParseFront_d.cfg", "Gen_ParseFront_f.cfg"], nseq=12, nloads=5, nitems=10, maxk=40),
    "thorough": dict(mc=["MC_ParseFront_t.cfg", "MC_ParseFront_d.cfg"],
                     gen=["Gen_ParseFront_t.cfg", "Gen_ParseFront_dt.cfg", "Gen_ParseFront_ft.cfg"], nseq=80, nloads=8, nitems=24, maxk=120),
}
CXX_FE = ("cxx", "cxxreset")


def enabled():
    """Switched on by the marker file checks/x09_front.accepted (created when the fix commits of docs/X09_front.md are
    integrated) or by VERIF_X09=1, off by VERIF_X09=0."""
    env = os.environ.get("VERIF_X09")
    if env is not None:
        return env not in ("0", "")
    return os.path.exists(os.path.join(vlib.ROOT, "checks", "x09_front.accepted"))


def build():
    core = vseam.seam_archive("core", vseam.repo_c_files("mptcore", exclude=("libinfo.c",)))
    c = vlib.build_driver("parsefront", ["parsefront.c"], link_libs=False,
                          extra_flags=("-Wl,--whole-archive", core, "-Wl,--no-whole-archive"))
    cxx = vlib.build_driver("parsefront_cxx", ["parsefront_cxx.cpp"], libs=("mpt++", "mptcore"), cxx=True)
    return {"c": c, "cxx": cxx}


# --------------------------------------------------------------------------
def fmt_arg(k, v):
    if k == "files":
        return "/".join(vlib.fmt_val([x for run in f for x in run]) if f else "-" for f in v)
    if k in ("fmt", "acc", "text"):
        return vlib.fmt_val([x for run in v for x in run]) if v else "-"
    return vlib.fmt_val(v)


def script(behs, offset=0):
    lines = []
    for i, beh in enumerate(behs):
        lines.append("B %d" % (i + offset))
        for st in beh:
            lines.append(" ".join([st["a"]] + ["%s=%s" % (k, fmt_arg(k, v)) for k, v in (st.get("arg") or {}).items()]))
    return "\n".join(lines) + "\n"


def alt_diff(alt, obs):
    """None if the observation equals the permitted observation `alt` (key-wise; "any" = the statement is silent;
    <key>_in = the observation is a member of the permitted set), else the first differing key."""
    for k, v in alt.items():
        if v == "any":
            continue
        if k.endswith("_in"):
            if obs.get(k[:-3]) not in v:
                return k[:-3]
        elif obs.get(k) != v:
            return k
    return None


def match(exp, obs, step=None, rec=None, prev=None):
    diffs = []
    for alt in exp.get("alts") or []:
        d = alt_diff(alt, obs)
        if d is None:
            return None
        diffs.append(d)
    # the permitted observation with the same return class says what differs
    for alt, d in zip(exp.get("alts") or [], diffs):
        if alt.get("ret") == obs.get("ret"):
            return "%s: permitted %s, observed %s" % (d, json.dumps(alt.get(d, alt.get(d + "_in")))[:200], json.dumps(obs.get(d))[:200])
    return "ret: permitted %s, observed %s" % ([a.get("ret") for a in exp.get("alts") or []], obs.get("ret"))


def style_of(arg):
    f = [b for b, n in (arg.get("fmt") or []) for _ in range(n)]
    if not f or f == [0]:
        return "pre"
    st = {42: "pre", 120: "enc", 32: "sep", 95: "opt"}.get(f[1] if len(f) > 1 else 42, "none")
    if len(f) > 3 and f[3] not in (32, 9):
        st += "+os"
    return st


def signature(mm, beh):
    """x09:<front end>:<style>:<fail class>:<differing observation> -- computed from the failing step."""
    st = mm["step"]
    arg = st.get("arg") or {}
    why = mm["why"]
    key = why.lower() if why in ("Crash", "Hang", "Garbled") else why.split(":")[0].split(" ")[0]
    if st["a"] != "load":
        load = [s for s in beh if s["a"] == "load"]
        arg = (load[-1].get("arg") or {}) if load else arg
        return "x09:%s:%s:%s:%s" % (arg.get("fe"), st["a"], "fail" if arg.get("fail") else "nofail", key)
    rec = mm.get("rec") or {}
    obs = rec.get("obs") or {}
    alts = (st.get("exp") or {}).get("alts") or []
    if arg.get("fe") != "folder" and style_of(arg) == "opt+os" and why not in ("Crash", "Hang", "Garbled") and key in ("ret", "tree"):
        return "x09:load:opt+os:start_char_kept_in_name"
    if key == "tree" and style_of(arg) in ("enc", "sep") and any(
            any(not x.get("n") for x in (a.get("tree") or []) if isinstance(x, dict)) or
            any(not y.get("n") for x in (a.get("tree") or []) if isinstance(x, dict) for y in x.get("c") or []) for a in alts if isinstance(a.get("tree"), list)):
        return "x09:load:%s:empty_option_name" % style_of(arg)
    if key == "tree" and arg.get("fail") and obs.get("ret") == "ok":
        return "x09:load:%s:fail:reported_ok_with_other_tree" % style_of(arg)
    if key == "ret":
        want = "/".join(a.get("ret") for a in alts)
        key = "ret=%s,want=%s" % (obs.get("ret"), want)
    cls = "fail" if arg.get("fail") else "nofail"
    if arg.get("fe") in ("nodeparse", "folder") + CXX_FE and not arg.get("log"):
        cls += ",nolog"          # called without the optional logger argument
    return "x09:%s:%s:%s:%s" % (arg.get("fe"), style_of(arg) if arg.get("fe") != "folder" else "dir", cls, key)


def run_split(exes, behs):
    """C++ front ends go to the C++ driver, the rest to the C driver; behaviour numbers stay global."""
    env = {"VERIF_X09_TMP": TMP}
    idx = {"c": [], "cxx": []}
    for i, b in enumerate(behs):
        fe = next((s["arg"].get("fe") for s in b if s["a"] == "load"), "")
        idx["cxx" if fe in CXX_FE else "c"].append(i)
    jobs = []
    step = 1500
    for which, ids in idx.items():
        for lo in range(0, len(ids), step):
            jobs.append((which, ids[lo:lo + step]))

    def work(job):
        which, part = job
        r, _ = vlib.run_driver(exes[which], script([behs[i] for i in part]), env=dict(env, ASAN_OPTIONS=vlib.ASAN_ENV + ":symbolize=0"))
        for x in r:
            if isinstance(x.get("b"), int):
                x["b"] = part[x["b"]]
        return r
    recs = []
    if len(jobs) <= 1:
        for j in jobs:
            recs += work(j)
    else:       # the batches are independent processes (own temporary file names): side by side
        with concurrent.futures.ThreadPoolExecutor(max_workers=4) as ex:
            for r in ex.map(work, jobs):
                recs += r
    return recs


TMP = os.path.join(vlib.WORK, "X09", "tmp-%d" % os.getpid())


def export_one(g):
    """One case export into a file (own TLC metadir, so that the exports can run side by side)."""
    import subprocess
    path = os.path.join(TMP, g + ".out")
    md = os.path.join(TMP, "md-" + g)
    cmd = ["java", "-XX:+UseParallelGC", "-Xmx4g", "-cp", vlib.TLA_CP, "tlc2.TLC", "-metadir", md, "-noGenerateSpecTE",
           "-workers", "3", "-config", g, "Gen_ParseFront.tla"]
    t0 = time.time()
    with open(path, "w") as f:
        try:
            r = subprocess.run(cmd, cwd=vlib.SPEC, stdout=f, stderr=subprocess.STDOUT, timeout=1500,
                               env=dict(os.environ, SKIP_SCAN="1"))
        except subprocess.TimeoutExpired:
            raise vlib.MachineryError("case export timed out: " + g)
    shutil.rmtree(md, ignore_errors=True)
    tail = subprocess.run(["tail", "-n", "30", path], stdout=subprocess.PIPE, text=True).stdout
    res = vlib.TlcResult()
    res.rc = r.returncode
    res.out = tail
    res.wall = time.time() - t0
    import re
    m = re.findall(r"(\d[\d,]*) states generated, (\d[\d,]*) distinct states found", tail)
    if m:
        res.generated = int(m[-1][0].replace(",", ""))
        res.distinct = int(m[-1][1].replace(",", ""))
    if r.returncode != 0:
        res.error = "case export failed rc=%s\n%s" % (r.returncode, tail)
    return res, path


def read_chunks(path, n):
    lines = []
    with open(path, errors="replace") as f:
        for ln in f:
            if ln.startswith('<<"BEHAV", '):
                lines.append(ln.rstrip("\n"))
                if len(lines) >= n:
                    yield vlib.parse_behaviours("\n".join(lines))
                    lines = []
    if lines:
        yield vlib.parse_behaviours("\n".join(lines))


def replay_chunk(ck, exes, cfg, base, per_sig, tot, nt):
    # failAt = 0 as exported; failAt > 0: the specification's expectation does not depend on k, every k the call
    # reaches is run (the sweep goes on while the injected failure still fires)
    plain = [b for b in base if not any(s["a"] == "load" and s["arg"].get("fail") for s in b)]
    inject = [b for b in base if any(s["a"] == "load" and s["arg"].get("fail") for s in b)]
    behs = list(plain)
    recs = run_split(exes, behs)
    k = 1
    todo = inject
    while todo and k <= cfg["maxk"]:
        cur = [[dict(s, arg=dict(s["arg"], fail=k)) if s["a"] == "load" else s for s in b] for b in todo]
        r = run_split(exes, cur)
        by = vlib.group_records(r)
        off = len(behs)
        for x in r:
            if isinstance(x.get("b"), int):
                x["b"] += off
        behs += cur
        recs += r
        nxt = []
        for i, b in enumerate(todo):
            rs = by.get(i, [])
            fired = any((x.get("dbg") or {}).get("fired") for x in rs)
            faulted = any(x.get("a") in ("Crash", "Hang") for x in rs)
            if fired and not faulted:
                nxt.append(b)
                tot["maxfired"] = max(tot["maxfired"], k)
        todo = nxt
        k += 1
    if todo:
        tot["cut"] = cfg["maxk"]
    mms = vlib.compare(behs, recs, match)
    for mm in mms:
        sig = signature(mm, behs[mm["b"]])
        per_sig[sig] = per_sig.get(sig, 0) + 1
        if per_sig[sig] <= 2:
            ck.violation(sig, {"binding": "A(replay)", "part": "x09", "behaviour": behs[mm["b"]], "step": mm["i"],
                               "why": mm["why"], "record": mm["rec"]})
    for b in behs:
        ld = [s for s in b if s["a"] == "load"]
        if ld and (ld[0]["arg"].get("fail") or len(ld[0]["exp"]["alts"]) == 1 and ld[0]["exp"]["alts"][0].get("ret") == "error"
                   or ld[0]["arg"].get("fe") not in ("parsenode",)):
            nt.add(hashlib.md5(json.dumps([s.get("arg") for s in b], sort_keys=True).encode()).digest()[:8])
    tot["base"] += len(base)
    tot["behs"] += len(behs)
    tot["mms"] += len(mms)
    tot["inject"] += len(inject)


# --------------------------------------------------------------------------
# binding B inputs: item parameters and load parameters only, no expected values
def gen_sequences(ck, cfg):
    import c09
    rng = ck.rng
    lrng = random.Random(ck.seed * 7919 + 9)      # own stream for the logger argument (the documents of a seed stay the same)
    seqs = []
    fes_c = ["parsenode", "ctxstdio", "ctxfile", "nodeparse"]
    for s in range(cfg["nseq"]):
        cxx = s % 4 == 3
        fmt, acc = rng.choice(c09.SHIPPED[:10])
        ev = [{"a": "init", "arg": {"pre": rng.choice([0, 1, 2, 3])}}]
        for _ in range(rng.randrange(2, cfg["nloads"] + 1)):
            doc = c09.gen_docs(ck, 2, cfg["nitems"])[1]["arg"]
            items = [it for it in doc["items"] if sum(n for _, n in it["v"]) < 2000 and sum(n for _, n in it["n"]) < 250
                     and not any(b == 46 for b, _ in it["n"])]
            fe = rng.choice(CXX_FE) if cxx else rng.choice(fes_c)
            lacc = rng.choice([[1], [1], [1], [110, 115], [0]])
            ev.append({"a": "doc", "arg": {"fmt": fmt, "acc": acc, "items": items, "fe": fe, "lacc": lacc,
                                           "fail": 0 if cxx else rng.choice([0, 0, 0, 1, 2, 3, 4, 5, 6, 7, 8, 10, 12, 16, 24, cfg["maxk"]]),
                                           # the optional logger argument (front ends that have one): none / a log target
                                           "log": lrng.choice([0, 1]) if fe in ("nodeparse",) + CXX_FE else 0}})
            if rng.random() < 0.2:
                ev.append({"a": "clear", "arg": {"x": 0}})
        ev.append({"a": "clear", "arg": {"x": 0}})
        seqs.append(ev)
    return seqs


def trace_file(events, tag):
    tdir = vlib.ensure(os.path.join(vlib.WORK, "traces"))
    path = os.path.join(tdir, "%s-%d.ndjson" % (tag, os.getpid()))
    with open(path, "w") as f:
        for e in events:
            f.write(json.dumps(e, separators=(",", ":")) + "\n")
    return path


def render(seqs):
    """pass 1: TLC renders the documents (text only)."""
    flat = [e for s in seqs for e in s]
    path = trace_file(flat, "Trace_ParseFront_r")
    res = vlib.tlc("Trace_ParseFront", "Trace_ParseFront.cfg", workers=1, env={"TRACE": path, "SKIP_SCAN": "1"}, xss="512m",
                   timeout=600, tag="Trace_ParseFront_r")
    os.unlink(path)
    if res.error or res.violation:
        raise vlib.MachineryError("rendering of seeded documents failed: %s %s\n%s" % (res.error, res.violation, res.out[-2000:]))
    texts = [b for b in vlib.parse_behaviours(res.out)]
    return texts, res


def run_part(ck, tier):
    cfg = CFG[tier]
    notes = ck.notes.setdefault("x09_front", {})
    vlib.ensure(TMP)
    t0 = time.time()
    try:
        return _run(ck, tier, cfg, notes)
    finally:
        notes["wall_s"] = round(time.time() - t0, 1)
        vlib.log("x09 part: %.1fs" % (time.time() - t0))
        shutil.rmtree(TMP, ignore_errors=True)


def _run(ck, tier, cfg, notes):
    exes = build()
    pool = concurrent.futures.ThreadPoolExecutor(max_workers=8)
    env = {"SKIP_SCAN": "1"}
    fmc = [pool.submit(vlib.tlc, "MC_ParseFront", c, workers=4, env=env, tag="MC_ParseFront_" + c, timeout=900) for c in cfg["mc"]]
    fgen = [pool.submit(export_one, g) for g in cfg["gen"]]

    # ---- binding B, pass 1 (meanwhile): render the seeded documents
    seqs = gen_sequences(ck, cfg)
    texts, rres = render(seqs)
    ck.cov["transitions"] += rres.generated

    # ---- binding A (the exports are written to files and replayed chunk by chunk)
    gres = [f.result() for f in fgen]
    per_sig = {}
    tot = {"base": 0, "behs": 0, "mms": 0, "inject": 0, "maxfired": 0, "cut": None}
    nt = set()
    seen = set()
    for g, (res, path) in zip(cfg["gen"], gres):
        if res.error or res.violation:
            raise vlib.MachineryError("case export %s failed: %s %s" % (g, res.error, res.violation))
        ck.cov["transitions"] += res.generated
        for chunk in read_chunks(path, 6000):
            base = []
            for b in chunk:
                key = hashlib.md5(json.dumps(b, sort_keys=True).encode()).digest()
                if key not in seen:
                    seen.add(key)
                    base.append(b)
            replay_chunk(ck, exes, cfg, base, per_sig, tot, nt)
        os.unlink(path)
    ck.cov["evaluations"] += tot["behs"]
    ck.cov["distinct_nontrivial"] += len(nt)
    notes["sweep"] = {"cases_with_injection": tot["inject"], "largest_k_that_fired": tot["maxfired"], "cut_at_k": tot["cut"]}
    notes["cases_exported"] = tot["base"]
    notes["behaviours_replayed"] = tot["behs"]
    notes["replay_mismatches"] = tot["mms"]
    notes["replay_mismatch_kinds"] = per_sig

    # ---- binding B, pass 2: recorded runs validated by TLC
    flat = [e for s in seqs for e in s]
    if len(texts) != sum(1 for e in flat if e["a"] == "doc"):
        raise vlib.MachineryError("rendered %d of %d seeded documents" % (len(texts), sum(1 for e in flat if e["a"] == "doc")))
    ti = 0
    tbehs = []
    for s in seqs:
        beh = []
        for e in s:
            if e["a"] == "doc":
                t = texts[ti][0]["arg"]["text"]
                ti += 1
                a = e["arg"]
                beh.append({"a": "load", "arg": {"fe": a["fe"], "fmt": [[b, 1] for b in a["fmt"]],
                                                 "acc": [[b, 1] for b in (a["acc"] if a["lacc"] == [1] else a["lacc"])],
                                                 "text": t, "fail": a["fail"], "log": a["log"]}, "_doc": e})
            else:
                beh.append({"a": e["a"], "arg": e["arg"]})
        tbehs.append(beh)
    trecs = run_split(exes, tbehs)
    tby = vlib.group_records(trecs)
    events = []
    for b, beh in enumerate(tbehs):
        rs = tby.get(b, [])
        for i, st in enumerate(beh):
            r = rs[i] if i < len(rs) else {"a": "Missing"}
            if r.get("a") in ("Crash", "Hang", "Garbled", "Missing"):
                events.append({"a": r.get("a"), "b": b, "i": i, "arg": {"x": 0}, "obs": {"x": 0}})
                break
            if st["a"] == "load":
                events.append({"a": "doc", "b": b, "i": i, "arg": dict(st["_doc"]["arg"], text=st["arg"]["text"]), "obs": r.get("obs")})
            else:
                events.append({"a": st["a"], "b": b, "i": i, "arg": st["arg"], "obs": r.get("obs")})
    validated = 0
    if events:
        ok, matched, tres = vlib.validate_trace("Trace_ParseFront", events, cfg="Trace_ParseFront.cfg", tag="Trace_ParseFront_v")
        ck.cov["transitions"] += tres.generated
        rounds = 0
        while not ok and rounds < 4:
            rounds += 1
            ev = events[matched] if matched < len(events) else None
            if ev is None:
                break
            ok2, matched2, _ = vlib.validate_trace("Trace_ParseFront", events, cfg="Trace_ParseFront.cfg", tag="Trace_ParseFront_v")
            if ok2:
                ok, matched = ok2, matched2
                break
            if matched2 != matched:
                continue
            a = ev.get("arg") or {}
            sig = "x09:trace:%s:%s:%s" % (a.get("fe") or ev["a"], "fail" if a.get("fail") else "nofail",
                                          (ev.get("obs") or {}).get("ret") or ev["a"].lower())
            ck.violation(sig, {"binding": "B(trace validation)", "part": "x09", "matched_prefix": matched, "rejected_event": ev,
                               "behaviour": [{k: v for k, v in s.items() if k != "_doc"} for s in tbehs[ev["b"]]]})
            events = [e for e in events if e["b"] != ev["b"]]
            if not events:
                break
            ok, matched, tres = vlib.validate_trace("Trace_ParseFront", events, cfg="Trace_ParseFront.cfg", tag="Trace_ParseFront_v")
        validated = len(set(e["b"] for e in events)) if ok else len(set(e["b"] for e in events[:matched]))
    ck.cov["traces_validated_against_impl"] += validated
    ck.cov["evaluations"] += len(tbehs)
    notes["trace_sequences"] = {"seeded": len(tbehs), "validated": validated, "loads": sum(1 for e in flat if e["a"] == "doc"),
                                "loads_with_injection_fired": sum(1 for r in trecs if (r.get("dbg") or {}).get("fired"))}

    for c, f in zip(cfg["mc"], fmc):
        ck.add_tlc(f.result(), "x09 exhaustive " + c)
    pool.shutdown()
    notes["rule"] = ("A: one behaviour <<init, load, clear>> per document of the bounded generator x front end x flag string x "
                     "failAt (0, and every k the call reaches); B: seeded sequences of 2..n longer documents loaded into one "
                     "target through random front ends with random failAt, validated by TLC.  Non-trivial: a load through a "
                     "file-backed front end, or with an injected allocation failure, or of a refused document.")
    ck.assumptions += ["x09: drv/parsefront.c / parsefront_cxx.cpp project without judgement (write the text to a temporary file, "
                       "call the front end, print the target before and after, count live library blocks at the allocation seam "
                       "and open descriptors); the k-th allocation call of the library inside the front end answers NULL",
                       "x09: the C++ front end is exercised without allocation failures (no seam below libmpt++)"]
    return ck


def replay(det, path=""):
    beh = det.get("behaviour")
    if not beh:
        print(json.dumps(det, indent=1)[:4000])
        return 2
    vlib.ensure(TMP)
    try:
        exes = build()
        recs = run_split(exes, [beh])
        if all("exp" in s for s in beh):
            mms = vlib.compare([beh], recs, match)
            for mm in mms:
                print("VIOLATION property=C09 replay=%s  (%s: %s)" % (path, signature(mm, beh), mm["why"]))
            return 1 if mms else 0
        print(json.dumps(recs, indent=1)[:4000])
        return 2
    finally:
        shutil.rmtree(TMP, ignore_errors=True)
