"""X12 (extension of C12) -- requester side and datagram path of the request/reply protocol (spec/Connection.tla).

run_part(ck, tier) adds to the vlib.Check of C12:
  * TLC: exhaustive check of Connection (two ends, 2 / 3 outstanding requests, stream and datagram transport),
  * binding A: every transition of the model's control skeleton replayed into drv/connection.c (two real
    connections over socket pairs, the driver plays the network),
  * binding B: seeded longer histories (and the replayed runs themselves, with the ids the code handed out)
    validated by TLC against Trace_Connection including the action properties.
"""
import concurrent.futures
import json
import os
import threading
import vlib

TAG = "x12"
CFG = {
    "quick":    dict(mc=["MC_Connection_q.cfg", "MC_Connection_q2.cfg", "MC_Connection_q3.cfg"],
                     gen=[("Gen_Connection.cfg", False), ("Gen_Connection_b.cfg", False)],
                     nhist=14, steps=70, nlong=1, longsteps=300, wrap=140, ncycle=8, cycles=14, resample=12),
    "thorough": dict(mc=["MC_Connection_t.cfg", "MC_Connection.cfg", "MC_Connection_t2.cfg", "MC_Connection_t3.cfg"],
                     gen=[("Gen_Connection_t.cfg", True), ("Gen_Connection_t2.cfg", False), ("Gen_Connection_bt.cfg", False)],
                     nhist=120, steps=120, nlong=6, longsteps=700, wrap=300, ncycle=40, cycles=30, resample=40),
}
ENV = {"ASAN_OPTIONS": vlib.ASAN_ENV + ":symbolize=0"}
VLOCK = threading.Lock()       # vlib.Check.violation numbers its files: one caller at a time
CHUNK = 3000
MAX_FAULTS = 60
S_VARIANTS = [("conn", "open"), ("remote", "assign"), ("conn", "assign"), ("remote", "open"), ("conn", "manual")]
D_VARIANTS = [("conn", "assign"), ("remote", "assign")]


def enabled():
    """The part needs its fix commits (docs/X12_conn.md) in the tree under test: it is switched on by the marker file
    checks/x12_conn.accepted (created when those commits are integrated) or by VERIF_X12=1, off by VERIF_X12=0."""
    env = os.environ.get("VERIF_X12")
    if env is not None:
        return env not in ("0", "")
    return os.path.exists(os.path.join(vlib.ROOT, "checks", "x12_conn.accepted"))


def signature(mm, beh):
    """x12:<transport>:<action>:<differing observation>[:<argument class>] -- computed from the failing step."""
    st = mm["step"]
    a, arg = st["a"], st.get("arg") or {}
    why = mm["why"]
    key = why.lower() if why in ("Crash", "Hang", "Garbled") else why.split(":")[0].split(" ")[0]
    init = beh[0].get("arg") or {}
    cls = ""
    if a == "deliver":
        cls = ":" + str(arg.get("dir"))
        if arg.get("dir") == "AB":
            cls += ",act=%s" % arg.get("act")
        elif arg.get("chain"):
            cls += ",chain"
    elif a in ("dispatch", "sync") and arg.get("chain"):
        cls = ":chain"
    elif a in ("send", "request") and arg.get("end") == "B":
        cls = ":end=B"
    elif a == "init":
        cls = ":open=%s" % init.get("open")
    elif a == "stray":
        cls = ":of=%s" % ("0" if not arg.get("of") else "n")
    return "x12:%s:%s:%s%s" % (init.get("tr"), a, key, cls)


def variants(beh, all_variants, i):
    tr = beh[0]["arg"]["tr"]
    vs = S_VARIANTS if tr == "stream" else D_VARIANTS
    pick = vs if all_variants else [vs[i % len(vs)]]
    out = []
    for via, how in pick:
        b = [dict(beh[0], arg=dict(beh[0]["arg"], via=via, open=how))] + beh[1:]
        out.append(b)
    return out


def run_chunks(exe, behs):
    recs, faults, done = [], 0, 0
    for lo in range(0, len(behs), CHUNK):
        part = behs[lo:lo + CHUNK]
        r, _ = vlib.run_driver(exe, vlib.to_script(part), env=ENV)
        for x in r:
            if isinstance(x.get("b"), int):
                x["b"] += lo
            if x.get("a") in ("Crash", "Hang"):
                faults += 1
        recs += r
        done = lo + len(part)
        if faults > MAX_FAULTS:
            break
    return recs, done


# ---------------------------------------------------------------------------
# binding B inputs: call sequences only, no expected values
# ---------------------------------------------------------------------------
def cb_arg(rng, st, maxcalls, plain=False, neg=0.33):
    """Script of the waiting callers / of A's handler for a step in which A receives: what a caller returns, whether it
    issues a follow-up request from inside the callback (tokens cw, cw+1, ..), what A's handler returns."""
    arg = {"cret": 0, "chain": 0, "cw": 0, "hret": 0}
    if plain:
        return arg
    arg["cret"] = rng.choice([-1, -5]) if rng.random() < neg else rng.choice([0, 0, 0, 3])
    arg["hret"] = rng.choice([0, 0, -1, -3])
    if st["tok"] < 900 and rng.random() < 0.25:
        arg["chain"] = 1
        arg["cw"] = st["tok"] + 1
        st["tok"] += maxcalls
    return arg


def gen_history(rng, steps, tr, width, via, how, await_bias=1):
    """One schedule.  The counters are rough guesses of what is in flight; the driver skips steps that are not
    possible in the real state (ret = "skipped"; dropped from the trace)."""
    beh = [{"a": "init", "arg": {"tr": tr, "max": width, "via": via, "open": how}}]
    nab = nba = 0
    st = {"tok": 0}    # caller tokens of A handed out so far
    nb = 0             # requests of B
    cur = 0            # waiter of the id reserved for the next message (guess)
    holding = False
    live_h = set()
    stream = tr == "stream"
    can_sync = stream or via == "remote"
    for _ in range(steps):
        ops = ["await"] * (3 * await_bias) + ["send"] * 3 + ["plain"]
        if nab:
            ops += ["dab"] * 5
        if nba and not holding:
            ops += ["dba"] * 5 + (["hold"] if not stream else []) + (["sync"] * 2 if can_sync else [])
        if holding:
            ops += ["dispatch"] * 4
        if st["tok"]:
            ops += ["stray"]
        if not stream and (nab or nba):
            ops += ["drop"]
        if live_h:
            ops += ["dreply"] * 2
        if nb < 40:
            ops += ["breq", "bplain"]
        ops += ["late"] if rng.random() < 0.3 else []
        op = rng.choice(ops)
        if op == "await" and st["tok"] < 900:
            st["tok"] += 1
            beh.append({"a": "await", "arg": {"w": st["tok"]}})
            if not cur:
                cur = st["tok"]
        elif op in ("send", "plain"):
            if op == "plain" and cur:
                continue
            n = rng.choice([0, 1, 2, 2, 3, 9, 40, 300])
            data = ([cur % 256] + [rng.randrange(256) for _ in range(n)]) if n or cur else []
            beh.append({"a": "send", "arg": {"data": data}})
            if not holding or stream:
                nab += 1
            cur = 0
        elif op == "breq":
            nb += 1
            beh.append({"a": "request", "arg": {"end": "B", "w": 1000 + nb,
                                               "data": [nb % 256] + [rng.randrange(256) for _ in range(rng.choice([0, 1, 5, 70]))]}})
            nba += 1
        elif op == "bplain":
            beh.append({"a": "send", "arg": {"end": "B", "data": [rng.randrange(256) for _ in range(rng.choice([1, 2, 9]))]}})
            nba += 1
        elif op == "dab":
            k = 1 if stream else rng.randrange(1, nab + 1)
            act = rng.choice(["none", "reply", "reply", "reply", "reply2", "defer"])
            h = 0
            if act == "defer":
                free = [x for x in range(1, 9) if x not in live_h]
                h = rng.choice(free) if free else rng.randrange(1, 9)
                live_h.add(h)
            data = [] if act in ("none", "defer") else [rng.randrange(256) for _ in range(rng.choice([0, 1, 2, 3, 8, 30, 253, 254, 255, 256, 600]))]
            beh.append({"a": "deliver", "arg": {"dir": "AB", "k": k, "act": act, "data": data,
                                               "hret": 0 if act == "defer" else rng.choice([0, 0, -1, -3, -128]), "h": h}})
            nab -= 1
            if act != "defer":
                nba += 1
        elif op == "dba":
            arg = {"dir": "BA", "k": 1 if stream else rng.randrange(1, nba + 1)}
            arg.update(cb_arg(rng, st, 1))
            beh.append({"a": "deliver", "arg": arg})
            nba -= 1
            nab += 1 if arg["chain"] or nb else 0
        elif op == "hold":
            beh.append({"a": "hold", "arg": {"k": rng.randrange(1, nba + 1)}})
            nba -= 1
            holding = True
        elif op == "dispatch":
            arg = cb_arg(rng, st, 1)
            beh.append({"a": "dispatch", "arg": arg})
            holding = False
            nab += 1 if arg["chain"] or nb else 0
        elif op == "sync":
            m = rng.randrange(1, min(nba, 3) + 1)
            ks = list(range(1, m + 1)) if stream else rng.sample(range(1, nba + 1), m)
            arg = {"ks": ks}
            arg.update(cb_arg(rng, st, m + 3))
            beh.append({"a": "sync", "arg": arg})
            nba -= m
            nab += m if arg["chain"] else 0
            if rng.random() < 0.3:
                arg = {"ks": []}
                arg.update(cb_arg(rng, st, 4))
                beh.append({"a": "sync", "arg": arg})
            for _ in range(m):          # whatever sync left at the socket is dispatched before anything else arrives
                arg = {"dir": "BA", "k": 0}
                arg.update(cb_arg(rng, st, 1))
                beh.append({"a": "deliver", "arg": arg})
                nab += 1 if arg["chain"] or nb else 0
        elif op == "stray":
            beh.append({"a": "stray", "arg": {"of": rng.choice([0, rng.randrange(1, st["tok"] + 1),
                                                                rng.randrange(max(st["tok"] - 2, 1), st["tok"] + 1),
                                                                rng.randrange(max(st["tok"] - 2, 1), st["tok"] + 1)]),
                                             "data": [rng.randrange(256) for _ in range(rng.choice([0, 1, 4]))]}})
            nba += 1
        elif op == "drop":
            if nab and (not nba or rng.random() < 0.5):
                beh.append({"a": "drop", "arg": {"dir": "AB", "k": rng.randrange(1, nab + 1)}})
                nab -= 1
            elif nba:
                beh.append({"a": "drop", "arg": {"dir": "BA", "k": rng.randrange(1, nba + 1)}})
                nba -= 1
        elif op == "dreply":
            h = rng.choice(sorted(live_h))
            beh.append({"a": "dreply", "arg": {"h": h, "data": [rng.randrange(256) for _ in range(rng.choice([0, 2, 5, 17]))]}})
            live_h.discard(h)
            nba += 1
        elif op == "late":
            beh.append({"a": "late", "arg": {"data": [rng.randrange(256) for _ in range(rng.choice([0, 2, 5]))]}})
    beh.append({"a": "close", "arg": {"x": 0}})
    return beh


def gen_wrap_history(rng, cycles, tr, via, how):
    """One byte ids, more requests than ids: the first few requests stay unanswered (their ids are still taken when the
    numbering wraps around), the others are answered in or out of order."""
    beh = [{"a": "init", "arg": {"tr": tr, "max": 1, "via": via, "open": how}}]
    stream = tr == "stream"
    nab = nba = 0
    keep = rng.randrange(1, 4)           # requests whose replies are withheld (dropped / never delivered)
    for w in range(1, cycles + 1):
        beh.append({"a": "await", "arg": {"w": w}})
        beh.append({"a": "send", "arg": {"data": [w % 256, w // 256]}})
        nab += 1
        if w <= keep:
            if stream:
                beh.append({"a": "deliver", "arg": {"dir": "AB", "k": 1, "act": "defer", "data": [], "hret": 0, "h": w}})
            else:
                beh.append({"a": "drop", "arg": {"dir": "AB", "k": 1}})
            nab -= 1
            continue
        while nab and (stream or rng.random() < 0.8):
            k = 1 if stream else rng.randrange(1, nab + 1)
            beh.append({"a": "deliver", "arg": {"dir": "AB", "k": k, "act": "reply", "data": [w % 256, 9], "hret": 0, "h": 0}})
            nab -= 1
            nba += 1
        while nba and (stream or rng.random() < 0.8):
            arg = {"dir": "BA", "k": 1 if stream else rng.randrange(1, nba + 1)}
            arg.update(cb_arg(rng, None, 1, plain=True))
            beh.append({"a": "deliver", "arg": arg})
            nba -= 1
    beh.append({"a": "close", "arg": {"x": 0}})
    return beh


def gen_cycle_history(rng, cycles, tr, via, how, width):
    """Request / answer / sync cycles with few requests outstanding (so that ids are used again at once), callers that
    return any code or chain a follow-up request, and traffic from B (requests, plain messages) crossing A's requests:
    what reaches A while it syncs and is no reply must still get to A's handler afterwards."""
    beh = [{"a": "init", "arg": {"tr": tr, "max": width, "via": via, "open": how}}]
    stream = tr == "stream"
    st = {"tok": 0}
    nb = 0
    nab = nba = 0
    for _ in range(cycles):
        first = st["tok"] + 1
        for _ in range(rng.choice([1, 1, 1, 2])):
            st["tok"] += 1
            beh.append({"a": "await", "arg": {"w": st["tok"]}})
            beh.append({"a": "send", "arg": {"data": [st["tok"] % 256, 7]}})
            nab += 1
        cross = rng.random() < 0.4
        if cross and rng.random() < 0.5:          # B's message is on its way before A's request is answered
            nb += 1
            beh.append(rng.choice([{"a": "request", "arg": {"end": "B", "w": 1000 + nb, "data": [nb % 256, 5]}},
                                   {"a": "send", "arg": {"end": "B", "data": [6, nb % 256]}}]))
            nba += 1
            cross = False
        while nab:
            beh.append({"a": "deliver", "arg": {"dir": "AB", "k": 1 if stream else rng.randrange(1, nab + 1),
                                               "act": rng.choice(["reply", "reply", "none"]),
                                               "data": [st["tok"] % 256, 9], "hret": rng.choice([0, -3]), "h": 0}})
            nab -= 1
            nba += 1
        if cross:                                 # ... or after it
            nb += 1
            beh.append(rng.choice([{"a": "request", "arg": {"end": "B", "w": 1000 + nb, "data": [nb % 256, 5]}},
                                   {"a": "send", "arg": {"end": "B", "data": [6, nb % 256]}}]))
            nba += 1
        if rng.random() < 0.75:
            ks = list(range(1, nba + 1))
            if not stream:
                rng.shuffle(ks)
            arg = {"ks": ks}
            arg.update(cb_arg(rng, st, nba + 3, neg=0.5))
            beh.append({"a": "sync", "arg": arg})
            if arg["chain"]:
                nab += nba
            for _ in range(nba + 1):
                arg = {"dir": "BA", "k": 0}
                arg.update(cb_arg(rng, st, 1))
                beh.append({"a": "deliver", "arg": arg})
                nab += 1          # (an answer to B's request / a follow-up request may have gone out)
            nba = 0
        else:
            while nba:
                arg = {"dir": "BA", "k": 1 if stream else rng.randrange(1, nba + 1)}
                arg.update(cb_arg(rng, st, 1, neg=0.5))
                beh.append({"a": "deliver", "arg": arg})
                nba -= 1
                nab += 1
        # the network repeats answers: a second frame with the id of a request of this cycle (answered by now,
        # whatever its caller returned) is on its way and arrives with the traffic of the next cycle
        for t in range(first, min(st["tok"], first + 1) + 1):
            if rng.random() < 0.7:
                beh.append({"a": "stray", "arg": {"of": t, "data": [t % 256, 66]}})
                nba += 1
        nab = min(nab, 3)
        while nab:                                # answers to B's requests, follow-up requests of A
            beh.append({"a": "deliver", "arg": {"dir": "AB", "k": 1, "act": "reply", "data": [st["tok"] % 256, 8],
                                               "hret": 0, "h": 0}})
            nab -= 1
            nba += 1
    beh.append({"a": "close", "arg": {"x": 0}})
    return beh


def gen_histories(ck, cfg):
    rng = ck.rng
    behs = []
    for i in range(cfg["nhist"]):
        tr = "dgram" if i % 2 else "stream"
        via, how = rng.choice(S_VARIANTS if tr == "stream" else D_VARIANTS)
        behs.append(gen_history(rng, cfg["steps"], tr, rng.choice([1, 1, 2, 2, 3, 4, 5, 8, 9]), via, how))
    for i in range(cfg["ncycle"]):
        tr = "dgram" if i % 2 else "stream"
        via, how = [("remote", "open"), ("remote", "assign"), ("conn", "open"), ("remote", "assign")][i % 4]
        behs.append(gen_cycle_history(rng, cfg["cycles"], tr, via, how, rng.choice([1, 2, 2, 4])))
    for i in range(cfg["nlong"]):
        # one byte ids: more than 127 requests, so that the ids wrap around
        tr = "dgram" if i % 2 else "stream"
        via, how = (S_VARIANTS if tr == "stream" else D_VARIANTS)[i % 2]
        behs.append(gen_history(rng, cfg["longsteps"], tr, 1, via, how, await_bias=2))
        behs.append(gen_wrap_history(rng, cfg["wrap"], "stream" if i % 2 else "dgram", via if i % 2 == 0 else "conn",
                                     "assign" if i % 2 == 0 else "open"))
    return behs


def drop_skipped(events):
    return [e for e in events if (e.get("obs") or {}).get("ret") != "skipped"]


def nontrivial(recs):
    """a waiting caller was handed a reply AND (a message was delivered out of order OR lost OR forged OR two
    requests were outstanding at once)."""
    calls = sum(len((r.get("obs") or {}).get("calls") or []) for r in recs)
    return calls > 0


def validate(ck, events, what, behs, rounds=5):
    """TLC decides whether the recorded executions are behaviours of Connection.  A rejected execution is reported (the
    rejection is confirmed by a second run), taken out, and the rest is validated again so that one failure does not
    hide another.  Returns (number of executions accepted, events matched, transitions)."""
    events = list(events)
    total = len(events)
    rejected = 0
    gen = 0
    for rnd in range(rounds):
        tag = "Trace_Connection_%s_%d" % (what, rnd)
        ok, matched, tres = vlib.validate_trace("Trace_Connection", events, tag=tag)
        gen += tres.generated
        if ok:
            break
        ev = events[matched] if matched < len(events) else None
        if ev is None:
            ck.violation("x12:trace:short", {"binding": "B(trace validation)", "x12": True, "matched_prefix": matched})
            break
        beh = behs[ev["b"]]
        if ev["a"] in ("Crash", "Hang", "Garbled", "Missing"):
            prev = beh[ev["i"]] if ev.get("i") is not None and ev["i"] < len(beh) else {"a": "?"}
            sig = "trace:" + signature({"step": prev, "why": ev["a"] if ev["a"] != "Missing" else "Crash"}, beh)
        else:
            sig = "trace:" + signature({"step": ev, "why": "rejected"}, beh)
        tres2 = tres
        if not ck.signature_known(sig):            # a new rejection is confirmed by a second run before it is reported
            ok2, matched2, tres2 = vlib.validate_trace("Trace_Connection", events, tag=tag)
            if ok2:
                break
            if matched2 != matched:
                continue
        with VLOCK:
            ck.violation(sig, {"binding": "B(trace validation)", "x12": True, "matched_prefix": matched,
                               "rejected_event": ev, "previous_events": events[max(matched - 3, 0):matched],
                               "behaviour": beh if len(beh) < 200 else beh[:ev.get("i", 0) + 1],
                               "tlc": (tres2.violation or "")})
        rejected += 1
        events = [e for e in events if e["b"] != ev["b"]]
        if not events:
            break
    return rejected, total - len(events) if rejected else 0, gen


def run_part(ck, tier):
    cfg = CFG[tier]
    exe = vlib.build_driver("connection", ["connection.c"], libs=("mptio", "mptcore"))
    notes = ck.notes.setdefault("x12_conn", {})

    # 1. exhaustive model checks and behaviour export run side by side with everything else
    pool = concurrent.futures.ThreadPoolExecutor(max_workers=12)
    fmc = [pool.submit(vlib.tlc, "MC_Connection", c, workers=max(vlib.NCPU // 4, 2), tag="MC_Connection_" + c)
           for c in cfg["mc"]]
    fgen = [pool.submit(vlib.tlc, "Gen_Connection", g, workers=3, tag="Gen_Connection_" + g) for g, _ in cfg["gen"]]

    # 2. binding B: seeded histories recorded from the real code, validated by TLC
    hist = gen_histories(ck, cfg)
    hrecs, _ = vlib.run_driver(exe, vlib.to_script(hist), env=ENV)
    ev_h = drop_skipped(vlib.merge_trace(hist, hrecs))
    nfam = 3
    fval = [pool.submit(validate, ck, [e for e in ev_h if e["b"] % nfam == k], "seeded%d" % k, hist) for k in range(nfam)]

    # 3. binding A: every exported behaviour replayed
    base = []
    behs = []
    for (g, allv), f in zip(cfg["gen"], fgen):
        gen = f.result()
        if gen.error or gen.violation:
            raise vlib.MachineryError("behaviour export %s failed: %s %s" % (g, gen.error, gen.violation))
        part = vlib.parse_behaviours(gen.out)
        gen.out = ""
        base += part
        for i, b in enumerate(part):
            behs += variants(b, allv, i)
    recs, done = run_chunks(exe, behs)
    mms = vlib.compare(behs[:done], recs)
    per_sig = {}
    for mm in mms:
        sig = signature(mm, behs[mm["b"]])
        per_sig[sig] = per_sig.get(sig, 0) + 1
        if per_sig[sig] <= 2:
            with VLOCK:
                ck.violation(sig, {"binding": "A(replay)", "x12": True, "behaviour": behs[mm["b"]], "step": mm["i"],
                                   "why": mm["why"], "record": mm["rec"]})
    by = vlib.group_records(recs)
    nt = set()
    for b, beh in enumerate(behs[:done]):
        if nontrivial(by.get(b, [])):
            nt.add(json.dumps([(s["a"], s.get("arg")) for s in beh], sort_keys=True))
    ck.cov["evaluations"] += done
    notes["behaviours_generated"] = len(base)
    notes["behaviours_replayed"] = done
    notes["replay_mismatches"] = len(mms)
    notes["replay_mismatch_kinds"] = per_sig
    if done < len(behs):
        notes["replay_cut_short"] = "more than %d crashes; %d of %d behaviours replayed" % (MAX_FAULTS, done, len(behs))

    # ... and a sample of the replayed runs validated like recorded histories (with the ids the code handed out)
    bad = set(mm["b"] for mm in mms)
    step = max(done // cfg["resample"], 1)
    sample_idx = [i for i in range(0, done, step) if i not in bad]
    sample = [[{"a": s["a"], "arg": s.get("arg")} for s in behs[i]] for i in sample_idx]
    srecs = []
    for j, i in enumerate(sample_idx):
        for r in by.get(i, []):
            srecs.append(dict(r, b=j))
    ev_s = drop_skipped(vlib.merge_trace(sample, srecs))
    rej_s, lost_s, gen_s = validate(ck, ev_s, "sample", sample, rounds=2)
    rej_h = lost_h = gen_h = 0
    for f in fval:
        r_, l_, g_ = f.result()
        rej_h, lost_h, gen_h = rej_h + r_, lost_h + l_, gen_h + g_
    ck.cov["transitions"] += gen_s + gen_h
    hby = vlib.group_records(hrecs)
    ntb = 0
    for b, beh in enumerate(hist):
        if nontrivial(hby.get(b, [])):
            ntb += 1
            nt.add(json.dumps([(s["a"], s.get("arg")) for s in beh], sort_keys=True))
    ck.cov["traces_validated_against_impl"] += len(hist) + len(sample) - rej_s - rej_h
    ck.cov["evaluations"] += len(hist)
    ck.cov["distinct_nontrivial"] += len(nt)
    notes["trace_events"] = len(ev_h) + len(ev_s)
    notes["trace_histories"] = {"seeded": len(hist), "replayed_runs": len(sample), "seeded_nontrivial": ntb,
                                "rejected": rej_s + rej_h,
                                "calls_skipped_by_driver": sum(1 for r in hrecs if (r.get("obs") or {}).get("ret") == "skipped"),
                                "max_requests_in_one_history": max([sum(1 for s in b if s["a"] == "await") for b in hist] + [0])}
    notes["rule"] = ("A: one behaviour per transition of the TLC state graph of Connection under the view (transport, id "
                     "width, message being composed, state of every request, the in-flight lists with kind / owner / "
                     "waiting caller of each message, what A holds, B's handles and own requests, counters) replayed into "
                     "two real connections; B: seeded schedules (id widths 1..9, up to 900 requests, reorder/drop/forged "
                     "replies/sync/deferred answers, callers that return any code or send a follow-up request from inside "
                     "the callback, requests and plain messages of B crossing A's) and a sample of the replayed runs "
                     "validated by TLC with the ids the code handed out.  Non-trivial: at least one waiting caller was "
                     "handed a reply.")

    # 4. the exhaustive model checks that ran meanwhile
    for c, f in zip(cfg["mc"], fmc):
        ck.add_tlc(f.result(), "exhaustive " + c)
    pool.shutdown()
    if base:
        ck.cov["samples"] = ck.cov.get("samples", []) + [vlib.sample_repr(behs[len(behs) // 2])]
    ck.assumptions += ["x12: drv/connection.c projects without judgement (copies what handlers and waiting callers were "
                       "given and what appeared on the wire; plays network and event loop: moves messages between the "
                       "ends, calls next() on readable descriptors and dispatch() when next() was positive; callers and "
                       "handlers do what the step scripts: return a code, reply, defer, send a follow-up request)",
                       "x12: the taps of the stream variant use the library's own stream codec (property C02)",
                       "x12: id width of both ends set in struct outdata (_idlen) as the repository's client example does; "
                       "no sender addresses (_smax = 0)"]
    return ck


def replay(det, path=""):
    """Re-run the behaviour of a violation file written by run_part; returns 0/1/2 like check.py --replay."""
    beh = det.get("behaviour")
    if not beh:
        print(json.dumps(det, indent=1)[:4000])
        return 2
    exe = vlib.build_driver("connection", ["connection.c"], libs=("mptio", "mptcore"))
    recs, _ = vlib.run_driver(exe, vlib.to_script([beh]), env=ENV)
    if all("exp" in s for s in beh):
        mms = vlib.compare([beh], recs)
        for mm in mms:
            print("VIOLATION property=C12 replay=%s  (%s: %s)" % (path, signature(mm, beh), mm["why"]))
        return 1 if mms else 0
    events = drop_skipped(vlib.merge_trace([beh], recs))
    ok, matched, _ = vlib.validate_trace("Trace_Connection", events, tag="Trace_Connection_replay")
    if not ok:
        print("VIOLATION property=C12 replay=%s  (x12 trace rejected at event %d: %s)" % (
            path, matched, json.dumps(events[matched])[:400] if matched < len(events) else "-"))
    return 0 if ok else 1
