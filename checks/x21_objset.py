"""X21 (extension of C20) -- the generic object front doors (spec/ObjSet.tla, spec/ObjVararg.tla).

run_part(ck, tier) adds to the given vlib.Check of C20:
  * TLC exhaustive checks: ObjSet (what the doors do with an entry list, Tier 2, stays inside what C20 permits, Tier 1) and
    ObjVararg (the variadic iterator delivers the arguments in step with the type codes),
  * binding A: every exported door call replayed into the real code (drv/objset.c) on layout objects and on the reference object,
    ALL properties of both objects compared after every step,
  * binding B: seeded call sequences at production sizes (long names, long values, many arguments) recorded from the real code
    and judged by TLC (Trace_ObjSet, Trace_ObjVararg).
"""
import concurrent.futures
import json
import os
import re
import time
import vlib

LIBS = ("mptcore", "mptplot")
DRV_ENV = {"ASAN_OPTIONS": vlib.ASAN_ENV + ":symbolize=0"}
CFG = {
    "quick":    dict(mc="MC_ObjSet.cfg", gen="Gen_ObjSet.cfg", genx="Gen_ObjSet_x.cfg", mcv="MC_ObjVararg.cfg", genv="Gen_ObjVararg.cfg", nhist=30, steps=14),
    "thorough": dict(mc="MC_ObjSet_t.cfg", gen="Gen_ObjSet_t.cfg", genx="Gen_ObjSet_xt.cfg", mcv="MC_ObjVararg_t.cfg", genv="Gen_ObjVararg_t.cfg", nhist=300, steps=24),
}


def enabled():
    """The part needs its fix commits (docs/X21_objset.md) in the tree under test: it is switched on by the marker file
    checks/x21_objset.accepted (created when those commits are integrated) or by VERIF_X21=1, off by VERIF_X21=0."""
    env = os.environ.get("VERIF_X21")
    if env is not None:
        return env not in ("0", "")
    return os.path.exists(os.path.join(vlib.ROOT, "checks", "x21_objset.accepted"))


def build():
    return vlib.build_driver("objset", ["objset.c"], libs=LIBS)


def build_cxx():
    return vlib.build_driver("objset_cxx", ["objset_cxx.cpp"], libs=LIBS + ("mpt++",), cxx=True)


# --------------------------------------------------------------------------
# script rendering (moves bytes only)
def dots(v):
    return ".".join(str(int(x)) for x in (v or []))


def ent_token(e):
    name = "~" if "U" in (e.get("x") or "") else dots(e.get("name"))
    return "/".join([name, str(e.get("f") or "none"), dots(e.get("n")), dots(e.get("c")), str(e.get("sty") or ""),
                     (e.get("x") or "").replace("U", "")])


def fmt_arg(k, v):
    if k == "ents":
        return "|".join(ent_token(e) for e in v) if v else "-"
    if k == "fmt":
        if v == [0]:
            return "null"
        return vlib.fmt_val(v)
    if k == "w":
        return "".join(v) or "-"
    return vlib.fmt_val(v)


def script(behs):
    lines = []
    for i, beh in enumerate(behs):
        lines.append("B %d" % i)
        for st in beh:
            toks = [st["a"]]
            arg = st.get("arg") or {}
            for k, v in arg.items():
                if k == "unnamed":
                    continue
                if k == "name" and arg.get("unnamed"):
                    v = "null"
                toks.append("%s=%s" % (k, fmt_arg(k, v)))
            lines.append(" ".join(toks))
    return "\n".join(lines) + "\n"


# --------------------------------------------------------------------------
# verdict projection: equality of what TLC expects with what was observed; where the statement permits more than the
# design predicts (exp.alt = permitted values per property, computed by TLC) membership is tested and the comparison ends
ANY = [-99]


def short(v):
    s = json.dumps(v)
    return s if len(s) < 120 else s[:117] + "..."


def door_of(step):
    return "p%d" % int((step.get("arg") or {}).get("o") or 0)


def match(exp, obs, step=None, rec=None, prev=None):
    for k in ("ret", "oks", "tname", "iname", "idesc", "icode", "shared", "size", "kept", "tail", "bytes") + (("seen",) if "names" not in exp else ()):
        if k in exp and exp[k] != "any" and obs.get(k) != exp[k]:
            return "%s: expected %s, observed %s" % (k, short(exp[k]), short(obs.get(k)))
    if "names" in exp:
        seen = obs.get("seen") or []
        names = [s.get("n") for s in seen]
        if names != exp["names"]:
            return "names: expected %s, observed %s" % (short(exp["names"]), short(names))
        if exp.get("vals") not in (None, "any"):
            vals = [s.get("v") for s in seen]
            if vals != exp["vals"]:
                return "vals: expected %s, observed %s" % (short(exp["vals"]), short(vals))
    alt = exp.get("alt")
    altp = exp.get("altp")
    within = False
    for pk in ("p0", "p1"):
        if pk not in exp:
            continue
        e, o = exp[pk], obs.get(pk) or {}
        for name in e:
            if o.get(name) == e[name]:
                continue
            if alt and step is not None and pk == door_of(step) and name in alt and (o.get(name) in alt[name] or ANY in alt[name]):
                within = True        # not what the design predicts, but a value the statement permits
                continue
            if altp is not None and step is not None and pk == door_of(step) and (altp == "any" or o in altp):
                within = True
                break
            return "%s.%s: expected %s, observed %s" % (pk, name, short(e[name]), short(o.get(name)))
        for name in o:
            if name not in e and name != "items":
                return "%s.%s: unexpected property" % (pk, name)
    return vlib.STOP if within else None


def name_of(arg):
    n = arg.get("name")
    if isinstance(n, list):
        return "".join(chr(c) for c in n)
    return str(n)


def kind_of(beh):
    return (beh[0].get("arg") or {}).get("kind", "?")


def signature(mm, kind):
    """kind, door, discriminating argument class, what differed first"""
    st = mm["step"]
    a, arg = st["a"], st.get("arg0") or st.get("arg") or {}
    why = mm["why"]
    what = why.split(":")[0] if why not in ("Crash", "Hang", "Missing") else why.lower()
    parts = ["x21", kind, a]
    if a in ("vset", "vvset", "iset"):
        parts.append(name_of(arg).lower())
        if "fmt" in arg:
            f = arg["fmt"]
            parts.append("fmt=" + ("null" if f == [0] else "".join(chr(c) for c in f) or "empty"))
        else:
            parts.append("n=%d" % len(arg.get("ents") or []))
    elif a == "args":
        parts.append("src=%s" % arg.get("src"))
        parts.append("n=%d" % len(arg.get("ents") or []))
    elif a == "nodes":
        parts.append("match=%s" % arg.get("match"))
        parts.append("n=%d" % len(arg.get("ents") or []))
    elif a == "list":
        parts.append("mode=%s" % arg.get("mode"))
        parts.append("match=%s" % arg.get("match"))
    elif a == "walk":
        w = arg.get("w") or []
        parts.append("w=%d%s" % (len(w), "+reset" if "r" in w else ""))
    parts.append(what)
    return ":".join(parts)


def nontrivial(beh, recs):
    """a door step changed a property of an object"""
    last = None
    for st, r in zip(beh, recs):
        o = r.get("obs") or {}
        p = (o.get("p0"), o.get("p1"))
        if st["a"] not in ("init", "dset") and last is not None and p != last and p[0] is not None:
            return True
        if o.get("seen") or o.get("tname"):
            return True
        if p[0] is not None:
            last = p
    return False


def report(ck, behs, mms, binding, per_sig, by=None):
    for mm in mms:
        beh = behs[mm["b"]]
        sig = signature(mm, kind_of(beh))
        per_sig[sig] = per_sig.get(sig, 0) + 1
        if per_sig[sig] > 3:
            continue
        ck.violation(sig, {"binding": binding, "x21": True, "behaviour": beh, "step": mm["i"], "why": mm["why"], "record": mm["rec"]})


def replay_part(ck, exe, behs, tag, per_sig, nt):
    recs, _ = vlib.run_driver(exe, script(behs), env=DRV_ENV, timeout=1200)
    mms = vlib.compare(behs, recs, match)
    report(ck, behs, mms, "X21 A(replay) " + tag, per_sig)
    by = vlib.group_records(recs)
    for b, beh in enumerate(behs):
        if nontrivial(beh, by.get(b, [])):
            nt.add(json.dumps([(s["a"], s.get("arg")) for s in beh], sort_keys=True))
    return len(mms)


def fix_beh(beh):
    """(streamed replay) render the arguments the way script() does; the original stays beside it"""
    for st in beh:
        arg = st.get("arg") or {}
        st["arg0"] = arg
        out = {}
        for k, v in arg.items():
            if k == "unnamed":
                continue
            if k == "name" and arg.get("unnamed"):
                v = "null"
            out[k] = fmt_arg(k, v)
        st["arg"] = out


def unfix_beh(beh):
    for st in beh:
        if "arg0" in st:
            st["arg"] = st.pop("arg0")
    return beh


def nt_recs(rs):
    """(streamed replay) a door step changed a property, or a listing / naming answered"""
    last = None
    for r in rs:
        o = r.get("obs") or {}
        p = (o.get("p0"), o.get("p1"))
        if r.get("a") not in ("init", "dset") and last is not None and p != last and p[0] is not None:
            return True
        if o.get("seen") or o.get("tname"):
            return True
        if p[0] is not None:
            last = p
    return False


def replay_dump(ck, exe, dump, tag, per_sig, nts):
    tot = vlib.replay_file(dump, exe, match=match, fix=fix_beh, nontrivial=nt_recs, chunk=6000, procs=max(2, vlib.NCPU // 2))
    bl, mms = [], []
    for d in tot["details"]:
        bl.append(unfix_beh(d["behaviour"]))
        mms.append({"b": len(bl) - 1, "i": d["step"], "step": d["st"], "rec": d["record"], "why": d["why"]})
    report(ck, bl, mms, "X21 A(replay) " + tag, per_sig)
    nts.append(len(tot["nontrivial"]))
    return tot["n"], tot["mismatches"]


def run_part(ck, tier):
    t0 = time.time()
    cfg = CFG[tier]
    exe, exe_cxx = build(), build_cxx()
    per_sig, nt, nts = {}, set(), []
    wdir = vlib.ensure(os.path.join(vlib.WORK, "C20"))
    dump = os.path.join(wdir, "x21-gen-%d.out" % os.getpid())
    dumpv = os.path.join(wdir, "x21-genv-%d.out" % os.getpid())
    dumpx = os.path.join(wdir, "x21-genx-%d.out" % os.getpid())
    hist = gen_histories(ck, cfg["nhist"], cfg["steps"])
    histv = gen_histories_v(ck, cfg["nhist"], cfg["steps"])
    histx = gen_histories_x(ck, cfg["nhist"] // 2, cfg["steps"])

    def job_mc(mod, c):
        if os.environ.get("X21_DEV_SKIP_MC"):        # development aid only (code mutations do not touch the model)
            return None
        return c, vlib.tlc(mod, c, workers=max(2, vlib.NCPU // 4), tag=mod)

    def job_gen(mod, c, path, exe):
        g = vlib.tlc_to_file(mod, c, path, workers=4 if tier == "quick" else 6, timeout=1500)
        if g.error:
            raise vlib.MachineryError("X21 behaviour export failed (%s): %s" % (mod, g.error))
        if tier != "quick":
            return mod, g, None, path, 0, exe
        with open(path, errors="replace") as fh:
            behs = vlib.parse_behaviours(fh.read())
        os.unlink(path)
        recs, _ = vlib.run_driver(exe, script(behs), env=DRV_ENV, timeout=1200)
        return mod, g, behs, path, recs, exe

    with concurrent.futures.ThreadPoolExecutor(max_workers=5) as ex:
        fms = [ex.submit(job_mc, "MC_ObjSet", cfg["mc"]), ex.submit(job_mc, "MC_ObjVararg", cfg["mcv"])]
        fgs = [ex.submit(job_gen, "Gen_ObjSet", cfg["gen"], dump, exe), ex.submit(job_gen, "Gen_ObjVararg", cfg["genv"], dumpv, exe),
               ex.submit(job_gen, "Gen_ObjSetX", cfg["genx"], dumpx, exe_cxx)]
        # binding B: recorded runs judged by TLC (beside the exports)
        recs, _ = vlib.run_driver(exe, script(hist), env=DRV_ENV, timeout=900)
        recsv, _ = vlib.run_driver(exe, script(histv), env=DRV_ENV, timeout=900)
        recsx, _ = vlib.run_driver(exe_cxx, script(histx), env=DRV_ENV, timeout=900)
        rej = trace_part(ck, "Trace_ObjSet", hist, recs, "Trace_ObjSet", per_sig)
        rej += trace_part(ck, "Trace_ObjVararg", histv, recsv, "Trace_ObjVararg", per_sig)
        rej += trace_part(ck, "Trace_ObjSet", histx, recsx, "Trace_ObjSet_cxx", per_sig)
        gens = [f.result() for f in fgs]
        nbeh = nmm = 0
        sample = None
        for mod, g, behs, path, brecs, gexe in gens:
            ck.cov["transitions"] += g.generated
            if behs is not None:
                mms = vlib.compare(behs, brecs, match)
                report(ck, behs, mms, "X21 A(replay) " + mod, per_sig)
                by = vlib.group_records(brecs)
                for b, beh in enumerate(behs):
                    if nontrivial(beh, by.get(b, [])):
                        nt.add(json.dumps([(s["a"], s.get("arg")) for s in beh], sort_keys=True))
                nmm += len(mms)
                nbeh += len(behs)
                sample = sample or (behs[len(behs) // 2] if behs else None)
        mc = [f.result() for f in fms if f.result() is not None]
    if tier != "quick":          # streamed, parallel replay of the big dumps (process pool: from the main thread)
        for mod, g, behs, path, brecs, gexe in gens:
            n, m = replay_dump(ck, gexe, path, mod, per_sig, nts)
            os.unlink(path)
            nbeh += n
            nmm += m
    for c, res in mc:
        ck.add_tlc(res, "x21 exhaustive " + c)
    ck.cov["evaluations"] += nbeh
    ck.cov["distinct_nontrivial"] += len(nt) + sum(nts)
    ck.notes["x21_replayed_behaviours"] = nbeh
    ck.notes["x21_replay_mismatches"] = nmm
    ck.notes["x21_seeded_histories"] = len(hist) + len(histv) + len(histx)
    ck.notes["x21_seeded_histories_rejected"] = rej
    ck.notes["x21_mismatch_signatures"] = per_sig
    ck.notes["x21_rule"] = ("X21 A: one behaviour per transition of the TLC state graphs of ObjSet (layout objects: a preparation of the two "
                            "objects through the direct route, then one call of a front door with an entry list of the alphabet) and "
                            "ObjVararg (reference object / local output object: variadic doors, iterator walks, listings, value copies) "
                            "under the view (kind, step, which properties differ from their defaults), replayed through drv/objset.c with "
                            "ALL properties of both objects compared after every step; where the statement permits more than the design "
                            "predicts the permitted values computed by TLC are tested for membership and the comparison of that behaviour "
                            "ends.  X21 B: seeded call sequences (up to 40 entries, names beyond 256 bytes, texts up to 70000 bytes, 12 "
                            "variadic arguments) recorded from the real code and judged by TLC (Trace_ObjSet, Trace_ObjVararg).  "
                            "Non-trivial = a door call changed a property, or a listing / naming answered.")
    if sample:
        ck.cov["samples"] = list(ck.cov.get("samples") or []) + [{"x21": [(s["a"], s.get("arg")) for s in sample[1:]]}]
    ck.notes["x21_wall_s"] = round(time.time() - t0, 1)
    ck.assumptions.append("X21: drv/objset.c renders the entry lists and projects the state without judgement; the reference object of the "
                          "harness accepts iterator sources for every property and does not change on a refusal (docs/X21_objset.md)")


def replay(det, path="-"):
    """replay of a violation file written by this part (called from checks/c20.py:replay)"""
    beh = det.get("behaviour")
    if not beh:
        print(json.dumps(det, indent=1)[:4000])
        return 2
    beh = unfix_beh(beh)
    exe = build()
    recs, _ = vlib.run_driver(exe, script([beh]), env=DRV_ENV)
    if det.get("trace"):
        events = vlib.merge_trace([beh], recs)
        ok, matched, _ = vlib.validate_trace(det["trace"], events, tag=det["trace"] + "_replay")
        if not ok:
            print("VIOLATION property=C20 replay=%s  (x21 trace rejected at event %d: %s)" %
                  (path, matched, json.dumps(events[matched])[:400] if matched < len(events) else "-"))
        return 0 if ok else 1
    mms = vlib.compare([beh], recs, match)
    for mm in mms:
        print("VIOLATION property=C20 replay=%s  (%s: %s)" % (path, signature(mm, kind_of(beh)), mm["why"]))
    return 1 if mms else 0


# --------------------------------------------------------------------------
# binding B: seeded call sequences at production sizes (inputs only -- TLC judges the recorded runs)
MATCHES = [49, 17, 33, 51, 113, 241, 50, 115, 35, 1, 16, 0, 255]
LIST_MATCH = [-1, -1, 16, 32, 48, 0]


def _c20():
    import c20
    return c20


def seed_value(rng, name, kind):
    """a value argument in the forms the driver renders (input weighting only)"""
    c20 = _c20()
    v = c20.fitting_value(rng, name) if rng.random() < 0.7 else c20.rand_value(rng)
    v = dict(v)
    if v["f"] == "vec":
        v = dict(v, f="rle", n=[])
    if v["f"][:1] == "p" and v["f"] != "pt":
        v["f"] = v["f"][1:]
    return v


def seed_name(rng, kind, long_p=0.05):
    c20 = _c20()
    names = c20.NAMES[kind]
    known = [n for n in names if n.lower() in c20.SETNAMES[kind]]
    nm = rng.choice(known) if rng.random() < 0.85 else rng.choice(names)
    if rng.random() < long_p:
        nm = nm + "x" * rng.choice([250, 251, 256, 300])          # longer than the name buffer of the argument door
    return nm


def seed_ent(rng, kind, forms="any", xflags=False):
    c20 = _c20()
    nm = seed_name(rng, kind)
    r = rng.random()
    blank = {"n": [], "c": [], "sty": ""}
    if r < 0.12:
        v = dict(blank, f="none")
    else:
        v = seed_value(rng, nm, kind)
        if forms == "text" and v["f"] not in ("txt", "rle"):
            if v["f"] in ("num", "i", "y", "u", "n", "b", "q", "d", "f") and len(v["n"]) >= 2:
                t = v["n"][0] * 65536 + v["n"][1]
                txt = str(t // 2) if t % 2 == 0 else "%.1f" % (t / 2.0)
                v = dict(blank, f="txt", c=c20.codes(txt))
            elif v["f"] == "col":
                v = dict(blank, f="txt", c=c20.codes(rng.choice(c20.COLWORDS)))
            else:
                v = dict(blank, f="txt", c=c20.codes(rng.choice(["abc", "x y", "5", "log", "#ff0000", "A"])))
        elif forms == "typed" and v["f"] in ("num", "num2", "txt", "rle"):
            if v["f"] in ("txt", "rle"):
                v = dict(v, f="s" if v["f"] == "txt" else "sr")
            else:
                v = dict(blank, f=typed_for(rng, v["n"][:2]), n=v["n"][:2])
    x = ""
    if xflags:
        q = rng.random()
        x = "N" if q < 0.1 else "B" if q < 0.17 else "U" if q < 0.27 else ""
    return dict({"name": c20.codes(nm) if x != "U" else [], "x": x}, **v)


def text_value(rng, name):
    """a fitting value in a text form (input weighting only)"""
    c20 = _c20()
    blank = {"n": [], "c": [], "sty": ""}
    for _ in range(8):
        v = dict(c20.fitting_value(rng, name))
        if v["f"] in ("num", "num2", "txt", "rle"):
            if v["f"] == "num":
                v["sty"] = "dec"
            if v["f"] in ("txt", "rle") and not v["c"]:
                continue
            return v
    return dict(blank, f="txt", c=c20.codes("abc"))


def valid_list(rng, kind, k):
    """entries for different properties, each with a value that suits it; point properties (one or two coordinates) early in the list"""
    c20 = _c20()
    names = sorted(c20.SETNAMES[kind])
    pts = [n for n in names if c20.HINT.get(n) == "pt"]
    pick = rng.sample(names, min(k, len(names)))
    if pts and rng.random() < 0.7:
        pick = [rng.choice(pts)] + [n for n in pick if c20.HINT.get(n) != "pt"]
        if len(pick) > 2 and rng.random() < 0.5:
            pick[0], pick[1] = pick[1], pick[0]
    return [dict({"name": c20.codes(n), "x": ""}, **text_value(rng, n)) for n in pick]


def mixed_args(rng, kind, k):
    """assignments and bare names over a few properties, in every order, names repeated"""
    c20 = _c20()
    names = sorted(c20.SETNAMES[kind])
    texty = [n for n in names if c20.HINT.get(n) in ("str", "col", "chr")] or names
    few = [rng.choice(texty) for _ in range(2)] + [rng.choice(names)]
    blank = {"n": [], "c": [], "sty": ""}
    out = []
    for _ in range(k):
        n = rng.choice(few)
        if rng.random() < 0.45:
            out.append(dict({"name": c20.codes(n), "x": "", "f": "none"}, **blank))
        else:
            v = text_value(rng, n)
            if v["f"] in ("num", "num2"):
                t = v["n"][0] * 65536 + v["n"][1]
                v = dict(blank, f="txt", c=c20.codes(str(t // 2) if t % 2 == 0 else "%.1f" % (t / 2.0)))
            out.append(dict({"name": c20.codes(n), "x": ""}, **v))
    return out


def typed_for(rng, n):
    """a type letter whose range holds the doubled value n = (hi, lo) (input shaping: the harness casts)"""
    t = n[0] * 65536 + n[1]
    if t % 2:
        return "f" if abs(t) < 2 ** 24 else "d"
    v = t // 2
    fits = [f for f, (lo, hi) in (("b", (-128, 127)), ("y", (0, 255)), ("n", (-32768, 32767)), ("q", (0, 65535)),
                                  ("i", (-2 ** 31, 2 ** 31 - 1)), ("u", (0, 2 ** 32 - 1)), ("x", (-2 ** 45, 2 ** 45))) if lo <= v <= hi]
    if abs(t) < 2 ** 24:
        fits.append("f")
    return rng.choice(fits + ["d"])


VA_CLASS = {"b": "I", "y": "I", "n": "I", "q": "I", "i": "I", "u": "I", "x": "X", "t": "X", "l": "X", "f": "D", "d": "D", "s": "P"}


def seed_vals(rng, big=False):
    """typed values for a format / iterator: shapes the harness can pass (up to 3 of any class, up to 12 of one class or alternating)"""
    c20 = _c20()
    blank = {"n": [], "c": [], "sty": ""}

    def one(code):
        if code == "s":
            return dict(blank, f="s", c=c20.codes(rng.choice(["red", "abc", "", "0.5", "hi there", "x" * 300])))
        if code in "fd":
            return dict(blank, f=code, n=c20.dbl(rng.choice([0, 1, 2, 3, -1, 4, 6, 400, 2 ** 20 + 1])))
        lim = {"b": 127, "y": 255, "n": 32767, "q": 65535}.get(code, 2 ** 31 - 1)
        return dict(blank, f=code, n=c20.dbl(2 * rng.choice([0, 1, 2, 5, 7, lim, lim // 2])))
    if not big:
        codes = [rng.choice("ffffddiiyxsbnqut") for _ in range(rng.choice([1, 1, 2, 2, 2, 3]))]
    else:
        n = rng.choice([4, 8, 12])
        r = rng.random()
        if r < 0.5:
            cls = rng.choice(["f", "d", "i", "x", "s"])
            pool = {"f": "fd", "d": "fd", "i": "iybnqu", "x": "xt", "s": "s"}[cls]
            codes = [rng.choice(pool) for _ in range(n)]
        else:
            a, b = rng.choice([("i", "d"), ("d", "i"), ("s", "d"), ("f", "s"), ("y", "s"), ("s", "i"), ("x", "f"), ("d", "t")])
            codes = [(a if k % 2 == 0 else b) for k in range(n)]
    return [one(c) for c in codes]


def gen_histories(ck, n, steps):
    c20 = _c20()
    rng = ck.rng
    kinds = ["axis", "line", "text", "graph", "world"]
    hist = []
    for h in range(n):
        kind = kinds[h % 5]
        beh = [{"a": "init", "arg": {"kind": kind}}]
        for _ in range(steps):
            r = rng.random()
            o = 0 if rng.random() < 0.7 else 1
            many = rng.random() < 0.12
            if r < 0.2:
                beh.append({"a": "dset", "arg": {"o": o, "ents": [seed_ent(rng, kind) for _ in range(rng.choice([1, 1, 2, 3, 6]))]}})
            elif r < 0.38:
                src = rng.choice(["str", "str", "va", "conv", "conv"])
                k = rng.choice([20, 40]) if many and src != "va" else rng.choice([0, 1, 1, 2, 2, 3, 5, 12 if src == "va" else 6])
                if src == "conv":
                    ents = [seed_ent(rng, kind, "typed" if rng.random() < 0.7 else "text") for _ in range(k)]
                elif rng.random() < 0.5:
                    ents = mixed_args(rng, kind, rng.choice([2, 2, 3, 4, 6]))
                else:
                    ents = [seed_ent(rng, kind, "text") for _ in range(k)]
                beh.append({"a": "args", "arg": {"o": o, "src": src, "ents": ents}})
            elif r < 0.56:
                k = rng.choice([20, 40]) if many else rng.choice([0, 1, 1, 2, 2, 3, 5, 8])
                ents = [seed_ent(rng, kind, "text" if rng.random() < 0.75 else "typed", xflags=True) for _ in range(k)]
                ents = [e for e in ents if not (e["f"] in ("txt", "rle", "s", "sr") and not e["c"])]     # (an empty text is no node value)
                if not many and rng.random() < 0.4:
                    ents = valid_list(rng, kind, rng.choice([2, 3, 4, 6]))
                beh.append({"a": "nodes", "arg": {"o": o, "match": rng.choice(MATCHES), "log": rng.choice([0, 1]), "ents": ents}})
            elif r < 0.74:
                nm = seed_name(rng, kind, 0.02)
                if rng.random() < 0.45:
                    nm = rng.choice(["pos", "scale", "pos", "Pos", "position"])
                unnamed = rng.random() < 0.05
                vals = seed_vals(rng, big=many)
                ents = [dict({"name": [], "x": "U"}, **v) for v in vals]
                if rng.random() < 0.35:
                    beh.append({"a": "iset", "arg": {"o": o, "name": c20.codes(nm), "unnamed": unnamed, "ents": ents}})
                else:
                    fmt = [ord(v["f"]) for v in vals]
                    q = rng.random()
                    if q < 0.08:
                        fmt, ents = [0], []
                    elif q < 0.14:
                        fmt, ents = [], []
                    elif q < 0.3:
                        cut = rng.randrange(0, len(fmt) + 1)
                        fmt = fmt[:cut] + [rng.choice([63, 33, 35, 37])] + fmt[cut:]
                        ents = ents[:cut]
                    beh.append({"a": rng.choice(["vset", "vvset"]), "arg": {"o": o, "name": c20.codes(nm), "unnamed": unnamed, "fmt": fmt, "ents": ents}})
            elif r < 0.86:
                beh.append({"a": "list", "arg": {"o": o, "match": rng.choice(LIST_MATCH), "mode": rng.choice(["foreach", "props", "print"])}})
            elif r < 0.95:
                beh.append({"a": "printset", "arg": {"o": o, "from": rng.choice([1 - o, 1 - o, 1 - o, o])}})
            else:
                beh.append({"a": "tname", "arg": {"o": o}})
        hist.append(beh)
    return hist


def trace_part(ck, module, hist, recs, tag, per_sig, max_rounds=8):
    """TLC validates the recorded histories; a rejected history is reported, dropped and the rest validated again."""
    events = vlib.merge_trace(hist, recs)
    bad = set()
    matched_total = 0
    for ev in events:
        if ev["a"] in ("Crash", "Hang", "Missing"):
            beh = hist[ev["b"]]
            stp = dict(ev, a=beh[ev["i"]]["a"])
            sig = "trace:" + signature({"step": stp, "why": ev["a"], "rec": ev}, kind_of(beh))
            ck.violation(sig, {"binding": "X21 B(trace validation) " + tag, "x21": True, "rejected_event": ev, "behaviour": beh[:ev["i"] + 1], "trace": module})
            bad.add(ev["b"])
    for rnd in range(max_rounds):
        evs = [e for e in events if e["b"] not in bad]
        if not evs:
            break
        ok, matched, tres = vlib.validate_trace(module, evs, tag=tag, timeout=1200)
        ck.cov["transitions"] += tres.generated
        if ok:
            matched_total = matched
            break
        ok2, matched2, tres2 = vlib.validate_trace(module, evs, tag=tag, timeout=1200)      # re-run once before reporting
        if ok2:
            matched_total = matched2
            break
        matched = min(matched, matched2)
        ev = evs[matched] if matched < len(evs) else None
        if not ev:
            ck.violation("x21:trace:short", {"binding": "X21 B(trace validation) " + tag, "x21": True, "matched_prefix": matched})
            break
        beh = hist[ev["b"]]
        inv = tres2.violation if tres2.violation and "Postcondition" not in tres2.violation else None
        sig = "trace:" + signature({"step": ev, "why": "rejected" if not inv else "invariant", "rec": ev}, kind_of(beh))
        per_sig[sig] = per_sig.get(sig, 0) + 1
        ck.violation(sig, {"binding": "X21 B(trace validation) " + tag, "x21": True, "matched_prefix": matched, "rejected_event": ev, "tlc": inv,
                           "previous_event": evs[matched - 1] if matched else None, "behaviour": beh[:ev["i"] + 1], "trace": module})
        bad.add(ev["b"])
    good = len(hist) - len(bad)
    ck.cov["traces_validated_against_impl"] += good if matched_total else 0
    ck.cov["evaluations"] += len(hist)
    ck.notes["x21_trace_events_" + tag] = len(events)
    ck.notes["x21_trace_events_matched_" + tag] = matched_total
    ck.notes["x21_trace_histories_rejected_" + tag] = len(bad)
    return len(bad)


def gen_histories_v(ck, n, steps):
    """reference object / local output object: variadic doors, iterator walks, listings (inputs only)"""
    c20 = _c20()
    rng = ck.rng
    blank = {"n": [], "c": [], "sty": ""}
    hist = []
    for h in range(n):
        kind = "hist" if h % 4 == 3 else "ref"
        names = ["count", "ratio", "label", "list", "list", "bogus"] if kind == "ref" else ["ignore", "ignore", "ignore", "bogus"]
        beh = [{"a": "init", "arg": {"kind": kind}}]
        for _ in range(steps):
            r = rng.random()
            o = 0 if rng.random() < 0.7 else 1
            nm = rng.choice(names)
            if r < 0.2:
                q = rng.random()
                if q < 0.15:
                    v = dict(blank, f="none")
                elif q < 0.45:
                    v = dict(blank, f="num", n=c20.dbl(rng.choice([0, 2, 6, 10, 16, 7, 510, 512, 600, 2 ** 20, -4, 2 ** 33])), sty="dec")
                elif q < 0.65:
                    v = dict(blank, f="txt", c=c20.codes(rng.choice(["abc", "x y", "hi", "", "x" * 400])))
                else:
                    v = seed_vals(rng)[0]
                beh.append({"a": "dset", "arg": {"o": o, "ents": [dict({"name": c20.codes(nm), "x": ""}, **v)]}})
            elif r < 0.55:
                vals = seed_vals(rng, big=rng.random() < 0.35)
                ents = [dict({"name": [], "x": "U"}, **v) for v in vals]
                if rng.random() < 0.3:
                    beh.append({"a": "iset", "arg": {"o": o, "name": c20.codes(nm), "ents": ents}})
                else:
                    fmt = [ord(v["f"]) for v in vals]
                    q = rng.random()
                    if q < 0.08:
                        fmt, ents = [0], []
                    elif q < 0.12:
                        fmt, ents = [], []
                    elif q < 0.25:
                        cut = rng.randrange(0, len(fmt) + 1)
                        fmt = fmt[:cut] + [rng.choice([63, 33, 35, 37])] + fmt[cut:]
                        ents = ents[:cut]
                    beh.append({"a": rng.choice(["vset", "vvset"]), "arg": {"o": o, "name": c20.codes(nm), "fmt": fmt, "ents": ents}})
            elif r < 0.8 and kind == "ref":
                vals = seed_vals(rng, big=rng.random() < 0.4)
                ents = [dict({"name": [], "x": "U"}, **v) for v in vals]
                fmt = [ord(v["f"]) for v in vals]
                if rng.random() < 0.1:
                    cut = rng.randrange(0, len(fmt) + 1)
                    fmt = fmt[:cut] + [63] + fmt[cut:]
                    ents = ents[:cut]
                w = [rng.choice("vvaaaar") for _ in range(rng.choice([1, 3, 5, 9, 16, 30]))]
                beh.append({"a": "walk", "arg": {"fmt": fmt, "w": w, "ents": ents}})
            elif r < 0.9:
                beh.append({"a": "list", "arg": {"o": o, "match": rng.choice(LIST_MATCH), "mode": rng.choice(["foreach", "props", "print"])}})
            elif r < 0.95:
                beh.append({"a": "tname", "arg": {"o": o}})
            else:
                v = seed_vals(rng)[0]
                if v["f"] == "s":
                    v = dict(blank, f="i", n=[0, 14])
                beh.append({"a": "vcopy", "arg": {"max": rng.choice([0, 1, 2, 3, 4, 7, 8, 16, 32]), "nosrc": rng.choice([0, 0, 1]), "ents": [dict({"name": [], "x": "U"}, **v)]}})
        hist.append(beh)
    return hist


def gen_histories_x(ck, n, steps):
    """C++ object interface: attribute assignment, iteration, node lists (inputs only)"""
    c20 = _c20()
    rng = ck.rng
    kinds = ["axis", "line", "text", "graph", "world"]
    hist = []

    def cxx_ent(kind, forms="any"):
        e = seed_ent(rng, kind, forms)
        if e["f"] in ("s", "sr", "l"):
            e = dict(e, f="txt" if e["f"] != "sr" else "rle")
        return e
    for h in range(n):
        kind = kinds[h % 5]
        beh = [{"a": "init", "arg": {"kind": kind}}]
        for _ in range(steps):
            r = rng.random()
            o = 0 if rng.random() < 0.7 else 1
            if r < 0.25:
                beh.append({"a": "dset", "arg": {"o": o, "ents": [cxx_ent(kind) for _ in range(rng.choice([1, 1, 2, 3]))]}})
            elif r < 0.6:
                e = cxx_ent(kind)
                while e["f"] == "none":
                    e = cxx_ent(kind)
                if rng.random() < 0.5:
                    e["name"] = c20.codes(rng.choice(c20.NAMES[kind]))       # prefixes, case variants, foreign names
                beh.append({"a": "aset", "arg": {"o": o, "ents": [e]}})
            elif r < 0.75:
                beh.append({"a": "alist", "arg": {"o": o, "const": rng.choice([0, 1])}})
            else:
                k = rng.choice([0, 1, 1, 2, 3, 5, 20])
                ents = []
                for _ in range(k):
                    e = cxx_ent(kind, "text")
                    if e["f"] in ("txt", "rle") and not e["c"]:
                        continue
                    if rng.random() < 0.06:
                        e = dict(e, name=[], x="U")
                    ents.append(e)
                if rng.random() < 0.5:
                    ents = valid_list(rng, kind, rng.choice([2, 3, 4, 6]))
                beh.append({"a": "nset", "arg": {"o": o, "proc": rng.choice([0, 1]), "ents": ents}})
        hist.append(beh)
    return hist
