"""C08 -- configuration parser is total and fails cleanly (spec/ParseMon.tla)."""
import json
import os
import re
import vlib
import c09

PID = "C08"
MANIFEST = dict(
        spec="ParseMon.tla (+MC_ParseMon, Trace_ParseMon); inputs from ConfText.tla",
        text="A monitor specification of the parser's event protocol (start, getc, section, section end, option, data, return) states the "
             "property as rules: read budget |input|+2, nothing after return, a failing mpt_parse_node leaves the target forest as it "
             "was, no live allocation remains after a failure (or after success + clearing the target), and the events of a successful "
             "parse are well nested (stack of open section names against the element path each event carries).  TLC checks the monitor "
             "exhaustively on a small alphabet, and validates every recorded run of the real mpt_parse_config (recording handler, "
             "counting getc, optional handler refusal) and mpt_parse_node (prepared target, forest before/after) on documents rendered "
             "by ConfText.tla and on seeded mutations of them (truncation, stray delimiters, unterminated quotes, NUL/high bytes, runs "
             "across 255/65535 bytes, nesting bombs, random bytes, foreign formats and name flags).",
        note="Trusted: TLC, drv/conftext.c (projection only).  Invalid accesses are observed by ASan and leaks by allocator hooks on "
             "every executed run, not proved; termination is observed (20 s watchdog).  Mutation is sampling, not exhaustive.",
        technique="TLA+ monitor spec + TLC exhaustive check; TLC trace validation of runs recorded from the C code on generated and mutated inputs",
        design="5/C08")

CFG = {
    "quick":    dict(mc="MC_ParseMon.cfg", gen="Gen_ConfText.cfg", names="Gen_ConfText_n.cfg", scan="Gen_ConfScan.cfg", nbase=250, nmut=6, nrand=150),
    "thorough": dict(mc="MC_ParseMon_t.cfg", gen="Gen_ConfText_t.cfg", names="Gen_ConfText_n.cfg", scan="Gen_ConfScan_t.cfg", nbase=2500, nmut=10, nrand=3000),
}

FORMATS = [[0]] + [list(x) for x in (b"{*} =;!# `", b"[*] = ", b"[*] = !", b"{*} =;!#", b"[ ] = #", b"%x% = ", b"<x> = ",
                                     b"{_} = ", b"{_} =;", b"[ ]   #", b"[_]   #", b"%x%  ;#", b"(*)@:,;% '", b"[ ]\t=\t;", b"|x| = ", b"{*}", b"<x", b"{q} = ",
                                     b"  ", b"\"*\"'=\n#", b"{*} ==", b"[ [ = #", b"{*}}=}")]
ACCEPTS = [[0], [], list(b"Ef"), list(b"Esnw"), list(b"E"), list(b"Esc"), list(b"ns"), list(b"ENSWBenswb"), list(b"b"), list(b"W"), list(b"F")]


def flat(runs):
    out = []
    for b, n in runs:
        out += [b] * n
    return out


def hostile(rng, fmt):
    pool = [0, 0, 1, 9, 10, 10, 13, 32, 34, 39, 92, 96, 35, 33, 61, 59, 123, 125, 91, 93, 46, 127, 128, 200, 255]
    pool += [b for b in fmt if b]
    return rng.choice(pool)


def mutate(rng, data, fmt):
    d = list(data)
    n = len(d)
    kind = rng.choice(["trunc", "del", "delrange", "ins", "ins", "repl", "dup", "quote", "longrun", "swap", "append"])
    if kind == "trunc" and n:
        d = d[:rng.randrange(n)]
    elif kind == "del" and n:
        del d[rng.randrange(n)]
    elif kind == "delrange" and n:
        i = rng.randrange(n)
        del d[i:i + rng.randrange(1, 8)]
    elif kind == "ins":
        d.insert(rng.randrange(n + 1), hostile(rng, fmt))
    elif kind == "repl" and n:
        d[rng.randrange(n)] = hostile(rng, fmt)
    elif kind == "dup" and n:
        i = rng.randrange(n)
        k = rng.randrange(1, 12)
        d[i:i] = d[i:i + k]
    elif kind == "quote":
        d.insert(rng.randrange(n + 1), rng.choice([34, 39, 96, 92]))
    elif kind == "longrun":
        i = rng.randrange(n + 1)
        ch = rng.choice([97, 120, 32, 34, 92, 35, 128] + ([d[i - 1]] if i else []))
        d[i:i] = [ch] * rng.choice([249, 250, 254, 255, 256, 257, 300, 1000, 65535, 65536])
    elif kind == "swap" and n > 1:
        i, j = rng.randrange(n), rng.randrange(n)
        d[i], d[j] = d[j], d[i]
    else:
        d += [hostile(rng, fmt) for _ in range(rng.randrange(1, 6))]
    return d, kind


def make_inputs(ck, cases, cfg):
    """(fmt, acc, text, origin) tuples: generated documents, their mutations, foreign formats, random bytes, bombs."""
    rng = ck.rng
    out = []
    pick = cases if len(cases) <= cfg["nbase"] else rng.sample(cases, cfg["nbase"])
    for st in pick:
        fmt, acc, text = flat(st["arg"]["fmt"]), flat(st["arg"]["acc"]), flat(st["arg"]["text"])
        out.append((fmt, acc, text, "valid" if st["exp"]["ret"] == "ok" else "strayend"))
        cur = text
        for k in range(cfg["nmut"]):
            if len(cur) > 200000:
                break
            cur2, kind = mutate(rng, cur if rng.random() < 0.3 else text, fmt)
            f2, a2 = fmt, acc
            if rng.random() < 0.15:
                f2 = rng.choice(FORMATS)
            if rng.random() < 0.15:
                a2 = rng.choice(ACCEPTS)
            out.append((f2, a2, cur2, "mut:" + kind))
            cur = cur2
    # a section end (and start) character too many at the start, behind the first line, in the middle and at the
    # end of balanced documents of every format family (judged by the monitor: success only if well nested)
    bystyle = {}
    for st in cases:
        if st["exp"]["ret"] == "ok" and st["exp"]["tree"]:
            bystyle.setdefault((c09.fmt_style(st["arg"]), json.dumps(st["arg"]["fmt"])), []).append(st)
    for (sty, _), lst in sorted(bystyle.items()):
        for st in (lst[0], lst[len(lst) // 2], lst[-1]):
            fmt, acc, text = flat(st["arg"]["fmt"]), flat(st["arg"]["acc"]), flat(st["arg"]["text"])
            se = fmt[2] if len(fmt) > 2 and fmt != [0] else 125
            ss = fmt[0] if fmt != [0] else 123
            nl = text.index(10) + 1 if 10 in text else len(text)
            for pos in sorted(set([0, nl, len(text) // 2, len(text)])):
                for ins in ([se], [10, se, 10], [se, se], [ss, se, se]):
                    out.append((fmt, acc, text[:pos] + ins + text[pos:], "strayend"))
    for _ in range(cfg["nrand"]):
        fmt, acc = rng.choice(FORMATS), rng.choice(ACCEPTS)
        if rng.random() < 0.3:     # random format string from delimiter pool
            pool = list(b"{}[]()<>|%@:=;,!#`'\" \t_x*") + [10, 128]
            fmt = [rng.choice(pool) for _ in range(rng.randrange(0, 12))] or [0]
            if 0 in fmt and fmt != [0]:
                fmt = [b for b in fmt if b] or [0]
        k = rng.choice([0, 1, 2, 5, 10, 20, 40, 80])
        alpha = [b for b in fmt if b] * 3 + list(b"ab =\n\n \t\"'#;{}[]\\") + [0, 128, 255]
        text = [rng.choice(alpha) for _ in range(k)]
        out.append((fmt, acc, text, "random"))
    # concatenations of two or three generated documents of the same configuration: more elements behind
    # sections (also nameless ones) than the skeleton bound of the export offers
    groups = {}
    for st in cases:
        if st["exp"]["ret"] == "ok" and st["exp"]["tree"]:
            groups.setdefault((json.dumps(st["arg"]["fmt"]), json.dumps(st["arg"]["acc"])), []).append(st)
    keys = sorted(groups)
    for _ in range(cfg.get("ncat", 300)):
        lst = groups[rng.choice(keys)]
        parts = [rng.choice(lst) for _ in range(rng.choice([2, 3]))]
        filled = [st for st in lst if any(x["c"] for x in st["exp"]["tree"])]
        if filled and rng.random() < 0.6:        # a section with content first, further elements behind it
            parts[0] = rng.choice(filled)
        text = []
        for ptx in parts:
            text += flat(ptx["arg"]["text"]) + [10]
        out.append((flat(parts[0]["arg"]["fmt"]), flat(parts[0]["arg"]["acc"]), text, "concat"))
    # nesting bombs in every style (the recording run gets a moderate depth: every event carries its whole path)
    deep = 70000 if ck.tier == "thorough" else 3000
    for fmt, unit, closer, depth in (([0], list(b"a{"), [125], deep), (list(b"<x> = "), list(b"<a "), [62], deep),
                                     (list(b"[ ] = #"), list(b"[a]"), [], 3000), ([0], list(b"a{b=1\n"), [125], 500),
                                     ([0], list(b"{"), [125], deep)):
        for d, origin in ((depth, "bomb:parse"), (150, "bomb")):
            out.append((fmt, [0], unit * d, origin))
            out.append((fmt, [0], unit * d + closer * d, origin))
    for n in (255, 256, 65535, 65536, 65537):
        out.append(([0], [0], [97] * n + list(b" = 1\n"), "longname"))
        out.append(([0], [0], [97] * n + list(b" {\n}\n"), "longname"))
        out.append((list(b"[ ] = #"), [0], [91] + [97] * n + [93, 10], "longname"))
        out.append(([0], [0], list(b"a = \"") + [120] * n, "longquote"))
        out.append(([0], [0], list(b"# ") + [120] * n, "longcomment"))
    return out


LIMITS = [[0], list(b"ns"), list(b"E"), [], list(b"nsq"), list(b"x"), list(b"n?"), list(b"ENSW-"), list(b"1")]


def front_steps(ck, cases, n):
    """the FILE and folder front ends: valid and failing format / name-limit descriptions, failing files,
    always with runs on non-empty targets (judged by the monitor: unchanged target, nothing left behind)"""
    rng = ck.rng
    ok = [st for st in cases if st["exp"]["ret"] == "ok" and st["exp"]["tree"]]
    pre = [st for st in ok if flat(st["arg"]["fmt"]) == [0]]
    behs = []
    for k in range(n):
        st = rng.choice(ok)
        fmt = st["arg"]["fmt"] if rng.random() < 0.7 else c09.runs_of(rng.choice(FORMATS))
        lim = LIMITS[k % len(LIMITS)]
        arg = {"fmt": fmt, "acc": c09.runs_of(lim), "text": st["arg"]["text"], "pre": 1 + k % 3}
        behs.append([{"a": "nodeparse", "arg": arg, "origin": "front"}])
    bad = [list(b"}"), list(b"a = \"x"), list(b"a {"), list(b"b{c{"), [0, 61], list(b"=\n}")]
    for k in range(n):
        files = [flat(rng.choice(pre)["arg"]["text"]) for _ in range(rng.choice([1, 2, 3]))]
        if k % 2 == 0:
            files.insert(rng.randrange(len(files) + 1), rng.choice(bad))
        arg = {"n": len(files)}
        for i, t in enumerate(files):
            arg["t%d" % i] = c09.runs_of(t)
        arg["text"] = c09.runs_of(files[0])
        arg["fmt"] = [[0, 1]]
        if rng.random() < 0.2:
            arg["refuse"] = rng.randrange(0, 5)
        behs.append([{"a": "folder", "arg": arg, "origin": "front"}])
    return behs


def to_steps(ck, inputs):
    rng = ck.rng
    behs = []
    for fmt, acc, text, origin in inputs:
        arg = {"fmt": c09.runs_of(fmt), "acc": c09.runs_of(acc), "text": c09.runs_of(text)}
        a1 = dict(arg)
        if rng.random() < 0.3:
            a1["refuse"] = rng.randrange(0, 6)
        a2 = dict(arg, pre=rng.choice([0, 0, 1, 2, 3, 4, 4]))
        if rng.random() < 0.3:                   # the same text parsed into the target once or twice before
            a2["rep"] = rng.choice([1, 1, 2])
        if text and rng.random() < 0.1:          # the source reports a read error (-1) after some bytes
            a1["fail"] = rng.randrange(len(text))
            a2["fail"] = rng.randrange(len(text))
        if origin == "bomb:parse":       # deep nesting: mpt_parse_node only
            behs.append([{"a": "parse", "arg": a2, "origin": origin}])
        else:
            behs.append([{"a": "events", "arg": a1, "origin": origin}, {"a": "parse", "arg": a2, "origin": origin}])
    return behs


script = c09.script


def style(arg):
    return c09.fmt_style(arg)


def run_and_validate(ck, exe, behs, tag):
    """Execute, then let TLC judge every recorded run.  Returns (events, rejects, tlcresult)."""
    recs, done = c09.run_guarded(exe, behs, chunk=1000, timeout=1200)
    behs = behs[:done]
    by = vlib.group_records(recs)
    events, faults = [], []
    for b, beh in enumerate(behs):
        rs = by.get(b, [])
        for i, st in enumerate(beh):
            r = rs[i] if i < len(rs) else None
            if r is None or r.get("a") in ("Crash", "Hang", "Garbled"):
                faults.append((b, i, st, r))
                break
            events.append({"a": st["a"], "arg": {"b": b, "i": i}, "obs": r["obs"], "_b": b, "_i": i, "_dbg": r.get("dbg")})
    keys = ("ret", "ev", "fbefore", "ftree", "reads", "len", "net", "netclear", "links", "fds")
    slim = [{"a": e["a"], "arg": e["arg"], "obs": {k: v for k, v in e["obs"].items() if k in keys}} for e in events]
    vlib.log("trace validation of %d runs ..." % len(slim))
    ok, matched, res = vlib.validate_trace("Trace_ParseMon", slim, cfg="Trace_ParseMon.cfg", tag=tag, xss="1g",
                                            timeout=900 if len(slim) < 20000 else 2700)
    vlib.log("trace validation done in %.1fs" % res.wall)
    rejects = [(int(l), int(r), why) for l, r, why in re.findall(r'<<"REJECT", (\d+), (\d+), "([^"]*)">>', res.out)]
    if matched != len(slim):
        raise vlib.MachineryError("trace validation stopped at %d of %d runs:\n%s" % (matched, len(slim), res.out[-2000:]))
    return events, faults, rejects, res


def report(ck, behs, events, faults, rejects, note):
    for b, i, st, r in faults:
        why = (r or {}).get("a", "Missing")
        sig = "%s:%s:%s" % (st["a"], why.lower(), classify(st))
        ck.violation(sig, {"binding": note, "behaviour": strip(behs[b]), "step": i, "why": why, "record": r,
                           "text": c09.unruns(st["arg"]["text"])[:2000]})
    for l, r, why in rejects:
        ev = events[l - 1]
        st = behs[ev["_b"]][ev["_i"]]
        sig = "%s:%s:%s" % (st["a"], why, classify(st))
        ck.violation(sig, {"binding": note, "behaviour": strip(behs[ev["_b"]]), "step": ev["_i"], "why": why, "event_index": r,
                           "record": {"obs": trim(ev["obs"]), "dbg": ev["_dbg"]}, "text": c09.unruns(st["arg"]["text"])[:2000]})


def classify(st):
    """argument class of the failing run: style + origin of the input + extreme run length"""
    arg = st["arg"]
    longest = max([n for _, n in arg["text"]] or [0])
    size = "run>=65535" if longest >= 65535 else "run>=250" if longest >= 250 else "short"
    return "%s:%s:%s" % (style(arg), st.get("origin", "?").split(":")[0], size)


def strip(beh):
    return [{"a": s["a"], "arg": s["arg"], "origin": s.get("origin")} for s in beh]


def bare(beh):
    return [{"a": s["a"], "arg": s["arg"]} for s in beh]


def trim(o):
    o = dict(o)
    for k in ("tree", "fbefore", "ftree", "ev"):
        if k in o and len(json.dumps(o[k])) > 3000:
            o[k] = "(%d bytes of JSON)" % len(json.dumps(o[k]))
    return o


def match_events(exp, obs, step=None, rec=None, prev=None):
    """a successful parse must have emitted exactly the expected events (kind, path, value)"""
    if exp.get("ret") == "error":       # unmatched section end: a successful return cannot have been well nested
        return None if obs.get("ret") == "error" else "accepted-unmatched-end: expected an error return, observed %s" % obs.get("ret")
    if obs.get("ret") != "ok":
        return None             # acceptance is C09's claim; a refusal is judged by the monitor (clean failure)
    got = [{"e": e["e"], "p": e["p"], "v": e["v"]} for e in obs.get("ev", [])]
    if got != exp["ev"]:
        k = 0
        while k < len(got) and k < len(exp["ev"]) and got[k] == exp["ev"][k]:
            k += 1
        return "ev: event %d: expected %s, observed %s" % (k, json.dumps(exp["ev"][k] if k < len(exp["ev"]) else None)[:200],
                                                         json.dumps(got[k] if k < len(got) else None)[:200])
    return None


def run(tier):
    cfg = CFG[tier]
    ck = vlib.Check(PID, tier)
    exe = vlib.build_driver("conftext", ["conftext.c"])

    import time
    import concurrent.futures
    tm = {}
    t0 = time.time()
    # the three TLC jobs are independent: the monitor itself, the documents of ConfText, the hostile option data
    with concurrent.futures.ThreadPoolExecutor(max_workers=4) as ex:
        f1 = ex.submit(c09.tlc_retry, "MC_ParseMon", cfg["mc"], 240, workers=4)
        f2 = ex.submit(c09.tlc_retry, "Gen_ConfText", cfg["gen"], c09.TMO[tier], workers=4, env={"SKIP_SCAN": "1"})
        f3 = ex.submit(c09.tlc_retry, "Gen_ConfScan", cfg["scan"], c09.TMO[tier], workers=2, env={"SKIP_SCAN": "1"})
        f4 = ex.submit(c09.tlc_retry, "Gen_ConfText", cfg["names"], c09.TMO[tier], workers=2, env={"SKIP_SCAN": "1"}, tag="Gen_ConfText_n")
        res, gen, scan, gnam = f1.result(), f2.result(), f3.result(), f4.result()
    tm["tlc_jobs"] = round(time.time() - t0, 1); t0 = time.time()
    # 1. the monitor itself
    ck.add_tlc(res, "exhaustive " + cfg["mc"])

    # 2. inputs: documents rendered by ConfText (TLC) + seeded mutations
    if gen.error or gen.violation:
        raise vlib.MachineryError("case export failed: %s %s" % (gen.error, gen.violation))
    cases = [b[0] for b in vlib.parse_behaviours(gen.out)]
    if gnam.error or gnam.violation:
        raise vlib.MachineryError("long-name case export failed: %s %s" % (gnam.error, gnam.violation))
    # names across the allocation steps of the path buffer, in every format family (all of them join the monitored runs)
    ncases = [b[0] for b in vlib.parse_behaviours(gnam.out)]
    inputs = make_inputs(ck, cases, cfg) + [(flat(st["arg"]["fmt"]), flat(st["arg"]["acc"]), flat(st["arg"]["text"]), "names")
                                            for st in ncases]
    cases = cases + ncases
    behs = to_steps(ck, inputs) + front_steps(ck, cases, 60 if tier == "quick" else 600)

    # 2b. every byte string over a hostile alphabet as option data (Gen_ConfScan): these runs join the
    #     monitored ones; what the scanner model (Tier 2) predicts for them is compared for the record only
    #     (texts outside the rendered language are not covered by the statement: no verdict)
    if scan.error or scan.violation:
        raise vlib.MachineryError("scanner case export failed: %s %s" % (scan.error, scan.violation))
    scases, dup = [], set()
    for b in vlib.parse_behaviours(scan.out):      # strings with the same consumed prefix give the same case
        key = json.dumps(b[0]["arg"], sort_keys=True)
        if key not in dup:
            dup.add(key)
            scases.append(b[0])
    nscan0 = len(behs)
    behs += [[{"a": "events", "arg": st["arg"], "origin": "scan", "exp": st["exp"]}] for st in scases]
    ck.cov["transitions"] += gen.generated + scan.generated + gnam.generated
    tm["inputs"] = round(time.time() - t0, 1); t0 = time.time()

    # 2a. binding A: for the generated documents the specification knows the exact event sequence
    #     (section start / option / section end with element paths and values); a successful
    #     mpt_parse_config must have shown exactly that sequence to its handler
    #     documents with an unmatched section end (ConfText.StrayEnd) denote no forest: both calls must fail
    behsA = []
    for st in cases:
        if st["exp"]["ret"] == "error":
            behsA.append([{"a": "events", "arg": st["arg"], "exp": {"ret": "error"}}])
            behsA.append([{"a": "parse", "arg": dict(st["arg"], pre=ck.rng.choice([0, 1, 3, 4])), "exp": {"ret": "error"}}])
        else:
            behsA.append([{"a": "events", "arg": st["arg"], "exp": {"ev": st["exp"]["ev"]}}])
    recsA, doneA = c09.run_guarded(exe, behsA, chunk=1000)
    behsA = behsA[:doneA]
    mmsA = vlib.compare(behsA, recsA, match_events)
    seen = {}
    for mm in mmsA:
        st = behsA[mm["b"]][mm["i"]]
        sig = "%s:%s:%s" % (st["a"], mm["why"].split(":")[0].lower(), style(st["arg"]))
        seen[sig] = seen.get(sig, 0) + 1
        if seen[sig] <= 3:
            ck.violation(sig, {"binding": "A(replay)", "behaviour": strip(behsA[mm["b"]]), "step": mm["i"], "why": mm["why"],
                               "record": mm["rec"], "text": c09.unruns(st["arg"]["text"])[:2000], "expected": st["exp"]})
    tm["replay"] = round(time.time() - t0, 1); t0 = time.time()
    ck.notes["replayed_event_sequences"] = len(behsA)
    ck.notes["replay_mismatches"] = len(mmsA)

    # 3. binding B: every recorded run validated against the monitor by TLC
    events, faults, rejects, tres = run_and_validate(ck, exe, behs, "Trace_ParseMon")
    ck.cov["transitions"] += tres.generated
    tm["trace"] = round(time.time() - t0, 1)
    tm["trace_tlc"] = round(tres.wall, 1)
    ck.notes["phase_seconds"] = tm
    if faults or rejects:
        # re-run the affected behaviours once before reporting
        idx = sorted(set([b for b, _, _, _ in faults] + [events[l - 1]["_b"] for l, _, _ in rejects]))
        sub = [behs[b] for b in idx]
        ev2, f2, r2, _ = run_and_validate(ck, exe, sub, "Trace_ParseMon_re")
        report(ck, sub, ev2, f2, r2, "B(trace validation)")
    # scanner model against the code (diagnostic)
    agree = disagree = 0
    dis = []
    for e in events:
        st = behs[e["_b"]][e["_i"]]
        if st.get("origin") != "scan":
            continue
        exp, o = st["exp"], e["obs"]
        got = [{"e": x["e"], "p": x["p"], "v": x["v"]} for x in o.get("ev", [])]
        same = exp["ret"] == o.get("ret") and (exp["ev"] == "any" or exp["ev"] == got)
        agree += same
        disagree += not same
        if not same and len(dis) < 5:
            dis.append({"fmt": c09.unruns(st["arg"]["fmt"]), "text": c09.unruns(st["arg"]["text"]), "model": exp,
                        "code": {"ret": o.get("ret"), "ev": got}})
    ck.notes["scanner_model"] = {"cases": agree + disagree, "agree": agree, "disagree": disagree, "samples": dis}
    if disagree:
        vlib.log("note: the DataScan model and mpt_parse_data disagree on %d of %d hostile strings (no verdict)" % (disagree, agree + disagree))
    nruns = len(events)
    kinds = {}
    nt = set()
    for e in events:
        st = behs[e["_b"]][e["_i"]]
        o = e["obs"]
        key = "%s:%s" % (e["a"], o.get("ret"))
        kinds[key] = kinds.get(key, 0) + 1
        # non-trivial: the run consumed input and either failed, or nested (a section event / a child in the forest)
        nested = any(x.get("e") == "sect" for x in o.get("ev", [])) or any(x.get("c") for x in o.get("tree", []) if isinstance(x, dict))
        if o.get("reads", 0) > 1 and (o.get("ret") == "error" or nested):
            nt.add(json.dumps([e["a"], st["arg"]], sort_keys=True))
    ck.cov["evaluations"] = nruns + len(behsA)
    ck.cov["distinct_nontrivial"] = len(nt)
    ck.cov["traces_validated_against_impl"] = nruns - len(rejects)
    ck.cov["exhaustive"] = False
    ck.notes["runs_by_kind"] = kinds
    ck.notes["inputs"] = len(inputs)
    ck.notes["inputs_by_origin"] = {}
    for _, _, _, o in inputs:
        k = o.split(":")[0]
        ck.notes["inputs_by_origin"][k] = ck.notes["inputs_by_origin"].get(k, 0) + 1
    ck.notes["faults"] = len(faults)
    ck.notes["rejected_runs"] = len(rejects)
    ck.cov["rule"] = ("each input (documents generated by TLC from ConfText, seeded mutations of them, random byte strings, nesting bombs, "
                      "long tokens; formats/name flags shipped + hostile) is run twice in the real code: mpt_parse_config with a recording "
                      "handler (30% with a handler refusal at event 0..5) and mpt_parse_node on a target with 0..3 existing children; "
                      "every recorded run is unfolded into monitor events and accepted or refused by TLC (Trace_ParseMon).  Non-trivial "
                      "= the run read input and failed, or produced a section (nesting); distinct by (call, format, flags, text).  The "
                      "monitor itself is checked exhaustively (MC_ParseMon); the trace validation is sampling (exhaustive: false).")
    pick = [e for e in events if e["obs"].get("ret") == "error"][:2] + [e for e in events if e["obs"].get("ret") == "ok" and e["a"] == "events"][:2]
    ck.cov["samples"] = [{"call": e["a"], "fmt": c09.unruns(behs[e["_b"]][e["_i"]]["arg"]["fmt"]),
                          "text": c09.unruns(behs[e["_b"]][e["_i"]]["arg"]["text"])[:300],
                          "obs": trim({k: v for k, v in e["obs"].items() if k not in ("fbefore", "ftree")})} for e in pick]
    ck.assumptions = ["TLC/SANY and the CommunityModules Json/IOUtils are correct",
                      "drv/conftext.c projects without judgement (event kinds, path elements, forests, counters)",
                      "invalid accesses are observed by ASan, leaks by the allocator hooks, non-termination by a 20 s watchdog: observed on "
                      "the executed runs, not proved",
                      "end-of-input may be polled twice (MaxPolls = 2): the indication is not an input character",
                      "inputs are sampled (seeded); one-time lazy initialisations of the library are excluded by a warm-up parse"]
    return ck.finish()


def replay(path):
    d = json.load(open(path))
    beh = d["detail"].get("behaviour")
    if not beh:
        print(json.dumps(d["detail"], indent=1)[:4000])
        return 2
    ck = vlib.Check(PID, "replay")
    exe = vlib.build_driver("conftext", ["conftext.c"])
    events, faults, rejects, _ = run_and_validate(ck, exe, [beh], "Trace_ParseMon_replay")
    for b, i, st, r in faults:
        print("VIOLATION property=%s replay=%s  (%s:%s)" % (PID, path, st["a"], (r or {}).get("a", "Missing")))
    for l, r, why in rejects:
        print("VIOLATION property=%s replay=%s  (%s:%s)" % (PID, path, events[l - 1]["a"], why))
    return 1 if (faults or rejects) else 0
