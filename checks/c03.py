"""C03 -- decoders are safe and honest on arbitrary bytes (spec/Cobs.tla, spec/CobsDec.tla)."""
import itertools
import json

import vlib
import c01 as enc

PID = "C03"
MANIFEST = dict(
        spec="Cobs.tla (RefBody/Verdict), CobsDec.tla (+MC_CobsDec, Gen_CobsDec, Trace_CobsDec)",
        text="TLC checks exhaustively, for ALL byte strings up to 3/4 bytes over a boundary alphabet (delimiter, smallest codes, "
             "block limit, pair codes), every segmentation into feeds, a call or a peek at every point, resumption after every "
             "answer and every grant schedule, that the in-place decoder design (read index, write index, slack, (code,pos) "
             "context, tail inline, pair codes, command header) only writes below its read position, never modifies unread "
             "input, answers 'message' only with what the independent reference decoder reads from a complete well-formed frame "
             "and never for a malformed one.  Every transition of that model is replayed into the unmodified decoder sources "
             "compiled at block limits 3/5 and into mpt_decode_command (region relocated and cut into separately guarded "
             "segments per call); where code and design differ TLC re-judges the recorded calls against the property alone.  At "
             "production block sizes all strings up to 3/4 bytes over {00,01,02,1F,20,DE,DF,E0,E1,FE,FF}, mutated valid long "
             "frames (bit flips, inserted/duplicated delimiters, truncation, concatenation) and seeded feed/call/peek/grant "
             "schedules are run through the five shipped decoders and mpt_queue_recv/mpt_queue_peek; TLC validates every "
             "recorded answer, the write bound and the guard bytes.",
        note="'touches no memory outside the caller's buffers' is observed (every segment separately allocated with guard bytes, "
             "ASan) on each executed call, not proved; the specification decides the index discipline (writes below the read "
             "position).  Termination = every call returned within the driver's alarm.  After a reported error only the safety "
             "clauses are demanded.",
        technique="TLA+ spec + TLC exhaustive check; TLC-generated behaviours replayed into the C code; TLC trace validation of recorded runs",
        design="5/C03")

CFG = {
    "quick":    dict(mc="MC_CobsDec_q.cfg", gen="Gen_CobsDec.cfg",   maxlen=3, nmsg=60,  nsched=150),
    "thorough": dict(mc="MC_CobsDec.cfg",   gen="Gen_CobsDec_t.cfg", maxlen=4, nmsg=500, nsched=1500,
                     mc2="MC_CobsDec_t5.cfg"),
}
KINDS = enc.KINDS
ALPHA = [0x00, 0x01, 0x02, 0x1F, 0x20, 0xDE, 0xDF, 0xE0, 0xE1, 0xFE, 0xFF]
DESIGN_ONLY = ("safe",)


def match(exp, obs, step, rec, prev):
    """Equality of the design's prediction with what the code did."""
    if obs.get("guards") == 0:
        return "guard bytes around a segment were overwritten"
    for k, v in exp.items():
        if k in DESIGN_ONLY or v == "any":
            continue
        if obs.get(k) != v:
            return "%s: design %s, code %s" % (k, json.dumps(v)[:200], json.dumps(obs.get(k))[:200])
    return None


def stream_class(data):
    """argument class of a stream for signatures (no judgement: shape only)."""
    if not data:
        return "empty"
    if data[0] == 0:
        return "lead0"
    for i in range(len(data) - 1):
        if data[i] == 0 and data[i + 1] == 0:
            return "dbl0"
    return "z" if 0 in data else "open"


def signature(beh, i, why, rec=None):
    st = beh[i] if i < len(beh) else {"a": "?"}
    a0 = beh[0].get("arg") or {}
    kind = a0.get("kind")
    cls = "crash" if why == "Crash" else "hang" if why == "Hang" else "rejected"
    cond = ""
    o = (rec or {}).get("obs") or {}
    if o.get("guards") == 0:
        cond = ":guards"
    elif st["a"] == "run" or st["a"] == "qrun":
        cond = ":" + stream_class(a0.get("data") or []) + ":" + str(o.get("last"))
    elif "ret" in o:
        cond = ":" + str(o.get("ret"))
    return "%s:%s:%s%s" % (st["a"], kind, cls, cond)


def assign_segs(rng, behs):
    """The design says the answer does not depend on how the region is cut
    into iovec elements: pick a cut per call (schedule choice)."""
    for beh in behs:
        for st in beh:
            if st["a"] == "call":
                st["arg"]["seg"] = rng.choice([0, 0, 1, 2, 3, 4, 5])
                st["arg"]["emp"] = rng.choice([0, 0, 1, 1, 2, 3, 4])     # zero-length parts in the vector
    return behs


def short_strings(maxlen):
    out = [[]]
    for n in range(1, maxlen + 1):
        out += [list(t) for t in itertools.product(ALPHA, repeat=n)]
    return out


def run_step(rng, kind, data, action="run"):
    return [{"a": action, "arg": {"kind": kind, "m": 0, "data": data,
                                  "chunk": rng.choice([0, 0, 1, 1, 2, 3, 7, 64, 255]),
                                  "seg": rng.choice([0, 0, 1, 1, 2, 3, 4, 5]),
                                  "emp": rng.choice([0, 0, 1, 1, 2, 3, 4]),
                                  "mis": rng.randrange(16), "grant": rng.choice([1, 2, 3, 8, 64]),
                                  "slack": rng.choice([0, 0, 1, 2, 5]), "maxres": 64,
                                  # qrun: size the decode ring is kept at while the data fits (0: grows with each chunk)
                                  "ring": rng.choice([0, 24, 48, 100, 300])}}]


def library_frames(ck, exe, nmsg):
    """valid frames of run-structured messages, made by the library's encoders"""
    msgs = enc.run_structured(ck.rng, False, nmsg)
    behs = []
    for m in msgs:
        for kind in KINDS:
            mm = [b if b else 1 for b in m] if kind == "cmd" else m
            behs.append([{"a": "einit", "arg": {"kind": kind, "m": 0, "path": "array", "cap": 0, "pre": 0, "msg": mm}},
                         {"a": "fin", "arg": {"x": 0}}])
    recs, _ = vlib.run_driver(exe, vlib.to_script(behs), timeout=600)
    by = vlib.group_records(recs)
    frames = []
    for b, beh in enumerate(behs):
        rs = by.get(b, [])
        if len(rs) == 2 and (rs[1].get("obs") or {}).get("ret") == "ok":
            frames.append((beh[0]["arg"]["kind"], rs[1]["obs"]["frame"]))
    return frames


def mutate(rng, frames):
    """bit flips, inserted/duplicated delimiters, truncation, concatenation (bytes only)"""
    out = []
    bykind = {}
    for k, f in frames:
        bykind.setdefault(k, []).append(f)
    for k, f in frames:
        out.append((k, list(f)))
        g = list(f)
        how = rng.choice(["flip", "flip", "zero", "trunc", "dup0", "cat", "cat", "code", "drop"])
        if how == "flip" and g:
            i = rng.randrange(len(g))
            g[i] ^= 1 << rng.randrange(8)
        elif how == "zero" and g:
            g.insert(rng.randrange(len(g)), 0)
        elif how == "trunc" and g:
            g = g[:rng.randrange(len(g))]
        elif how == "dup0":
            g = g + [0]
        elif how == "cat":
            g = g + list(rng.choice(bykind[k])) + list(rng.choice(bykind[k]))
        elif how == "code" and g:
            g[0] = rng.choice(ALPHA)
        elif how == "drop" and len(g) > 1:
            del g[rng.randrange(len(g))]
        out.append((k, g))
    return out


def schedules(ck, frames, n):
    """seeded feed / call / peek / grant sequences at production size (calls only)"""
    rng = ck.rng
    behs = []
    for _ in range(n):
        k, f = rng.choice(frames)
        data = list(f)
        if rng.random() < 0.5:
            data = data + list(rng.choice([g for kk, g in frames if kk == k]))
        beh = [{"a": "dinit", "arg": {"kind": k, "m": 0, "slack": rng.choice([0, 0, 2, 3, 16])}}]
        i = 0
        while i < len(data) and len(beh) < 60:
            c = min(len(data) - i, rng.choice([1, 1, 2, 3, 30, 223, 255, 600]))
            beh.append({"a": "feed", "arg": {"data": data[i:i + c]}})
            i += c
            for _ in range(rng.choice([1, 1, 2, 3])):
                r = rng.random()
                if r < 0.25:
                    beh.append({"a": "peek", "arg": {"x": 0}})
                elif r < 0.45:
                    beh.append({"a": "grant", "arg": {"k": rng.choice([1, 2, 8, 64]), "cond": 1}})
                beh.append({"a": "call", "arg": {"seg": rng.choice([0, 0, 1, 2, 3, 4, 5]), "mis": rng.randrange(16),
                                                 "emp": rng.choice([0, 1, 2, 3, 4])}})
        for _ in range(6):
            beh.append({"a": "grant", "arg": {"k": 16, "cond": 1}})
            beh.append({"a": "call", "arg": {"seg": rng.choice([0, 2, 3]), "mis": rng.randrange(16), "emp": rng.choice([0, 1, 2])}})
        behs.append(beh)
    return behs


def nontrivial_dec(beh, rs):
    """the stream holds a delimiter AND (a frame of >= 2 blocks / a pair code / a malformed frame / several frames)
    AND the execution was segmented (several feeds, a cut region, a grant, or a resumed call)"""
    a0 = beh[0].get("arg") or {}
    data = []
    for st in beh:
        a = st.get("arg") or {}
        if st["a"] in ("run", "qrun"):
            data = a.get("data") or []
        elif st["a"] == "feed":
            data = data + (a.get("data") or [])
    if 0 not in data:
        return False
    lim = a0.get("m") or 3
    body = data[:data.index(0)]
    rich = (len(body) >= 2 or data.count(0) > 1 or not body or any(b > lim for b in body))
    feeds = sum(1 for st in beh if st["a"] == "feed")
    cut = any((st.get("arg") or {}).get("seg") or (st.get("arg") or {}).get("chunk") for st in beh)
    grants = any(st["a"] == "grant" for st in beh)
    calls = sum(1 for st in beh if st["a"] in ("call", "peek"))
    return bool(rich and (feeds > 1 or cut or grants or calls > 1))


def run(tier):
    cfg = CFG[tier]
    ck = vlib.Check(PID, tier)
    exe = vlib.build_driver("cobs", ["cobs.c"])

    # 1. the decoder design is safe and honest for all inputs and schedules in the bound
    res = vlib.tlc("MC_CobsDec", cfg["mc"], coverage=(tier == "thorough"))
    ck.add_tlc(res, "exhaustive " + cfg["mc"])
    if tier == "thorough":
        enc.vacuity(ck, res, ["Feed", "Call", "Apply", "Grant"])      # Apply = Peek
    if cfg.get("mc2"):       # block limit 5 and the wider alphabet at the shorter length
        res2 = vlib.tlc("MC_CobsDec", cfg["mc2"])
        ck.add_tlc(res2, "exhaustive " + cfg["mc2"])

    # 2. binding A: every transition of the model replayed into the scaled real decoders
    gen = vlib.tlc("Gen_CobsDec", cfg["gen"], workers=6)
    if gen.error or gen.violation:
        raise vlib.MachineryError("behaviour export failed: %s %s" % (gen.error, gen.violation))
    behs = assign_segs(ck.rng, vlib.parse_behaviours(gen.out))
    del gen
    nt = set()
    nmm = ndiv = nacc = 0
    samples_a = [vlib.sample_repr(b) for b in behs[len(behs) // 2: len(behs) // 2 + 2]]
    CH = 50000
    for lo in range(0, len(behs), CH):
        part = behs[lo:lo + CH]
        recs, _ = vlib.run_driver(exe, vlib.to_script(part), timeout=1200)
        mms = vlib.compare(part, recs, match)
        nmm += len(mms)
        diverged = sorted({mm["b"] for mm in mms})[:1500]
        if diverged:
            evs = enc.events_of(part, recs, only=set(diverged))
            bad, _ = enc.judge(ck, "Trace_CobsDec", part, recs, evs, "A(replay,scaled)", signature)
            ndiv += len(diverged)
            nacc += len(diverged) - len(bad)
            ck.notes.setdefault("diverged_sample", [{"b": vlib.sample_repr(part[mm["b"]]), "why": mm["why"]} for mm in mms[:2]])
        by = vlib.group_records(recs)
        for b, beh in enumerate(part):
            if nontrivial_dec(beh, by.get(b, [])):
                nt.add(json.dumps([(s["a"], s.get("arg")) for s in beh], sort_keys=True))
        del recs
    ck.notes["replayed_behaviours"] = len(behs)
    ck.notes["design_mismatches"] = nmm
    ck.notes["design_divergences_judged_by_tlc"] = ndiv
    ck.notes["design_divergences_accepted_by_tier1"] = nacc
    ck.cov["evaluations"] += len(behs)
    del behs

    # 3. binding B at production block sizes
    rng = ck.rng
    pb = []
    for s in short_strings(cfg["maxlen"]):                       # exhaustive short strings
        for kind in KINDS:
            pb.append(run_step(rng, kind, s))
    nshort = len(pb)
    frames = library_frames(ck, exe, cfg["nmsg"])
    muts = mutate(rng, frames)
    for k, g in muts:                                            # mutated valid long frames
        pb.append(run_step(rng, k, g))
        if rng.random() < 0.5:
            pb.append(run_step(rng, k, g, "qrun"))               # through mpt_queue_recv / mpt_queue_peek
    pb += schedules(ck, frames, cfg["nsched"])                   # step-wise with peeks and grants
    precs, _ = vlib.run_driver(exe, vlib.to_script(pb), timeout=1200)
    pev = enc.events_of(pb, precs)
    for e in pev:
        if e["a"] == "qrun":
            e["a"] = "run"           # same judgement: answers of a protocol-following decode of the stream
    bad, total = enc.judge(ck, "Trace_CobsDec", pb, precs, pev, "B(trace,production)", signature)
    ck.cov["traces_validated_against_impl"] += len(pb) - len(bad)
    ck.cov["evaluations"] += len(pb)
    ck.notes["production_short_strings"] = nshort
    ck.notes["production_mutated_frames"] = len(muts)
    ck.notes["production_traces"] = len(pb)
    ck.notes["production_events"] = total
    by2 = vlib.group_records(precs)
    for b, beh in enumerate(pb):
        if nontrivial_dec(beh, by2.get(b, [])):
            nt.add(json.dumps([(s["a"], s.get("arg")) for s in beh], sort_keys=True))

    ck.cov["distinct_nontrivial"] = len(nt)
    ck.cov["exhaustive"] = True
    ck.cov["rule"] = ("A: one behaviour per transition of the TLC state graph of CobsDec (all strings <= MaxLen over the scaled "
                      "boundary alphabet x feeds x call/peek/grant) under the view (framing, unfed bytes, region from the message "
                      "start, decoder state), replayed into the seam-compiled decoders with the region relocated and cut per call; "
                      "B: all strings <= %d bytes over {00,01,02,1F,20,DE,DF,E0,E1,FE,FF} x 5 decoders, mutated valid frames of "
                      "run-structured messages (also through mpt_queue_recv/peek), seeded feed/call/peek/grant schedules, all "
                      "validated by TLC.  Non-trivial = the stream holds a delimiter and its first frame has >= 2 bytes, a byte "
                      "above the block limit, an empty body or a second frame follows, AND the execution was segmented (several "
                      "feeds, cut region, chunked run, a grant or several calls); distinct by (arguments, call sequence).  "
                      "exhaustive refers to the scaled model and the short production strings." % cfg["maxlen"])
    ck.cov["samples"] = samples_a + [vlib.sample_repr(pb[len(pb) // 3]), vlib.sample_repr(pb[-1][:8])]
    ck.assumptions = ["TLC/SANY and the CommunityModules Json/IOUtils are correct",
                      "Cobs.tla (RefBody) is the definition of well-formed frames; truncated pair-code blocks in the inline "
                      "framings are treated as unspecified (error or inline reading both accepted)",
                      "drv/cobs.c moves bytes and follows the caller protocol without judgement",
                      "no access outside the buffers is observed (guards, ASan) on every executed call, not proved",
                      "after a reported error only the safety clauses are demanded of later calls"]
    return ck.finish()


def replay(path):
    d = json.load(open(path))
    det = d["detail"]
    beh = det.get("behaviour")
    if not beh:
        print(json.dumps(det, indent=1)[:4000])
        return 2
    exe = vlib.build_driver("cobs", ["cobs.c"])
    recs, _ = vlib.run_driver(exe, vlib.to_script([beh]))
    evs = enc.events_of([beh], recs)
    for e in evs:
        if e["a"] == "qrun":
            e["a"] = "run"
    rej, _ = enc.tlc_trace("Trace_CobsDec", evs, "Trace_CobsDec_replay")
    for idx in rej:
        print("VIOLATION property=%s replay=%s  (trace rejected at event %d: %s)" %
              (PID, path, idx, json.dumps(evs[idx])[:600]))
    return 1 if rej else 0
