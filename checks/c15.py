"""C15 -- reference counts track handles exactly (spec/RefCount.tla)."""
import json
import os
import time
import vlib
import vseam

PID = "C15"
MANIFEST = dict(
        spec="RefCount.tla (+MC_RefCount, Gen_RefCount, Trace_RefCount)",
        text="TLC checks exhaustively (7 capability classes of object kinds, 3 handles, 3 objects, an array-of-references copy "
             "of all handles, plain-pointer and deferred references, counter limit scaled to 4..5 and reached both by real "
             "handles and by writing the counter) that the design 'raise the new referent, then lower the old one, destroy when "
             "lower answers 0' keeps counter = number of references, destroys exactly when the last reference goes, never "
             "resurrects, and that a refused raise changes nothing and never wraps.  Every transition of the model is replayed "
             "into the real code for 12 object kinds: mpt_refcount_raise/lower and refcount::raise/lower at 0/1/2/MAX-1/MAX, "
             "shared buffers (mpt_array_clone, array type traits, buffer vptr, detach, mpt_array_reserve with the same and with "
             "another content type, mpt_array_slice/insert/append leaving a shared buffer), a harness metatype "
             "counting with mpt_refcount_*, reply contexts (metatype references and deferred handles), plot rawdata with nested "
             "stage buffers, stream inputs on a socket pair or a regular file with the notifier as one more holder (mpt_notify_add "
             "accepted or refused by the kernel, mpt_notify_clear/fini), local/remote outputs, file iterators, geninfo and buffer metatypes "
             "(not shareable, clone) -- each through generic conversion (mpt_data_converter / mpt_value_convert to TypeMetaRef), "
             "reference type traits (also as array-of-references copy via mpt_buffer_set) and C++ reference<T> (copy, assign, "
             "move, detach, set_instance, destructor), with destruction observed as the release of the object's block at the "
             "malloc seam and leak-freedom when nothing is referred to any more; seeded histories with 4 handles and 8 objects "
             "are recorded from the real code and validated by TLC against the same specification.",
        note="Trusted: TLC, drv/refcount.c + refcount_cxx.cpp + seam.h (projection only).  'Destroyed' means the object's "
             "allocation was released through the malloc seam (all of mptcore, mptio and mptplot are compiled through it); "
             "use after release is observed by ASan, not proved.  Counters of library objects are observed through their public "
             "effect (BufferShared, destruction, nothing left allocated), exact values only for the harness metatype and "
             "reference<T>::type.  Not driven: mpt++ classes allocating with new (metatype::generic, io::buffer/stream), "
             "mmap-backed buffers, loader proxies.",
        technique="TLA+ spec + TLC exhaustive check; TLC-generated behaviours replayed into the C and C++ code; TLC trace validation of recorded runs",
        design="5/C15")
CFG = {
    "quick":    dict(mc=["MC_RefCount.cfg"], gen=["Gen_RefCount.cfg"], nhist=160, steps=50),
    # thorough: the quick export (all 13 kinds, 2 handles) plus 3 handles for buffers (both makes, nesting), a plain
    # shareable metatype, a non-shareable one and reference<T>; model checking: 3 handles x 2 objects for five classes,
    # 3 x 3 for buffers and non-shareable metatypes, and the reply-context model (retries x cleared send callback)
    "thorough": dict(mc=["MC_RefCount_t.cfg", "MC_RefCount_n.cfg", "MC_RefCount_r.cfg"], gen=["Gen_RefCount.cfg", "Gen_RefCount_t.cfg"],
                     nhist=1600, steps=70),
}
KINDS = ["buf", "hmeta", "reply", "rawdata", "stream", "outlocal", "outremote", "iterfile", "geninfo", "metabuf", "metanew", "cxxref", "bare"]
TEXTLENS = [0, 1, 249, 250, 254, 255, 256, 1000]
NESTABLE = ("buf", "hmeta", "cxxref")
T_NH, T_NOBJ, T_MAX, T_EXTRA = 4, 8, 1000, 3      # constants of Trace_RefCount.cfg


def build():
    core = vseam.seam_archive("core", vseam.repo_c_files("mptcore", exclude=("libinfo.c",)))
    plot = vseam.seam_archive("plot", vseam.repo_c_files("mptplot", exclude=("libinfo.c",)))
    io = vseam.seam_archive("io", vseam.repo_c_files("mptio", exclude=("libinfo.c",)))
    drv = vseam.cached_objects([os.path.join(vlib.DRV, "refcount.c")])
    flags = tuple(drv) + ("-Wl,--whole-archive", plot, io, core, "-Wl,--no-whole-archive")
    return vlib.build_driver("refcount", ["refcount_cxx.cpp"], cxx=True, repo_sources=("mpt++/refcount_wrap.cpp",),
                             extra_flags=flags, link_libs=False)


def report(ck, sig, detail):
    vlib.ensure(os.path.join(vlib.WORK, "violations"))
    return ck.violation(sig, detail)


def match(exp, obs, step, rec, prev):
    """Verdict projection: answer class, what every handle refers to, which objects live, which were destroyed by this
    call, counters where they are visible, shared flag of buffers, returned counter value."""
    if exp["ret"] != "any" and obs.get("ret") != exp["ret"]:
        return "ret: expected %s, observed %s" % (exp["ret"], obs.get("ret"))
    if obs.get("alive") != exp["alive"]:
        return "alive: expected %s, observed %s" % (exp["alive"], obs.get("alive"))
    if sorted(obs.get("gone") or []) != sorted(exp["gone"]):
        return "gone: expected destroyed %s, observed %s" % (exp["gone"], obs.get("gone"))
    for k in ("href", "copy", "inner", "cnt", "bare", "badfree"):
        if obs.get(k) != exp[k]:
            return "%s: expected %s, observed %s" % (k, exp[k], obs.get(k))
    # shared flag: every live buffer shows it (all -1 otherwise); a metatype only when it exposes a text buffer
    for e, o in zip(exp["shared"], obs.get("shared") or []):
        if e != o and (step.get("_kind") == "buf" or (e != -1 and o != -1)):
            return "shared: expected %s, observed %s" % (exp["shared"], obs.get("shared"))
    if exp["val"] != -1 and obs.get("val") != exp["val"]:
        return "val: expected %s, observed %s" % (exp["val"], obs.get("val"))
    if exp["quiet"] == 0 and obs.get("quiet") != 0:
        return "quiet: nothing is referred to any more but %s allocation(s) remain" % obs.get("quiet")
    return None


def sig_of(kind, step, why):
    arg = step.get("arg") or {}
    cls = arg.get("via") or arg.get("api") or "-"
    return "%s:%s:%s:%s" % (kind, step["a"], cls, why.split(":")[0].lower())


def kind_of(beh):
    return (beh[0].get("arg") or {}).get("kind", "?")


# ---------------------------------------------------------------------------
# binding B: seeded call sequences (inputs only).  The generator follows the
# reference structure an ideal implementation would have, only to emit calls
# whose preconditions hold; every expected value is computed by TLC.
# ---------------------------------------------------------------------------
COPY_VIAS = {"buf": ["clone", "traits", "cxx", "cxxctor"], "cxxref": ["cxx", "cxxctor"]}
DROP_VIAS = {"buf": ["clone", "fini", "raw", "cxx"], "cxxref": ["cxx"]}
META = ("hmeta", "reply", "rawdata", "stream", "geninfo", "metabuf", "metanew", "outlocal", "outremote", "iterfile")
SHARABLE = ("buf", "hmeta", "reply", "rawdata", "stream", "cxxref", "outlocal", "outremote", "iterfile")
CLONABLE = ("hmeta", "geninfo", "metabuf", "metanew", "iterfile")


class Ideal:
    def __init__(self, kind):
        self.k = kind
        self.h = [0] * T_NH
        self.c = None
        self.x = [0] * (T_NOBJ + 1)
        self.d = [0] * (T_NOBJ + 1)
        self.cnt = [0] * (T_NOBJ + 1)
        self.inn = [0] * (T_NOBJ + 1)
        self.snd = [True] * (T_NOBJ + 1)
        self.made = 0

    def can(self, o):
        return self.k in SHARABLE and o and self.cnt[o] not in (0, T_MAX)

    def lower(self, o, detached=False):
        if o:
            last = self.cnt[o] <= 1 or self.k not in SHARABLE
            self.cnt[o] = 0 if last else self.cnt[o] - 1
            if last:
                t, self.inn[o] = self.inn[o], 0
                self.lower(t)
            elif not detached and self.k == "reply":
                self.snd[o] = False

    def hrefs(self, o):
        return self.h.count(o) + (self.c.count(o) if self.c else 0)

    def base(self, o):
        return self.hrefs(o) + self.d[o] + sum(1 for p in range(1, self.made + 1) if self.cnt[p] > 0 and self.inn[p] == o)

    def reaches(self, a, b):
        while a:
            if a == b:
                return True
            a = self.inn[a]
        return False

    def assign(self, via, t, old):
        """new referent t replaces old; returns 'same' | 'refused' | 'cleared' | 'ok'"""
        if t == old:
            return "same"
        if t and not self.can(t):
            if via in ("cxx", "cxxctor"):
                self.lower(old)
                return "cleared"
            return "refused"
        if t:
            self.cnt[t] += 1
        self.lower(old)
        return "ok"


def gen_histories(ck, n, steps):
    rng = ck.rng
    behs = []
    for b in range(n):
        k = KINDS[b % len(KINDS)] if b % 3 else rng.choice(KINDS[:-1])
        m = Ideal(k)
        tlen = rng.choice(TEXTLENS) if k == "metanew" else rng.choice([0, 8]) if k == "buf" else rng.choice([0, 0, 1]) if k == "stream" else 0
        nestable = k in NESTABLE and (k != "buf" or tlen > 0)
        beh = [{"a": "init", "arg": {"kind": k, "nh": T_NH, "nobj": T_NOBJ, "max": T_MAX, "tlen": tlen}}]
        if k == "bare":
            for _ in range(steps):
                op = rng.choice(["bareset", "bareraise", "bareraise", "barelower", "barelower"])
                if op == "bareset":
                    beh.append({"a": op, "arg": {"v": rng.choice([0, 1, 2, 3, T_MAX - 2, T_MAX - 1, T_MAX])}})
                else:
                    beh.append({"a": op, "arg": {"api": rng.choice(["c", "cxx"])}})
            beh.append({"a": "teardown", "arg": {"x": 0}})
            behs.append(beh)
            continue
        cv = COPY_VIAS.get(k, ["conv", "value", "valueptr", "traits", "cxx", "cxxctor"])
        dv = DROP_VIAS.get(k, ["conv", "value", "fini", "raw", "cxx"])
        for _ in range(steps):
            ops = ["create"] * 3 + ["copy"] * 8 + ["drop"] * 4 + ["move"] * 2 + ["detach", "adopt", "adopt", "rawref", "rawunref",
                   "rawunref", "arrcopy", "arrdrop", "arrdrop", "clone", "unshare", "unshare", "nest", "nest", "nest", "poke", "unpoke", "unpoke", "defer", "defer", "undefer", "undefer", "undefer", "reply"]
            if k == "stream":
                ops += ["nadd"] * 5 + ["nclear"] * 3 + ["nfini"]
            op = rng.choice(ops)
            alive = [o for o in range(1, m.made + 1) if m.cnt[o] > 0]
            if k == "reply" and op in ("poke", "unpoke", "unshare", "clone") and rng.random() < 0.8:
                op = rng.choice(["defer", "undefer", "undefer", "reply"])
            if op == "create":
                hs = [i for i in range(T_NH) if not m.h[i]]
                if not hs or m.made >= T_NOBJ:
                    continue
                i = rng.choice(hs)
                m.made += 1
                m.h[i] = m.made
                m.cnt[m.made] = 1
                beh.append({"a": "create", "arg": {"h": i + 1, "len": tlen}})
            elif op == "copy":
                i, g = rng.randrange(T_NH), rng.randrange(T_NH)
                via = rng.choice(cv)
                sin = 1 if (nestable and m.h[g] and rng.random() < 0.4) else 0
                if via in ("traits", "cxxctor") and m.h[i]:
                    continue
                t, o = (m.inn[m.h[g]] if sin else m.h[g]), m.h[i]
                beh.append({"a": "copy", "arg": {"h": i + 1, "g": g + 1, "via": via, "sin": sin}})
                if t == o:
                    if o and k == "reply" and via in ("conv", "value", "valueptr") and m.can(o):
                        m.snd[o] = False
                    continue
                r = m.assign(via, t, o)
                if r == "cleared":
                    m.h[i] = 0
                elif r == "ok":
                    m.h[i] = t
            elif op == "nest":
                hs = [i for i in range(T_NH) if m.h[i]]
                if not nestable or not hs:
                    continue
                i, g = rng.choice(hs), rng.randrange(T_NH)
                a_, t = m.h[i], m.h[g]
                if t and m.reaches(t, a_):
                    continue
                via = rng.choice([v for v in cv if v not in ("traits", "cxxctor")])
                beh.append({"a": "nest", "arg": {"h": i + 1, "g": g + 1, "via": via}})
                r = m.assign(via, t, m.inn[a_])
                if r == "cleared":
                    m.inn[a_] = 0
                elif r == "ok":
                    m.inn[a_] = t
            elif op == "drop":
                i = rng.randrange(T_NH)
                beh.append({"a": "drop", "arg": {"h": i + 1, "via": rng.choice(dv)}})
                m.lower(m.h[i])
                m.h[i] = 0
            elif op == "move":
                i, g = rng.randrange(T_NH), rng.randrange(T_NH)
                beh.append({"a": "move", "arg": {"h": i + 1, "g": g + 1}})
                if i != g:
                    m.lower(m.h[i])
                    m.h[i], m.h[g] = m.h[g], 0
            elif op == "detach":
                hs = [i for i in range(T_NH) if m.h[i] and m.x[m.h[i]] < T_EXTRA]
                if not hs:
                    continue
                i = rng.choice(hs)
                beh.append({"a": "detach", "arg": {"h": i + 1}})
                m.x[m.h[i]] += 1
                m.h[i] = 0
            elif op == "adopt":
                os_ = [o for o in alive if m.x[o] > 0]
                if not os_:
                    continue
                o, i = rng.choice(os_), rng.randrange(T_NH)
                beh.append({"a": "adopt", "arg": {"h": i + 1, "o": o}})
                m.lower(m.h[i])
                m.h[i] = o
                m.x[o] -= 1
            elif op == "rawref":
                os_ = [o for o in alive if m.x[o] < T_EXTRA]
                if not os_:
                    continue
                o = rng.choice(os_)
                beh.append({"a": "rawref", "arg": {"o": o}})
                if m.can(o):
                    m.cnt[o] += 1
                    m.x[o] += 1
            elif op == "rawunref":
                os_ = [o for o in alive if m.x[o] > 0]
                if not os_:
                    continue
                o = rng.choice(os_)
                beh.append({"a": "rawunref", "arg": {"o": o}})
                m.x[o] -= 1
                m.lower(o)
            elif op == "arrcopy":
                if m.c is not None or k == "cxxref":
                    continue
                beh.append({"a": "arrcopy", "arg": {"x": 0}})
                c = []
                for i in range(T_NH):
                    o = m.h[i]
                    if o and m.can(o):
                        m.cnt[o] += 1
                        c.append(o)
                    else:
                        c.append(0)
                m.c = c
            elif op == "arrdrop":
                if m.c is None:
                    continue
                beh.append({"a": "arrdrop", "arg": {"x": 0}})
                c, m.c = m.c, None
                for o in c:
                    m.lower(o)
            elif op == "unshare":
                hs = [i for i in range(T_NH) if m.h[i]]
                if k != "buf" or not hs:
                    continue
                i = rng.choice(hs)
                o = m.h[i]
                if m.cnt[o] > 1 and m.made >= T_NOBJ:
                    continue
                via = rng.choice(["vptr", "reserve", "reserveother", "reserveother", "slice", "insert"] + (["append"] if tlen == 0 else []))
                beh.append({"a": "unshare", "arg": {"h": i + 1, "via": via}})
                if m.cnt[o] <= 1 and via == "reserveother":
                    t, m.inn[o] = m.inn[o], 0
                    m.lower(t)
                if m.cnt[o] > 1:
                    t = m.inn[o] if via != "reserveother" else 0
                    m.made += 1
                    if t and m.can(t):
                        m.cnt[t] += 1
                        m.inn[m.made] = t
                    m.cnt[o] -= 1
                    m.h[i] = m.made
                    m.cnt[m.made] = 1
            elif op == "clone":
                if k not in META or m.made >= T_NOBJ:
                    continue
                src = [i for i in range(T_NH) if m.h[i]]
                dst = [i for i in range(T_NH) if not m.h[i]]
                if not src or not dst:
                    continue
                i, g = rng.choice(src), rng.choice(dst)
                beh.append({"a": "clone", "arg": {"h": i + 1, "g": g + 1}})
                if k in CLONABLE:
                    m.made += 1
                    m.h[g] = m.made
                    m.cnt[m.made] = 1
            elif op in ("poke", "unpoke"):
                if k not in ("hmeta", "cxxref") or not alive:
                    continue
                o = rng.choice(alive)
                base = m.base(o)
                v = rng.choice([T_MAX, T_MAX - 1, T_MAX - 1]) if op == "poke" else base
                if v < 1 or v < base:
                    continue
                beh.append({"a": "poke", "arg": {"o": o, "v": v}})
                m.x[o] = v - base
                m.cnt[o] = v
            elif op == "defer":
                os_ = [o for o in alive if m.d[o] < T_EXTRA]
                if k != "reply" or not os_:
                    continue
                o = rng.choice(os_)
                armed = rng.choice([0, 1, 1, 1])
                beh.append({"a": "defer", "arg": {"o": o, "armed": armed}})
                if armed and m.can(o):
                    m.cnt[o] += 1
                    m.d[o] += 1
            elif op == "undefer":
                os_ = [o for o in alive if m.d[o] > 0]
                if k != "reply" or not os_:
                    continue
                o = rng.choice(os_)
                msg, acc = rng.choice([0, 1, 1]), rng.choice([0, 1])
                beh.append({"a": "undefer", "arg": {"o": o, "msg": msg, "accept": acc}})
                if not (msg == 1 and acc == 0 and m.snd[o]):
                    m.d[o] -= 1
                    m.lower(o, detached=True)
            elif op == "nadd":
                hs = [i for i in range(T_NH) if m.h[i]]
                if not hs:
                    continue
                i = rng.choice(hs)
                o = m.h[i]
                beh.append({"a": "nadd", "arg": {"h": i + 1}})
                if tlen == 0 and m.d[o] == 0:
                    m.h[i], m.d[o] = 0, 1
            elif op == "nclear":
                if not alive:
                    continue
                o = rng.choice(alive)
                beh.append({"a": "nclear", "arg": {"o": o}})
                if m.d[o]:
                    m.d[o] = 0
                    m.lower(o)
            elif op == "nfini":
                beh.append({"a": "nfini", "arg": {"x": 0}})
                for o in range(1, m.made + 1):
                    if m.d[o]:
                        m.d[o] = 0
                        m.lower(o)
            elif op == "reply":
                if k != "reply" or not alive:
                    continue
                beh.append({"a": "reply", "arg": {"o": rng.choice(alive), "msg": rng.choice([0, 1]), "accept": rng.choice([0, 1])}})
        for o in range(1, m.made + 1):             # no teardown while a counter is written up to MAX-k
            if m.cnt[o] > T_MAX // 2:
                beh.append({"a": "poke", "arg": {"o": o, "v": max(m.base(o), 1)}})
        beh.append({"a": "teardown", "arg": {"x": 0}})
        behs.append(beh)
    return behs


def nontrivial(beh, recs):
    """some object was destroyed while another reference holder still existed elsewhere in the history,
    i.e. the history contains a sharing (count > 1) and a destruction."""
    shared = gone = False
    for st, r in zip(beh, recs):
        o = r.get("obs") or {}
        if o.get("gone"):
            gone = True
        hr = [x for x in (o.get("href") or []) + (o.get("copy") or []) if x]
        if len(hr) != len(set(hr)) or st["a"] in ("rawref", "defer", "detach", "poke", "nadd"):
            shared = True
        if st["a"].startswith("bare") and (o.get("ret") == "refused" or st["a"] == "barelower"):
            shared = gone = True
    return shared and gone


def callseq(beh):
    return json.dumps([(s["a"], s.get("arg")) for s in beh], sort_keys=True)


def validate(tag, hist, recs, max_rejects=8):
    events = vlib.merge_trace(hist, recs)
    nev = len(events)
    found, trans, dropped = [], 0, set()
    while True:
        evs = [e for e in events if e["b"] not in dropped]
        if not evs:
            break
        ok, matched, tres = vlib.validate_trace("Trace_RefCount", evs, tag="Trace_RefCount_" + tag)
        trans += tres.generated
        if ok:
            break
        ok2, matched2, _ = vlib.validate_trace("Trace_RefCount", evs, tag="Trace_RefCount_" + tag)
        if ok2:
            break
        matched = min(matched, matched2)
        ev = evs[matched] if matched < len(evs) else None
        if ev is None:
            found.append(("trace:short", {"binding": "B(trace validation)", "matched_prefix": matched}))
            break
        beh = hist[ev["b"]]
        st = beh[ev["i"]]
        why = ev["a"].lower() if ev["a"] in ("Crash", "Hang", "Missing", "Garbled") else "rejected"
        found.append((sig_of(kind_of(beh), st, why),
                      {"binding": "B(trace validation)", "matched_prefix": matched, "rejected_event": ev,
                       "previous_event": evs[matched - 1] if matched and evs[matched - 1]["b"] == ev["b"] else None,
                       "behaviour": beh[:ev["i"] + 1]}))
        dropped.add(ev["b"])
        if len(dropped) >= max_rejects:
            break
    for f in os.listdir(os.path.join(vlib.WORK, "traces")) if os.path.isdir(os.path.join(vlib.WORK, "traces")) else []:
        if f.startswith("Trace_RefCount_%s-%d." % (tag, os.getpid())):
            os.unlink(os.path.join(vlib.WORK, "traces", f))
    return (len(hist) - len(dropped)) if len(dropped) < max_rejects else 0, found, trans, nev


def run(tier):
    from concurrent.futures import ThreadPoolExecutor
    cfg = CFG[tier]
    ck = vlib.Check(PID, tier)
    exe = build()
    pool = ThreadPoolExecutor(max_workers=6)

    # 1. design (counter per object) implements the meaning (who refers to what) for all histories in the bound
    def mc_job():
        # one after the other: on a loaded machine two model checkers side by side only slow each other down
        nw = vlib.NCPU if tier == "thorough" else max(4, vlib.NCPU // 2)
        return [(c, vlib.tlc("MC_RefCount", c, coverage=(tier == "thorough"), tag="MC_RefCount_" + c[:-4], workers=nw, timeout=2400))
                for c in cfg["mc"]]
    mc = pool.submit(mc_job)      # runs while the bindings below are exercised

    # 3. binding B: seeded histories recorded from the real code, validated by TLC
    hist = gen_histories(ck, cfg["nhist"], cfg["steps"])

    def trace_job():
        recs2 = vseam.rerun_hung(exe, hist, vseam.run_parallel(exe, hist, nproc=3))
        acc, found, trans, nev = validate("main", hist, recs2)
        by2 = vlib.group_records(recs2)
        keys = set(callseq(beh) for b, beh in enumerate(hist) if nontrivial(beh, by2.get(b, [])))
        return acc, found, trans, nev, keys
    tjob = pool.submit(trace_job)

    # 2. binding A: every transition of the model replayed into the real code
    behs = []
    for g in cfg["gen"]:
        gen = vlib.tlc("Gen_RefCount", g, workers=4, tag="Gen_RefCount_" + g[:-4])
        if gen.error or gen.violation:
            raise vlib.MachineryError("behaviour export failed (%s): %s %s" % (g, gen.error, gen.violation))
        part = vlib.parse_behaviours(gen.out)
        gen.out = ""
        vlib.log("C15 %s: %d behaviours exported in %.1fs" % (g, len(part), gen.wall))
        behs += part
    for beh in behs:                      # the projection of the shared flag depends on the kind of the behaviour
        for st in beh:
            st["_kind"] = kind_of(beh)
    recs = vseam.run_parallel(exe, behs, nproc=6)
    by = vlib.group_records(recs)
    mms = vseam.recheck_transient(exe, behs, vlib.compare(behs, recs, match), match)
    seen = {}
    for mm in mms:
        sig = sig_of(kind_of(behs[mm["b"]]), mm["step"], mm["why"])
        seen[sig] = seen.get(sig, 0) + 1
        if seen[sig] > 2:
            continue
        report(ck, sig, {"binding": "A(replay)", "behaviour": behs[mm["b"]][:mm["i"] + 1], "step": mm["i"],
                         "why": mm["why"], "record": mm["rec"]})
    nt = set(callseq(beh) for b, beh in enumerate(behs) if nontrivial(beh, by.get(b, [])))
    perkind = {}
    for beh in behs:
        perkind[kind_of(beh)] = perkind.get(kind_of(beh), 0) + 1
    ck.cov["evaluations"] += len(behs)
    ck.notes["replayed_behaviours"] = len(behs)
    ck.notes["replayed_per_kind"] = perkind
    ck.notes["replay_mismatches"] = len(mms)
    ck.notes["replay_mismatch_signatures"] = seen
    vlib.log("C15 replay: %d behaviours, %d mismatches (t=%.0fs)" % (len(behs), len(mms), time.time() - ck.t0))

    acc, found, trans, nev, keys = tjob.result()
    for sig, det in found:
        report(ck, sig, det)
    nt |= keys
    ck.cov["transitions"] += trans
    ck.cov["evaluations"] += len(hist)
    ck.notes["trace_events"] = nev
    ck.cov["traces_validated_against_impl"] = acc
    vlib.log("C15 traces: %d histories, %d accepted (t=%.0fs)" % (len(hist), acc, time.time() - ck.t0))

    for c, res in mc.result():
        ck.add_tlc(res, "exhaustive " + c)
        vlib.log("C15 model checked (%s): %d states, %d transitions, %.1fs" % (c, res.distinct, res.generated, res.wall))
    pool.shutdown()
    ck.cov["distinct_nontrivial"] = len(nt)
    ck.cov["exhaustive"] = True
    ck.cov["rule"] = ("A: one behaviour per transition of the TLC state graph of RefCount (view = the whole reference structure: "
                      "kind, handles, array copy, plain-pointer and deferred references, counters) for 8 object kinds, every "
                      "create/copy(via conversion, type traits, array clone, reference<T> assign and copy-construct)/drop/move/"
                      "detach/adopt/addref/unref/defer/poke/array-copy/clone from every state, replayed into the real code; "
                      "B: seeded histories (4 handles, 8 objects, 50-70 calls) recorded from the real code and validated by TLC.  "
                      "Non-trivial = the history contains a shared object (two references) and a destruction (or, for the bare "
                      "counter, a refusal or a lower); distinct by call sequence.  exhaustive refers to the scaled model "
                      "(counter limit 4/6 in MC, 20 with symbolic MAX-k mapping in the replay).")
    mid = len(behs) // 2
    ck.cov["samples"] = [vlib.sample_repr(b) for b in behs[mid:mid + 2]] + [vlib.sample_repr(hist[1][:8])]
    ck.assumptions = ["TLC/SANY and the CommunityModules Json/IOUtils are correct",
                      "drv/refcount.c, refcount_cxx.cpp and seam.h project the state without judgement (map pointers to object numbers, "
                      "report released blocks, read counters of harness-owned objects)",
                      "an object counts as destroyed when its allocation is released at the malloc seam; the sources compiled through "
                      "the seam (all mptcore, mptplot rawdata/values, mpt++/refcount_wrap.cpp) are the code that ships",
                      "use-after-release is observed by ASan on every executed call, not proved",
                      "UINTPTR_MAX is represented symbolically (values above Max/2 mean MAX-k); the model is bounded (see cfgs)"]
    # extension X15: counted objects that own counted objects (checks/x15_owned.py, docs/X15_owned.md)
    import x15_owned
    if x15_owned.enabled():
        x15_owned.run_part(ck, tier)
    # extension X30: the creator overrides of libmpt++ (checks/x30_creators.py, docs/X30_creators.md)
    import x30_creators
    if x30_creators.enabled():
        x30_creators.run_part(ck, tier)
    return ck.finish()


def replay(path):
    d = json.load(open(path))
    det = d["detail"]
    if det.get("x15"):
        import x15_owned
        return x15_owned.replay(det, path)
    if det.get("x30"):
        import x30_creators
        return x30_creators.replay(det, path)
    beh = det.get("behaviour")
    if not beh:
        print(json.dumps(det, indent=1)[:4000])
        return 2
    exe = build()
    recs, err = vlib.run_driver(exe, vlib.to_script([beh]))
    if all("exp" in s for s in beh):
        rc = 0
        for st in beh:
            st["_kind"] = kind_of(beh)
        for mm in vlib.compare([beh], recs, match):
            print("VIOLATION property=%s replay=%s  (%s: %s)" % (PID, path, sig_of(kind_of(beh), mm["step"], mm["why"]), mm["why"]))
            rc = 1
        return rc
    events = vlib.merge_trace([beh], recs)
    ok, matched, _ = vlib.validate_trace("Trace_RefCount", events, tag="Trace_RefCount_replay")
    if not ok:
        print("VIOLATION property=%s replay=%s  (trace rejected at event %d: %s)" % (
            PID, path, matched, json.dumps(events[matched])[:400] if matched < len(events) else "-"))
    return 0 if ok else 1
